"""C19 - easter() returns the canonical Easter Sunday for each method."""
import ast

from ..model import src, walk_local, AnalysisError
from ..cfg import ReachingDefs
from ..ivl import Interp, Val, TOP
from ..linform import poly, show

CLAIM = ("static analysis (interval analysis with branch refinement, dominance of the method guard, reaching "
         "definitions): the clause 'any other method value raises ValueError' is decided completely; month/day "
         "handed to date() are proved to lie in calendar range over the documented years; equality with the "
         "Meeus/Jones/Butcher date for every year is NOT decided (that needs exhaustive evaluation, which is not "
         "static analysis)")
TECHNIQUE = "interval abstract interpretation with branch refinement + CFG dominance + reaching definitions (ast only)"
EXPLANATION = (
    "C19.FORMULA: the function's guarded normal form (returned date as an expression of year and method per branch) equals the "
    "confirmed table. C19.METHOD: interval analysis seeds `method` with TOP; at every statement after the guard the interval of "
    "`method` is within [1,3], the guard's failing edge leads to `raise ValueError`, and the guard dominates every "
    "arithmetic statement. The constants EASTER_JULIAN/ORTHODOX/WESTERN are 1/2/3 and the default is WESTERN. "
    "C19.RANGE: with year in [326,9999] (method 1) resp. [1583,4099] (methods 2,3) the month passed to date() is "
    "within [3,6] and the day within [1,31], so date() cannot fail on its month/day range. C19.SHAPE: method 2 "
    "differs from method 1 only by the additive day shift e (same i, j definitions reach p), e is 0 for methods 1 "
    "and 3, p = i - j + e, and the Gregorian branch is selected by method >= 3 only. C19.SHIFT: e reads the year only through y//100 and one "
    "threshold comparison (dependence check), so constant propagation on one representative per century/threshold "
    "class proves e == y//100 - y//400 - 2 (the Julian-to-Gregorian calendar difference) for all years 1583..4099.")
ASSUMPTIONS = ["integer year", "the computus constants are compared with the confirmed baseline table (C19.FORMULA), not re-derived from an independent algorithm"]


def run(ctx):
    prog = ctx.prog
    f = prog.func("easter.easter", "C19")
    mod = prog.module("easter", "C19")
    cfg = ctx.cfg(f)
    facts = ctx.facts(f)

    # constants
    consts = {k: (mod.assigns[k].value if k in mod.assigns and isinstance(mod.assigns[k], ast.Constant) else None)
              for k in ("EASTER_JULIAN", "EASTER_ORTHODOX", "EASTER_WESTERN")}
    ctx.ob("C19.METHOD", mod, "method constants are JULIAN=1, ORTHODOX=2, WESTERN=3", consts == {"EASTER_JULIAN": 1, "EASTER_ORTHODOX": 2, "EASTER_WESTERN": 3},
           construct="EASTER_* constants", detail=str(consts))
    dflt = f.defaults.get("method")
    ctx.ob("C19.METHOD", f, "the default method is the western one", dflt is not None and src(dflt) in ("EASTER_WESTERN", "3"), construct="default method=%s" % src(dflt))

    # ---------------------------------------------------------------- C19.FORMULA
    # the arithmetic itself, as a guarded table of the returned date over (method, year): compared with the table that was
    # confirmed on the baseline tree by reading it against the published Meeus / Jones / Butcher and Oudin formulas.  Names of
    # intermediates and the order of independent statements do not matter; a changed constant or operator does.
    from .. import summ
    summ.check_baseline(ctx, "C19.FORMULA", f, "the computus arithmetic (golden number, epact, Sunday letter, day / month split) is the confirmed one for each method",
                        construct="easter() formula table")

    # ---------------------------------------------------------------- C19.METHOD
    consts_v = {k: Val(v, v) for k, v in consts.items() if v is not None}
    it = Interp(prog, f, seeds=consts_v).run()
    arith = [n for n in it.cfg.live_nodes() if n.kind == "stmt" and isinstance(n.ast, (ast.Assign, ast.AugAssign, ast.Return))]
    if len(arith) < 10:
        raise AnalysisError("C19.METHOD", f.qualname, "computation statements not found")
    bad = []
    for n in arith:
        env = it.IN.get(n.id)
        if env is None:
            continue
        v = env.get("method")
        if not (isinstance(v, Val) and v.within(1, 3)):
            bad.append((n.lineno, v))
    ctx.ob("C19.METHOD", f, "only method values in {1,2,3} reach the computation (interval of `method` at every arithmetic statement)",
           not bad, construct="range of method after the guard", detail="" if not bad else "at L%d method is %r" % bad[0], analysis="IVL")
    raises = [n for n in cfg.live_nodes() if n.kind == "stmt" and isinstance(n.ast, ast.Raise)]
    okr = len(raises) >= 1 and all(src(r.ast.exc).startswith("ValueError") for r in raises)
    ctx.ob("C19.METHOD", f, "the rejected method values raise ValueError", okr, construct="raise in method guard", detail=str([src(r.ast) for r in raises]))
    guards = [n for n in cfg.live_nodes() if n.kind == "branch" and "method" in src(n.ast) and any(s in raises for s, l in n.succ)]
    ctx.ob("C19.METHOD", f, "the method guard dominates every statement of the computation",
           bool(guards) and all(cfg.dominates(guards, n) for n in cfg.live_nodes() if n.kind == "stmt" and isinstance(n.ast, (ast.Assign, ast.AugAssign, ast.Return))),
           construct="guard dominance", analysis="CFG dominance")

    # ---------------------------------------------------------------- C19.RANGE
    rets = [n for n in cfg.live_nodes() if n.kind == "stmt" and isinstance(n.ast, ast.Return)]
    if len(rets) != 1 or not isinstance(rets[0].ast.value, ast.Call) or not src(rets[0].ast.value.func).endswith("date"):
        raise AnalysisError("C19.RANGE", f.qualname, "single `return datetime.date(...)` not found")
    for label, seeds in (("method 1, years 326..9999", {"year": Val(326, 9999), "method": Val(1, 1)}),
                         ("method 2, years 1583..4099", {"year": Val(1583, 4099), "method": Val(2, 2)}),
                         ("method 3, years 1583..4099", {"year": Val(1583, 4099), "method": Val(3, 3)})):
        seeds = dict(seeds)
        seeds.update(consts_v)
        it2 = Interp(prog, f, seeds=seeds).run()
        rn = [n for n in it2.cfg.live_nodes() if n.kind == "stmt" and isinstance(n.ast, ast.Return)][0]
        args = rn.ast.value.args
        vals = [it2.value_at(rn, a) for a in args]
        yv, mv, dv = (vals + [None, None, None])[:3]
        ctx.ob("C19.RANGE", f, "%s: month handed to date() lies in [3, 6] (March..June window of the algorithm)" % label,
               isinstance(mv, Val) and mv.within(3, 6), construct="date() month, %s" % label, detail="interval %r" % (mv,), analysis="IVL")
        ctx.ob("C19.RANGE", f, "%s: day handed to date() lies in [1, 31]" % label, isinstance(dv, Val) and dv.within(1, 31),
               construct="date() day, %s" % label, detail="interval %r" % (dv,), analysis="IVL")
        ctx.ob("C19.RANGE", f, "%s: year handed to date() is the requested year" % label,
               isinstance(yv, Val) and yv == seeds["year"], construct="date() year, %s" % label, detail="interval %r" % (yv,), analysis="IVL")

    # ---------------------------------------------------------------- C19.SHAPE
    rd = ReachingDefs(cfg, params=f.params)
    pdefs = [n for n in cfg.live_nodes() if n.kind == "stmt" and isinstance(n.ast, ast.Assign) and src(n.ast.targets[0]) == "p"]
    okp = len(pdefs) == 1 and poly(pdefs[0].ast.value) == {("i",): 1, ("j",): -1, ("e",): 1}
    ctx.ob("C19.SHAPE", f, "p = i - j + e (days from 21 March to the Sunday, plus the calendar shift)", okp,
           construct="p = %s" % (src(pdefs[0].ast.value) if pdefs else "?"), analysis="polynomial normal form")
    edefs = [n for n in cfg.live_nodes() if n.kind == "stmt" and isinstance(n.ast, ast.Assign) and src(n.ast.targets[0]) == "e"]
    nonzero = [n for n in edefs if src(n.ast.value) != "0"]
    oke = bool(edefs) and all(("method == 2", True) in facts.at(n) for n in nonzero) and any(src(n.ast.value) == "0" for n in edefs)
    ctx.ob("C19.SHAPE", f, "the Julian-to-Gregorian day shift e is non-zero only for method 2 (0 for methods 1 and 3)", oke,
           construct="definitions of e", detail=str([(src(n.ast), sorted(t for t, tv in facts.at(n) if tv and "method" in t)) for n in edefs]),
           analysis="must-hold branch facts")
    if pdefs:
        idefs = rd.at(pdefs[0], "i")
        jdefs = rd.at(pdefs[0], "j")
        old_i = [i for i in idefs if i and any(t == "method < 3" and tv for t, tv in facts.at(cfg.nodes[i]))]
        new_i = [i for i in idefs if i and any(t == "method < 3" and not tv for t, tv in facts.at(cfg.nodes[i]))]
        ctx.ob("C19.SHAPE", f, "methods 1 and 2 share the old-computus definitions of i and j; method 3 uses the revised ones "
               "(branch on method < 3)", len(idefs) == 2 and len(jdefs) == 2 and len(old_i) == 1 and len(new_i) == 1,
               construct="definitions of i, j reaching p", detail="i: %s; j: %s" % (rd.describe(idefs), rd.describe(jdefs)), analysis="reaching definitions")
    check_shift(ctx, f, consts_v)
    # month/day from p
    dm = {src(n.ast.targets[0]): n for n in cfg.live_nodes() if n.kind == "stmt" and isinstance(n.ast, ast.Assign) and src(n.ast.targets[0]) in ("d", "m")}
    ok_dm = "d" in dm and "m" in dm and all(i and cfg.nodes[i] in pdefs for k in ("d", "m") for i in rd.at(dm[k], "p"))
    ctx.ob("C19.SHAPE", f, "month and day are both derived from the same p", ok_dm, construct="d, m from p")
    # g = y % 19
    g = [n for n in cfg.live_nodes() if n.kind == "stmt" and isinstance(n.ast, ast.Assign) and src(n.ast.targets[0]) == "g"]
    ctx.ob("C19.SHAPE", f, "the golden number is year mod 19", len(g) == 1 and src(g[0].ast.value).replace(" ", "") in ("y%19", "year%19"),
           construct="g = %s" % (src(g[0].ast.value) if g else "?"))


def check_shift(ctx, f, consts_v):
    """C19.SHIFT - the orthodox day shift e equals the Julian->Gregorian calendar difference y//100 - y//400 - 2.

    e depends on the year only through `y // 100` and one comparison `y > K` (checked on the AST), so the
    year range 1583..4099 splits into finitely many classes (century x side of K); constant propagation with one
    representative per class decides the clause for every year."""
    prog = ctx.prog
    cfg = ctx.cfg(f)
    edefs = [n for n in cfg.live_nodes() if n.kind == "stmt" and isinstance(n.ast, ast.Assign) and src(n.ast.targets[0]) == "e"]
    # dependence of e on the year
    ynames = {"y", "year"}
    uses = []
    thresholds = []
    for n in edefs:
        parents = {}
        for x in ast.walk(n.ast.value):
            for c in ast.iter_child_nodes(x):
                parents[id(c)] = x
        for x in ast.walk(n.ast.value):
            if isinstance(x, ast.Name) and x.id in ynames:
                p = parents.get(id(x))
                ok = isinstance(p, ast.BinOp) and isinstance(p.op, ast.FloorDiv) and p.left is x and isinstance(p.right, ast.Constant) and p.right.value == 100
                uses.append(ok)
    for n in cfg.live_nodes():
        if n.kind == "branch" and any(isinstance(x, ast.Name) and x.id in ynames for x in ast.walk(n.ast)):
            c = n.ast
            if isinstance(c, ast.Compare) and len(c.ops) == 1 and isinstance(c.comparators[0], ast.Constant) and isinstance(c.left, ast.Name):
                thresholds.append(c.comparators[0].value)
            else:
                uses.append(False)
    if not uses or not all(uses):
        raise AnalysisError("C19.SHIFT", f.qualname, "the day shift reads the year other than through `y // 100` and `y <op> K`: partition not justified")
    reps = set()
    for c in range(15, 41):
        for y in (c * 100, c * 100 + 1, c * 100 + 99):
            if 1583 <= y <= 4099:
                reps.add(y)
    for k in thresholds:
        for y in (k - 1, k, k + 1):
            if 1583 <= y <= 4099:
                reps.add(y)
    bad = []
    for y in sorted(reps):
        seeds = {"year": Val(y, y), "method": Val(2, 2)}
        seeds.update(consts_v)
        it = Interp(prog, f, seeds=seeds).run()
        pn = [n for n in it.cfg.live_nodes() if n.kind == "stmt" and isinstance(n.ast, ast.Assign) and src(n.ast.targets[0]) == "p"]
        v = it.IN[pn[0].id].get("e") if pn and pn[0].id in it.IN else None
        want = y // 100 - y // 400 - 2
        if not (isinstance(v, Val) and v.lo == v.hi == want):
            bad.append((y, v, want))
    ctx.stat("shift_representatives", len(reps))
    ctx.ob("C19.SHIFT", f, "for method 2 the added day shift equals the Julian-to-Gregorian calendar difference "
           "(y//100 - y//400 - 2) for every year 1583..4099 (one representative per century x guard class)", not bad,
           construct="orthodox day shift e", detail="" if not bad else "year %d: e = %r, calendar difference %d (%d of %d classes differ)" % (bad[0] + (len(bad), len(reps))),
           analysis="constant propagation over a finite partition justified by a dependence check")
