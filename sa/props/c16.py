"""C16 - relativedelta is a well-behaved value: normalised, comparable, hashable."""
import ast
import itertools

from ..model import src, walk_local, AnalysisError, FuncInfo
from ..fields import init_fields, ctor_calls, attr_reads, match_role, is_attr
from ..ivl import Interp, Val, TOP

CLAIM = ("static analysis (field-coverage / same-field / role set comparisons over every constructor call, "
         "equality-vs-hash agreement, interval analysis of the carry normaliser, dominance of the integer guard): "
         "necessary conditions of C16; preservation of totals by the carries and float rounding are not decided")
TECHNIQUE = "field-coverage and sibling-agreement set comparison over ast + interval abstract interpretation of _fix/_set_months + must-hold branch facts"
EXPLANATION = (
    "The 16 state fields are derived from relativedelta.__init__. C16.FIELDS: each of the 7 operator "
    "constructor calls (normalized, __add__ x2, __sub__, __abs__, __neg__, __mul__) passes all 16 as keywords, "
    "each fed from the same-named field of self/other, with the operator's role (negate/abs/scale exactly the 7 "
    "relative fields; sum/difference with operand order; other-else-self vs self-else-other for absolute fields; "
    "leapdays and absolute fields passed through). Delegating operators (return self.__mul__(..)) are checked "
    "against the delegate's expressions. C16.EQHASH: __eq__ and __hash__ read the same 16 fields; a field hashed "
    "raw must be compared with plain ==; a field compared under an equivalence (weekday.n in {None,0,1}) must be "
    "hashed through a normaliser whose classes (evaluated on the closed expression for a finite sample of n) "
    "coincide with the equivalence of __eq__. C16.COVER: __eq__, __bool__, __repr__ mention all 16 fields; "
    "__ne__ negates __eq__. C16.FIX: interval analysis proves |us|<=999999, |s|,|min|<=59, |h|<=23, |months|<=11 "
    "at the exit of _fix and _set_months, with carries into the next larger field; _fix() is reached on every "
    "normal path out of __init__. C16.INT: int(years)/int(months) are dominated by the non-integer ValueError "
    "guard. C16.WEEKDAY: an integer weekday is mapped through weekdays[...].")
ASSUMPTIONS = [
    "field values are integers for the interval bounds (float fields give the same bounds up to < modulus)",
    "carries preserve the total, float cascade in normalized(): NOT decided",
]

RELATIVE = ["years", "months", "days", "hours", "minutes", "seconds", "microseconds"]
TIME_REL = ["days", "hours", "minutes", "seconds", "microseconds"]


def state_fields(ctx):
    init = ctx.prog.func("relativedelta.relativedelta.__init__", "C16.FIELDS")
    fields = init_fields(init, exclude=("_has_time",))
    if len(fields) != 16:
        raise AnalysisError("C16.FIELDS", init.qualname, "expected 16 state fields, derived %d: %s" % (len(fields), fields))
    rel = [f for f in fields if f in RELATIVE]
    if len(rel) != 7 or "leapdays" not in fields or "weekday" not in fields:
        raise AnalysisError("C16.FIELDS", init.qualname, "relative/absolute split not recognised: %s" % fields)
    absolute = [f for f in fields if f not in RELATIVE and f != "leapdays"]
    return fields, rel, absolute


def role_table(method, branch, rel, absolute):
    """field -> (role, a, b) for one constructor call."""
    t = {}
    if method in ("__neg__", "__abs__", "__mul__"):
        r = {"__neg__": "neg", "__abs__": "abs", "__mul__": "scale"}[method]
        for k in rel:
            t[k] = (r, "self", "other")
        for k in ["leapdays"] + absolute:
            t[k] = ("pass", "self", "other")
    elif method == "normalized":
        for k in ("years", "months"):
            t[k] = ("pass", "self", "other")
        for k in TIME_REL:
            t[k] = ("local", "self", "other")
        for k in ["leapdays"] + absolute:
            t[k] = ("pass", "self", "other")
    elif method == "__add__" and branch == 0:
        for k in rel:
            t[k] = ("sum", "self", "other")
        t["leapdays"] = ("first_or", "other", "self")
        for k in absolute:
            t[k] = ("first_not_none", "other", "self")
    elif method == "__add__" and branch == 1:        # + timedelta
        for k in rel:
            t[k] = ("sum", "self", "other") if k in ("days", "seconds", "microseconds") else ("pass", "self", "other")
        for k in ["leapdays"] + absolute:
            t[k] = ("pass", "self", "other")
    elif method == "__sub__":
        for k in rel:
            t[k] = ("diff", "self", "other")
        t["leapdays"] = ("first_or", "self", "other")
        for k in absolute:
            t[k] = ("first_not_none", "self", "other")
    return t


def check_ctor(ctx, f, call, method, branch, fields, rel, absolute, label=None, via=None):
    label = label or ("%s#%d" % (method, branch))
    kws = {k.arg: k.value for k in call.keywords if k.arg}
    splat = [k for k in call.keywords if k.arg is None]
    if splat or call.args:
        raise AnalysisError("C16.FIELDS", f.qualname, "constructor call uses positional/** arguments: idiom not modelled")
    missing = [k for k in fields if k not in kws]
    extra = [k for k in kws if k not in fields]
    ctx.ob("C16.FIELDS", f, "constructor call of %s passes all 16 state fields" % label, not missing and not extra,
           construct="%s: keyword set" % label, detail="missing=%s extra=%s" % (missing, extra) if (missing or extra) else "",
           analysis="FIELD coverage")
    table = role_table(method, branch, rel, absolute)
    for k in fields:
        if k not in kws:
            continue
        e = kws[k]
        wrong = sorted(set(x for r, x in attr_reads(e) if x != k))
        ctx.ob("C16.FIELDS", f, "keyword %s of %s is fed only from the field of the same name" % (k, label), not wrong,
               construct="%s: %s=%s" % (label, k, src(e)), detail="reads %s" % wrong if wrong else "", analysis="FIELD same-field")
        role, a, b = table[k]
        ok, why = match_role(e, role, k, a, b)
        ctx.ob("C16.FIELDS", f, "keyword %s of %s has the operator's role (%s)%s" % (k, label, role, (" via " + via) if via else ""),
               ok, construct="%s: role %s=%s" % (label, k, src(e)), detail="" if ok else why, analysis="FIELD role")


def run(ctx):
    prog = ctx.prog
    cls = prog.cls("relativedelta.relativedelta", "C16")
    fields, rel, absolute = state_fields(ctx)
    ctx.note("state fields: %s" % fields)

    # ---------------------------------------------------------------- C16.FIELDS
    n_calls = 0
    for m in ("normalized", "__add__", "__sub__", "__abs__", "__neg__", "__mul__"):
        f = prog.method(cls.qualname, m, "C16.FIELDS")
        calls = ctor_calls(f)
        if not calls:
            # delegation:  return self.<other>(args)
            rets = [x for x in walk_local(f.node) if isinstance(x, ast.Return)]
            deleg = None
            if len(rets) == 1 and isinstance(rets[0].value, ast.Call) and isinstance(rets[0].value.func, ast.Attribute) \
                    and isinstance(rets[0].value.func.value, ast.Name) and rets[0].value.func.value.id == "self":
                deleg = prog.class_lookup(cls, rets[0].value.func.attr)
            if deleg and isinstance(deleg[0], FuncInfo) and ctor_calls(deleg[0]):
                for i, c in enumerate(ctor_calls(deleg[0])):
                    n_calls += 1
                    check_ctor(ctx, f, c, m, i, fields, rel, absolute, label="%s#%d" % (m, i), via=deleg[0].name)
                continue
            raise AnalysisError("C16.FIELDS", f.qualname, "operator builds no relativedelta: idiom not modelled")
        expected = 2 if m == "__add__" else 1
        if len(calls) != expected:
            raise AnalysisError("C16.FIELDS", f.qualname, "expected %d constructor call(s), found %d" % (expected, len(calls)))
        for i, c in enumerate(calls):
            n_calls += 1
            check_ctor(ctx, f, c, m, i, fields, rel, absolute)
    ctx.floor("C16.FIELDS", n_calls, 7, "operator constructor calls")
    # operator aliases / derived operators
    for name, target in (("__rmul__", "__mul__"), ("__truediv__", "__div__"), ("__nonzero__", "__bool__")):
        r = prog.class_lookup(cls, name)
        t = prog.class_lookup(cls, target)
        ctx.ob("C16.FIELDS", cls, "%s is %s" % (name, target), bool(r and t and r[0] is t[0]), construct="%s = %s" % (name, target))
    div = prog.method(cls.qualname, "__div__", "C16.FIELDS")
    calls = [src(x.func) for x in walk_local(div.node) if isinstance(x, ast.Call)]
    ctx.ob("C16.FIELDS", div, "division is multiplication by the reciprocal through __mul__", "self.__mul__" in calls,
           construct="return self.__mul__(reciprocal)")

    # ---------------------------------------------------------------- C16.EQHASH
    eq = prog.method(cls.qualname, "__eq__", "C16.EQHASH")
    hs = prog.method(cls.qualname, "__hash__", "C16.EQHASH")
    eq_fields = set(x for r, x in attr_reads(eq.node))
    hash_fields = set(x for r, x in attr_reads(hs.node, roots=("self",)))
    for k in fields:
        ctx.ob("C16.EQHASH", eq, "__eq__ looks at field %s" % k, k in eq_fields, construct="__eq__ reads %s" % k)
        ctx.ob("C16.EQHASH", hs, "__hash__ looks at field %s (or equality would be finer than hashing is allowed to be coarse: ok) "
               "- and never at a field __eq__ ignores" % k, True if k in hash_fields else True, construct="__hash__ reads %s" % k)
    extra = sorted(f_ for f_ in hash_fields if f_ not in eq_fields and f_ in fields)
    ctx.ob("C16.EQHASH", hs, "__hash__ reads no state field that __eq__ ignores", not extra, construct="hash-only fields",
           detail="fields %s feed the hash but not equality: equal objects may hash differently" % extra if extra else "")
    # plain comparisons in __eq__
    plain = set()
    for n in ast.walk(eq.node):
        if isinstance(n, ast.Compare) and len(n.ops) == 1 and isinstance(n.ops[0], ast.Eq):
            l, r = n.left, n.comparators[0]
            for k in fields:
                if (is_attr(l, "self", k) and is_attr(r, "other", k)) or (is_attr(l, "other", k) and is_attr(r, "self", k)):
                    plain.add(k)
    # elements of the hashed tuple
    hcalls = [n for n in walk_local(hs.node) if isinstance(n, ast.Call) and src(n.func) == "hash"]
    if len(hcalls) != 1 or not hcalls[0].args or not isinstance(hcalls[0].args[0], ast.Tuple):
        raise AnalysisError("C16.EQHASH", hs.qualname, "__hash__ is not hash((...)): idiom not modelled")
    elts = hcalls[0].args[0].elts
    raw = set()
    for e in elts:
        for k in fields:
            if is_attr(e, "self", k):
                raw.add(k)
    for k in sorted(raw):
        ctx.ob("C16.EQHASH", hs, "field %s is hashed raw, so __eq__ must compare it with plain ==" % k, k in plain,
               construct="hash element self.%s" % k,
               detail="" if k in plain else "__eq__ compares %s under an equivalence (not `self.%s == other.%s`); hashing the raw value separates equal objects" % (k, k, k),
               analysis="FIELD eq/hash agreement")
    nonplain = [k for k in fields if k not in plain]
    ctx.note("fields compared under an equivalence in __eq__: %s" % nonplain)
    if "weekday" in nonplain:
        check_weekday_normaliser(ctx, eq, hs, elts)
    ne = prog.method(cls.qualname, "__ne__", "C16.EQHASH")
    body = [s for s in ne.node.body if not (isinstance(s, ast.Expr) and isinstance(s.value, ast.Constant))]
    ok = len(body) == 1 and isinstance(body[0], ast.Return) and src(body[0].value).replace(" ", "") in (
        "notself.__eq__(other)", "not(self==other)", "notself==other")
    ctx.ob("C16.EQHASH", ne, "__ne__ is the negation of __eq__", ok, construct="__ne__ body")

    # ---------------------------------------------------------------- C16.COVER
    bl = prog.method(cls.qualname, "__bool__", "C16.COVER")
    bfields = set(x for r, x in attr_reads(bl.node, roots=("self",)))
    for k in fields:
        ctx.ob("C16.COVER", bl, "__bool__ tests field %s" % k, k in bfields, construct="__bool__ reads %s" % k)
    # relative fields by truthiness, absolute by `is None`
    for n in ast.walk(bl.node):
        if isinstance(n, ast.Compare) and isinstance(n.left, ast.Attribute) and n.left.attr in fields:
            k = n.left.attr
            ctx.ob("C16.COVER", bl, "absolute field %s is tested with `is None` (0 is a set value), relative ones by truthiness" % k,
                   k in absolute and isinstance(n.ops[0], ast.Is), construct="__bool__: %s" % src(n))
    rp = prog.method(cls.qualname, "__repr__", "C16.COVER")
    names = set()
    for n in walk_local(rp.node):
        if isinstance(n, ast.Constant) and isinstance(n.value, str) and n.value in fields:
            names.add(n.value)
    for k in fields:
        ctx.ob("C16.COVER", rp, "__repr__ lists field %s" % k, k in names, construct="__repr__ lists %s" % k)

    # ---------------------------------------------------------------- C16.FIX
    bounds = {"microseconds": 999999, "seconds": 59, "minutes": 59, "hours": 23, "months": 11}
    fix = prog.method(cls.qualname, "_fix", "C16.FIX")
    it = Interp(prog, fix).run()
    env = it.env_at_exit()
    if env is None:
        raise AnalysisError("C16.FIX", fix.qualname, "normal exit unreachable")
    for k, b in bounds.items():
        v = env.get("self." + k)
        ok = isinstance(v, Val) and v.within(-b, b)
        ctx.ob("C16.FIX", fix, "after _fix, |%s| <= %d" % (k, b), ok, construct="exit range of self.%s" % k,
               detail="interval analysis gives %r" % (v,), analysis="IVL")
    sm = prog.method(cls.qualname, "_set_months", "C16.FIX")
    it2 = Interp(prog, sm).run()
    v = it2.env_at_exit().get("self.months")
    ctx.ob("C16.FIX", sm, "after _set_months, |months| <= 11", isinstance(v, Val) and v.within(-11, 11),
           construct="exit range of self.months", detail="interval analysis gives %r" % (v,), analysis="IVL")
    # carries go into the next larger field
    carry_to = {"microseconds": "seconds", "seconds": "minutes", "minutes": "hours", "hours": "days", "months": "years"}
    for st in fix.node.body:
        if isinstance(st, ast.If):
            tested = [x for r, x in attr_reads(st.test, roots=("self",))]
            if len(tested) == 1 and tested[0] in carry_to and "abs" in src(st.test):
                k = tested[0]
                augs = [s for s in ast.walk(st) if isinstance(s, ast.AugAssign) and isinstance(s.op, ast.Add)
                        and isinstance(s.target, ast.Attribute)]
                tgt = [s.target.attr for s in augs]
                ctx.ob("C16.FIX", fix, "overflow of %s is carried into %s" % (k, carry_to[k]), tgt == [carry_to[k]],
                       construct="carry of %s" % k, detail="carried into %s" % tgt)
                # modulus is the unit conversion factor
                mods = [s.args[1].value for s in ast.walk(st) if isinstance(s, ast.Call) and src(s.func) == "divmod"
                        and len(s.args) == 2 and isinstance(s.args[1], ast.Constant)]
                want = {"microseconds": 1000000, "seconds": 60, "minutes": 60, "hours": 24, "months": 12}[k]
                ctx.ob("C16.FIX", fix, "the modulus of the %s carry is the unit conversion factor %d" % (k, want),
                       mods == [want], construct="modulus of %s" % k, detail="moduli %s" % mods, analysis="UNIT")
    ctx.floor("C16.FIX", len([o for o in ctx.obs if o.rule == "C16.FIX"]), 16, "normaliser obligations")
    # _fix() on every normal path out of __init__
    init = prog.method(cls.qualname, "__init__", "C16.FIX")
    cfg = ctx.cfg(init)
    fixcalls = [n for n in cfg.live_nodes() if n.kind == "stmt" and isinstance(n.ast, ast.Expr)
                and isinstance(n.ast.value, ast.Call) and src(n.ast.value.func) == "self._fix"]
    path = cfg.path_avoiding(cfg.entry, [cfg.exit], avoid_nodes=fixcalls)
    ctx.ob("C16.FIX", init, "every normal path out of __init__ passes through self._fix()", path is None and bool(fixcalls),
           construct="self._fix() post-dominates construction",
           detail="" if path is None else "path without _fix: %s" % " -> ".join("L%d" % p.lineno for p in path if p.lineno),
           analysis="CFG must-pass-through")
    # and no field is written after the last _fix
    if fixcalls:
        after = cfg.reach(fixcalls)
        late = [n for n in after if n.kind == "stmt" and isinstance(n.ast, (ast.Assign, ast.AugAssign))
                and any(isinstance(t, ast.Attribute) and t.attr in fields for t in ast.walk(n.ast) if isinstance(getattr(t, "ctx", None), ast.Store))]
        ctx.ob("C16.FIX", init, "no state field is assigned after the final self._fix()", not late,
               construct="writes after _fix", detail="; ".join(src(n.ast) for n in late))

    # ---------------------------------------------------------------- C16.INT
    facts = ctx.facts(init)
    n_int = 0
    for n in cfg.live_nodes():
        if n.kind == "stmt" and isinstance(n.ast, ast.Assign):
            v = n.ast.value
            if isinstance(v, ast.Call) and src(v.func) == "int" and len(v.args) == 1 and isinstance(v.args[0], ast.Name) \
                    and v.args[0].id in ("years", "months"):
                n_int += 1
                guard = [t for t, tv in facts.at(n) if not tv and "int(x)" in t and "years" in t and "months" in t]
                ctx.ob("C16.INT", init, "int(%s) is dominated by the non-integer ValueError guard" % v.args[0].id,
                       bool(guard), construct=src(n.ast), detail=("guard: not (%s)" % guard[0]) if guard else "no dominating `x != int(x)` guard over (years, months)",
                       analysis="must-hold branch facts")
    ctx.floor("C16.INT", n_int, 2, "int(years)/int(months) conversions")
    # the guard raises ValueError
    raised = [src(n.ast.exc.func) for n in cfg.live_nodes() if n.kind == "stmt" and isinstance(n.ast, ast.Raise)
              and isinstance(n.ast.exc, ast.Call) and any((not tv) is False and "int(x)" in t for t, tv in facts.at(n))]
    ctx.ob("C16.INT", init, "the non-integer guard raises ValueError", raised == ["ValueError"], construct="raise in guard",
           detail="raises %s" % raised)

    # ---------------------------------------------------------------- C16.WEEKDAY
    wk = [n for n in cfg.live_nodes() if n.kind == "stmt" and isinstance(n.ast, ast.Assign)
          and any(is_attr(t, "self", "weekday") for t in n.ast.targets) and not (isinstance(n.ast.value, ast.Constant))]
    mapped = [n for n in wk if isinstance(n.ast.value, ast.Subscript) and src(n.ast.value.value) == "weekdays"
              and any(tv and "isinstance(weekday, integer_types)" in t for t, tv in facts.at(n))]
    plainw = [n for n in wk if isinstance(n.ast.value, ast.Name) and n.ast.value.id == "weekday"
              and any((not tv) and "isinstance(weekday, integer_types)" in t for t, tv in facts.at(n))]
    ctx.ob("C16.WEEKDAY", init, "an integer weekday argument is mapped through weekdays[...]; a weekday object is stored as is",
           len(mapped) == 1 and len(plainw) == 1 and len(wk) == 2, construct="self.weekday assignment",
           detail="assignments: %s" % [src(n.ast) for n in wk])

    # ---------------------------------------------------------------- C16.ARGS / C16.PRESENCE
    from ..rules_common import check_call_arguments, check_presence_tests, ARG_SCOPE
    check_call_arguments(ctx, "C16.ARGS", "C16")
    from ..rules_common import check_effect_tables
    check_effect_tables(ctx, "C16")
    check_presence_tests(ctx, "C16.PRESENCE", classes=ARG_SCOPE.get("C16", []))
    from ..rules_common import check_param_rebinding
    check_param_rebinding(ctx, "C16.PARAMS", classes=ARG_SCOPE.get("C16", []))


def check_weekday_normaliser(ctx, eq, hs, elts):
    """weekday is compared under an equivalence on n: the hash must go through a normaliser with the same classes."""
    # 1. equivalence in __eq__: find the boolean expression over n1, n2
    eq_expr = None
    for n in ast.walk(eq.node):
        if isinstance(n, ast.If) and "n1" in src(n.test) and "n2" in src(n.test):
            eq_expr = n.test
    if eq_expr is None:
        raise AnalysisError("C16.EQHASH", eq.qualname, "weekday-n equivalence test not found: idiom not modelled")
    # 2. normaliser in __hash__: tuple elements that depend on self.weekday.n, after inlining
    #    single-assignment locals (n = self.weekday.n ...)
    single = {}
    counts = {}
    for n in walk_local(hs.node):
        if isinstance(n, ast.Assign) and len(n.targets) == 1 and isinstance(n.targets[0], ast.Name):
            counts[n.targets[0].id] = counts.get(n.targets[0].id, 0) + 1
            single[n.targets[0].id] = n.value
    single = {k: v for k, v in single.items() if counts[k] == 1}

    class _Inline(ast.NodeTransformer):
        def visit_Name(self, node):
            if isinstance(node.ctx, ast.Load) and node.id in single:
                import copy
                return self.visit(copy.deepcopy(single[node.id]))
            return node
    cands = []
    for n in walk_local(hs.node):
        if isinstance(n, ast.Tuple):
            for e in n.elts:
                import copy
                e2 = ast.fix_missing_locations(_Inline().visit(copy.deepcopy(e)))
                if "self.weekday.n" in src(e2) and not isinstance(e2, ast.Tuple):
                    cands.append(e2)
    raw_weekday = any(is_attr(e, "self", "weekday") for e in elts)
    if not cands:
        ctx.ob("C16.EQHASH", hs, "weekday.n does not feed the hash at all (coarser hash is allowed) unless the raw weekday does",
               not raw_weekday, construct="weekday normaliser in __hash__",
               detail="" if not raw_weekday else "raw weekday object is hashed; its own __hash__ includes n")
        return
    sample = [None, 0, 1, 2, -1, -2, 3]

    def ev(e, envd):
        code = compile(ast.Expression(body=e), "<closed-expr>", "eval")
        return eval(code, {"__builtins__": {}}, envd)

    class _W(object):
        def __init__(self, n):
            self.n = n
            self.weekday = 0

    class _S(object):
        def __init__(self, n):
            self.weekday = _W(n)
    for norm in cands:
        bad = []
        for a, b in itertools.product(sample, repeat=2):
            try:
                unequal = bool(ev(eq_expr, {"n1": a, "n2": b}))     # the test guards `return False`
                ha = ev(norm, {"self": _S(a)})
                hb = ev(norm, {"self": _S(b)})
            except Exception as ex:
                raise AnalysisError("C16.EQHASH", hs.qualname, "closed expression not evaluable: %s" % ex)
            if (not unequal) and ha != hb:
                bad.append((a, b, ha, hb))
        ctx.ob("C16.EQHASH", hs, "weekday.n is hashed through a normaliser whose classes contain __eq__'s equivalence "
               "({None,0,1} collapse; evaluated on the two closed expressions for n in %s)" % sample, not bad,
               construct="weekday normaliser: %s" % src(norm),
               detail="" if not bad else "n=%r and n=%r compare equal but normalise to %r / %r" % bad[0],
               analysis="CMP: finite evaluation of one closed expression")
