"""C03 - date + relativedelta follows the documented replace/shift/clip/weekday order."""
import ast

from ..model import src, walk_local, AnalysisError, FuncInfo
from ..cfg import ReachingDefs
from ..fields import attr_reads, is_attr
from ..ivl import Interp, Val, TOP
from ..rules_lock import stmt_text

CLAIM = ("static analysis (reaching definitions, interval analysis, field-coverage comparisons and constant "
         "propagation over the finite weekday table): necessary conditions of C03 - the clip, leap-day test and "
         "replacement all see the post-shift year/month, the month stays in 1..12, promotion is driven by exactly "
         "the eight time fields, reverse operators delegate correctly, and the weekday jump equals its "
         "specification for every (weekday, target, n in -5..5); results for all operands are not decided")
TECHNIQUE = "reaching-definitions agreement between sinks, interval abstract interpretation, FIELD set comparison, constant propagation over a finite input partition (ast only)"
EXPLANATION = (
    "C03.ORDER: in relativedelta.__add__ the names year/month reaching calendar.monthrange, calendar.isleap and the "
    "replacement dict have identical reaching-definition sets (so the clip and the leap test use the shifted "
    "month/year), the clipped day feeds the replacement, the timedelta is added to the replaced value and the "
    "weekday jump is the last write to the result. C03.MONTH: interval analysis with other.month in [1,12] and "
    "|months| <= 12 proves month in [1,12] at monthrange. C03.PROMOTE: _has_time is computed from exactly hours, "
    "minutes, seconds, microseconds (truthiness) and hour, minute, second, microsecond (is not None), and "
    "date->datetime promotion is guarded by it. C03.OPS: __radd__ returns __add__(other); __rsub__ returns "
    "(-self) added to other. C03.TIME: timedelta keywords are fed by the same-named fields; the four absolute "
    "time fields are copied into the replacement under their own names. C03.YDAY: the year-day table is the "
    "cumulative common-year month lengths. C03.WEEKDAY: the jump added for the weekday is evaluated by constant "
    "propagation through __add__ for all 7x7x10 combinations of (result weekday, target weekday, n in -5..5 "
    "without 0) and compared with 'nth such weekday on or after / on or before'.")
ASSUMPTIONS = [
    "datetime.replace / timedelta addition behave as documented (stdlib trusted)",
    "leapdays/yearday arithmetic and the result for all operands are NOT decided (e.g. yearday=366 in leap years)",
]


def find_call_nodes(cfg, pred):
    out = []
    for n in cfg.live_nodes():
        if n.kind in ("stmt", "branch") and n.ast is not None and not isinstance(n.ast, (ast.FunctionDef, ast.ClassDef)):
            for x in ast.walk(n.ast):
                if isinstance(x, ast.Call) and pred(x):
                    out.append((n, x))
    return out


def run(ctx):
    prog = ctx.prog
    cls = prog.cls("relativedelta.relativedelta", "C03")
    add = prog.method(cls.qualname, "__add__", "C03.ORDER")
    cfg = ctx.cfg(add)
    rd = ReachingDefs(cfg, params=add.params)

    # ------------------------------------------------------------------ C03.ORDER
    mr = find_call_nodes(cfg, lambda c: src(c.func).endswith("monthrange"))
    il = find_call_nodes(cfg, lambda c: src(c.func).endswith("isleap"))
    repl_nodes = [n for n in cfg.live_nodes() if n.kind == "stmt" and isinstance(n.ast, ast.Assign)
                  and isinstance(n.ast.value, ast.Dict) and any(isinstance(k, ast.Constant) and k.value == "year" for k in n.ast.value.keys)]
    if len(mr) != 1 or len(il) != 1 or len(repl_nodes) != 1:
        raise AnalysisError("C03.ORDER", add.qualname, "expected one monthrange, one isleap and one replacement dict; found %d/%d/%d"
                            % (len(mr), len(il), len(repl_nodes)))
    (mr_n, mr_c), (il_n, il_c), repl_n = mr[0], il[0], repl_nodes[0]
    d = dict((k.value, v) for k, v in zip(repl_n.ast.value.keys, repl_n.ast.value.values) if isinstance(k, ast.Constant))
    sinks = [("monthrange", mr_n, mr_c.args), ("isleap", il_n, il_c.args), ("replace-dict", repl_n, [d.get("year"), d.get("month")])]
    for pos, name in ((0, "year"), (1, "month")):
        ref = None
        for label, n, args in sinks:
            if label == "isleap" and name == "month":
                continue
            e = args[pos] if len(args) > pos else None
            if e is None:
                ctx.ob("C03.ORDER", add, "%s is passed to %s" % (name, label), False, construct="%s at %s" % (name, label))
                continue
            sig = (src(e), tuple(sorted((x.id, tuple(sorted(rd.at(n, x.id)))) for x in ast.walk(e) if isinstance(x, ast.Name))))
            if ref is None:
                ref = (label, sig, n)
            same = sig == ref[1]
            ctx.ob("C03.ORDER", add, "the %s passed to %s is the same value (same expression, same reaching definitions) as at %s"
                   % (name, label, ref[0]), same, construct="%s at %s" % (name, label),
                   detail="" if same else "%s sees `%s` with defs %s; %s sees `%s` with defs %s" % (
                       label, sig[0], [rd.describe(d) for _, d in sig[1]], ref[0], ref[1][0], [rd.describe(d) for _, d in ref[1][1]]),
                   analysis="reaching definitions")
    # the shift definitions reach the sinks: `year` depends on self.years, `month` on self.months
    ydefs = rd.at(mr_n, "year")
    mdefs = rd.at(mr_n, "month")

    def depends(node, name, text, seen=None):
        """Does the value of `name` at `node` depend (transitively, through reaching definitions) on `text`?"""
        seen = seen if seen is not None else set()
        for i in rd.at(node, name):
            if not i or (i, name) in seen:
                continue
            seen.add((i, name))
            dn = cfg.nodes[i]
            if dn.ast is None:
                continue
            if text in src(dn.ast):
                return True
            for x in ast.walk(dn.ast):
                if isinstance(x, ast.Name) and isinstance(x.ctx, ast.Load) and depends(dn, x.id, text, seen):
                    return True
            if isinstance(dn.ast, ast.AugAssign) and depends(dn, name, text, seen):
                return True
        return False
    ctx.ob("C03.ORDER", add, "the year reaching the clip depends on the relative years shift (self.years)",
           depends(mr_n, "year", "self.years"), construct="year defs at monthrange", detail=str(rd.describe(ydefs)),
           analysis="transitive reaching definitions")
    ctx.ob("C03.ORDER", add, "the month reaching the clip depends on the relative months shift (self.months)",
           depends(mr_n, "month", "self.months"), construct="month defs at monthrange", detail=str(rd.describe(mdefs)),
           analysis="transitive reaching definitions")
    ctx.ob("C03.ORDER", add, "the year reaching the clip depends on the month carry (hence on self.months)",
           depends(mr_n, "year", "self.months") or any(
               "self.months" in t for i in ydefs if i for t, tv in ctx.facts(add).at(cfg.nodes[i])),
           construct="year carry at monthrange", detail=str(rd.describe(ydefs)), analysis="transitive reaching definitions + control dependence")
    # day clip feeds the replacement
    day_e = d.get("day")
    day_defs = rd.at(repl_n, "day") if isinstance(day_e, ast.Name) else frozenset()
    ok = isinstance(day_e, ast.Name) and len(day_defs) == 1 and "min(" in src(cfg.nodes[next(iter(day_defs))].ast) \
        and "monthrange" in src(cfg.nodes[next(iter(day_defs))].ast)
    ctx.ob("C03.ORDER", add, "the replacement day is min(last day of the target month, requested day)", ok,
           construct="day in replacement dict", detail=str(rd.describe(day_defs)))
    if ok:
        dn = cfg.nodes[next(iter(day_defs))].ast.value
        args = [src(a) for a in dn.args]
        ctx.ob("C03.ORDER", add, "the requested day is the absolute day if set, else the operand's day",
               any(a.replace(" ", "") == "self.dayorother.day" for a in args), construct="clip operands: %s" % args)
    # timedelta added to the replaced value, weekday jump is last write to the result
    rets = [n for n in cfg.live_nodes() if n.kind == "stmt" and isinstance(n.ast, ast.Return) and isinstance(n.ast.value, ast.Name)]
    if not rets:
        raise AnalysisError("C03.ORDER", add.qualname, "no `return <name>` for the date path")
    rname = rets[-1].ast.value.id
    writes = [n for n in cfg.live_nodes() if n.kind == "stmt" and isinstance(n.ast, (ast.Assign, ast.AugAssign))
              and rname in [x.id for t in (n.ast.targets if isinstance(n.ast, ast.Assign) else [n.ast.target]) for x in ast.walk(t) if isinstance(x, ast.Name)]]
    first = [n for n in writes if isinstance(n.ast, ast.Assign)]
    ok = len(first) == 1 and "replace(**repl)" in src(first[0].ast.value).replace(" ", "") and "timedelta(" in src(first[0].ast.value) \
        and isinstance(first[0].ast.value, ast.BinOp) and isinstance(first[0].ast.value.op, ast.Add)
    ctx.ob("C03.ORDER", add, "the exact duration is added to the replaced (shifted and clipped) value", ok,
           construct="%s = other.replace(**repl) + timedelta(...)" % rname, detail="" if ok else str([src(n.ast) for n in first]))
    jumps = [n for n in writes if isinstance(n.ast, ast.AugAssign)]
    ok = len(jumps) == 1 and any(tv and t == "self.weekday" for t, tv in ctx.facts(add).at(jumps[0])) and \
        not [w for w in cfg.reach(jumps) if w in writes]
    ctx.ob("C03.ORDER", add, "the weekday jump is applied to that sum, only when a weekday is set, and is the last write to the result",
           ok, construct="%s += timedelta(days=jumpdays)" % rname, detail="" if ok else str([src(n.ast) for n in jumps]))

    # ------------------------------------------------------------------ C03.MONTH
    it = Interp(prog, add, seeds={"other.month": Val(1, 12), "self.month": Val(1, 12), "other.year": Val(1, 9999)}).run()
    v = it.value_at(mr_n, mr_c.args[1]) if len(mr_c.args) > 1 else None
    ctx.ob("C03.MONTH", add, "month passed to monthrange lies in [1, 12] (other.month in [1,12], |months| <= 12 asserted)",
           isinstance(v, Val) and v.within(1, 12), construct="calendar.monthrange(year, month)", detail="interval analysis gives %r" % (v,),
           analysis="IVL")
    # the year moves by exactly +-1 on the carrying branches
    carries = []
    for n in cfg.live_nodes():
        if n.kind == "stmt" and isinstance(n.ast, ast.AugAssign) and isinstance(n.ast.target, ast.Name) \
                and n.ast.target.id == "year" and isinstance(n.ast.value, ast.Constant):
            facts = [t for t, tv in ctx.facts(add).at(n) if tv]
            sign = 1 if isinstance(n.ast.op, ast.Add) else -1
            up = any(t.replace(" ", "") == "month>12" for t in facts)
            down = any(t.replace(" ", "") == "month<1" for t in facts)
            carries.append((sign, n.ast.value.value, up, down))
    if carries:
        ok = sorted(carries) == [(-1, 1, False, True), (1, 1, True, False)]
        ctx.ob("C03.MONTH", add, "month overflow carries exactly +1 year, underflow exactly -1 year", ok,
               construct="year carry on month wrap", detail=str(carries))
    else:
        ctx.note("C03.MONTH: no `year +=/-= const` carry idiom present; carry direction not checked")

    # ------------------------------------------------------------------ C03.CARRY
    from ..rules_common import check_month_carry
    from ..ivl import Val as _V

    def seeds_for(m, k):
        return {"other.month": _V(m, m), "self.month": _V(0, 0), "self.year": _V(0, 0), "other.year": _V(0, 0, "Y"), "self.years": _V(0, 0), "self.months": _V(k, k), "self._has_time": _V(0, 0)}
    check_month_carry(ctx, "C03.CARRY", add, add, lambda c: src(c.func).endswith("monthrange") and len(c.args) == 2, seeds_for,
                      range(1, 13), range(-12, 13), "a months shift moves the calendar month by exactly that many months: month = ((m-1+k) mod 12)+1 and the "
                      "year carries floor((m-1+k)/12), for every start month and every shift in -12..12")

    # ------------------------------------------------------------------ C03.PROMOTE
    fix = prog.method(cls.qualname, "_fix", "C03.PROMOTE")
    test = None
    for st in ast.walk(fix.node):
        if isinstance(st, ast.If) and any(isinstance(x, ast.Attribute) and x.attr == "_has_time" and isinstance(x.ctx, ast.Store)
                                          for s in st.body for x in ast.walk(s)):
            test = st
    if test is None:
        raise AnalysisError("C03.PROMOTE", fix.qualname, "_has_time computation not found")
    truthy, notnone = set(), set()

    def collect(e):
        if isinstance(e, ast.BoolOp) and isinstance(e.op, ast.Or):
            for v in e.values:
                collect(v)
        elif isinstance(e, ast.Attribute) and isinstance(e.value, ast.Name) and e.value.id == "self":
            truthy.add(e.attr)
        elif isinstance(e, ast.Compare) and len(e.ops) == 1 and isinstance(e.ops[0], ast.IsNot) and \
                isinstance(e.left, ast.Attribute) and isinstance(e.comparators[0], ast.Constant) and e.comparators[0].value is None:
            notnone.add(e.left.attr)
        else:
            truthy.add("?" + src(e))
    collect(test.test)
    ctx.ob("C03.PROMOTE", fix, "_has_time is true iff one of hours/minutes/seconds/microseconds is non-zero ...",
           truthy == {"hours", "minutes", "seconds", "microseconds"}, construct="_has_time relative operands",
           detail="tested by truthiness: %s" % sorted(truthy))
    ctx.ob("C03.PROMOTE", fix, "... or one of hour/minute/second/microsecond is set (is not None)",
           notnone == {"hour", "minute", "second", "microsecond"}, construct="_has_time absolute operands",
           detail="tested with `is not None`: %s" % sorted(notnone))
    fcfg = ctx.cfg(fix)
    tnodes = [n for n in fcfg.live_nodes() if n.kind == "branch" and n.ast is test.test]
    late = []
    if tnodes:
        for n in fcfg.reach(tnodes):
            if n.kind == "stmt" and isinstance(n.ast, (ast.Assign, ast.AugAssign)):
                for t in ast.walk(n.ast.targets[0] if isinstance(n.ast, ast.Assign) else n.ast.target):
                    if isinstance(t, ast.Attribute) and t.attr in ("hours", "minutes", "seconds", "microseconds") and isinstance(t.ctx, ast.Store):
                        late.append(stmt_text(n))
    ctx.ob("C03.PROMOTE", fix, "_has_time is computed from the NORMALISED fields: no time field is written after the test (24 hours that carried into a day leave no time)",
           bool(tnodes) and not late, construct="_has_time after the carries", detail="; ".join(late), analysis="CFG reachability (order of effects)")
    sets = [src(s.value) for s in test.body if isinstance(s, ast.Assign)] + [src(s.value) for s in test.orelse if isinstance(s, ast.Assign)]
    ctx.ob("C03.PROMOTE", fix, "_has_time is 1 on the true branch and 0 otherwise", sets == ["1", "0"], construct="_has_time values %s" % sets)
    prom = [n for n in cfg.live_nodes() if n.kind == "stmt" and isinstance(n.ast, ast.Assign) and "fromordinal" in src(n.ast.value)]
    ok = len(prom) == 1 and any(tv and t == "self._has_time" for t, tv in ctx.facts(add).at(prom[0])) \
        and any((not tv) and "isinstance(other, datetime.datetime)" in t for t, tv in ctx.facts(add).at(prom[0])) \
        and cfg.dominates([n for n in cfg.live_nodes() if n.kind == "branch" and "_has_time" in src(n.ast)], repl_n)
    ctx.ob("C03.PROMOTE", add, "a date operand is promoted to datetime exactly when _has_time is set, before the replacement",
           ok, construct="promotion of date operands", detail=str([src(n.ast) for n in prom]))

    # ------------------------------------------------------------------ C03.OPS
    radd = prog.method(cls.qualname, "__radd__", "C03.OPS")
    rsub = prog.method(cls.qualname, "__rsub__", "C03.OPS")

    def single_return(f):
        body = [s for s in f.node.body if not (isinstance(s, ast.Expr) and isinstance(s.value, ast.Constant))]
        return src(body[0].value).replace(" ", "") if len(body) == 1 and isinstance(body[0], ast.Return) else None
    ctx.ob("C03.OPS", radd, "addition is independent of operand order: __radd__ returns self.__add__(other)",
           single_return(radd) in ("self.__add__(other)", "self+other"), construct="__radd__ body", detail=str(single_return(radd)))
    ctx.ob("C03.OPS", rsub, "subtracting a relativedelta adds its negation: __rsub__ returns (-self).__radd__(other)",
           single_return(rsub) in ("self.__neg__().__radd__(other)", "(-self).__radd__(other)", "other+-self", "-self+other",
                                   "self.__neg__().__add__(other)", "(-self).__add__(other)", "other+self.__neg__()"),
           construct="__rsub__ body", detail=str(single_return(rsub)))

    # ------------------------------------------------------------------ C03.TIME
    td = find_call_nodes(cfg, lambda c: src(c.func).endswith("timedelta") and len(c.keywords) >= 4)
    if len(td) != 1:
        raise AnalysisError("C03.TIME", add.qualname, "expected one multi-keyword timedelta call, found %d" % len(td))
    kws = {k.arg: k.value for k in td[0][1].keywords}
    for k in ("days", "hours", "minutes", "seconds", "microseconds"):
        e = kws.get(k)
        if k == "days":
            ok = isinstance(e, ast.Name) and e.id == "days"
        else:
            ok = e is not None and is_attr(e, "self", k)
        ctx.ob("C03.TIME", add, "timedelta keyword %s is fed by the field of the same name" % k, ok,
               construct="timedelta(%s=%s)" % (k, src(e)), analysis="FIELD same-field")
    ddefs = rd.at(td[0][0], "days")
    ok = all(i and ("self.days" in src(cfg.nodes[i].ast) or "self.leapdays" in src(cfg.nodes[i].ast)) for i in ddefs) and bool(ddefs)
    ctx.ob("C03.TIME", add, "the local `days` is self.days plus leapdays (only after February of a leap year)", ok,
           construct="defs of days", detail=str(rd.describe(ddefs)))
    lp = [n for n in cfg.live_nodes() if n.kind == "stmt" and isinstance(n.ast, ast.AugAssign) and "self.leapdays" in src(n.ast.value)]
    ok = len(lp) == 1 and any(tv and t.replace(" ", "") == "month>2" for t, tv in ctx.facts(add).at(lp[0])) and \
        any(tv and "isleap(year)" in t for t, tv in ctx.facts(add).at(lp[0]))
    ctx.ob("C03.TIME", add, "leapdays are added only when the target month is after February and the target year is a leap year",
           ok, construct="days += self.leapdays", detail=str(sorted(t for t, tv in ctx.facts(add).at(lp[0]) if tv)) if lp else "not found")
    # absolute time fields copied under their own names
    loops = [n for n in cfg.live_nodes() if n.kind == "for" and isinstance(n.ast.iter, (ast.List, ast.Tuple))]
    copied = None
    for n in loops:
        vals = [e.value for e in n.ast.iter.elts if isinstance(e, ast.Constant)]
        body = src(n.ast.body)
        if "getattr(self, %s)" % src(n.ast.target) in body and "repl[%s]" % src(n.ast.target) in body and "is not None" in body:
            copied = vals
    ctx.ob("C03.TIME", add, "hour/minute/second/microsecond replace the operand's fields under their own names when set",
           copied is not None and sorted(copied) == ["hour", "microsecond", "minute", "second"], construct="absolute time copy loop",
           detail=str(copied))

    # ------------------------------------------------------------------ C03.YDAY
    init = prog.method(cls.qualname, "__init__", "C03.YDAY")
    tbls = []
    for n in walk_local(init.node):
        if isinstance(n, (ast.List, ast.Tuple)) and len(n.elts) == 12 and all(isinstance(e, ast.Constant) and isinstance(e.value, int) for e in n.elts):
            tbls.append([e.value for e in n.elts])
    if not tbls:
        raise AnalysisError("C03.YDAY", init.qualname, "12-entry year-day table not found")
    import calendar
    want, acc = [], 0
    for m in range(1, 13):
        acc += calendar.monthrange(2001, m)[1]
        want.append(acc)
    want[-1] = 366
    ctx.ob("C03.YDAY", init, "the year-day table is the cumulative common-year month lengths (last entry 366)", all(t == want for t in tbls),
           construct="ydayidx", detail="" if all(t == want for t in tbls) else "found %s expected %s" % (tbls, want), analysis="CONST vs stdlib calendar")

    # ------------------------------------------------------------------ C03.WEEKDAY
    check_weekday_table(ctx, add, rname)

    # ---------------------------------------------------------------- C03.ARGS
    from ..rules_common import check_call_arguments
    check_call_arguments(ctx, "C03.ARGS", "C03")
    from ..rules_common import check_effect_tables
    check_effect_tables(ctx, "C03")
    from ..rules_common import check_region_table, statements_mentioning, ifs_testing
    check_region_table(ctx, "C03.TABLE", init, statements_mentioning({"yday", "yearday", "nlyearday"}),
                       "yearday / nlyearday become month + day through the cumulative month-end table; yearday past the 59th day carries leapdays = -1",
                       "__init__: yearday conversion")
    check_region_table(ctx, "C03.TABLE", init, ifs_testing({"weekday", "integer_types"}),
                       "an integer weekday argument (0 = Monday included) is replaced by the weekday object of that index, anything else is stored as given",
                       "__init__: weekday argument")
    from ..rules_common import check_presence_tests, ARG_SCOPE
    check_presence_tests(ctx, "C03.PRESENCE", classes=ARG_SCOPE.get("C03", []))
    from ..rules_common import check_param_rebinding
    check_param_rebinding(ctx, "C03.PARAMS", classes=ARG_SCOPE.get("C03", []))


def check_weekday_table(ctx, add, rname):
    prog = ctx.prog
    cfg0 = ctx.cfg(add)
    bad = []
    n_eval = 0
    sink_src = None
    for rw in range(7):
        for w in range(7):
            for nth in (-5, -4, -3, -2, -1, 0, 1, 2, 3, 4, 5):
                # n = 0 stands for "absent" (falsy): `self.weekday.n or 1`
                def wk(interp, call, args, env, _rw=rw):
                    return Val(_rw, _rw)
                it = Interp(prog, add, seeds={"self.weekday.weekday": Val(w, w), "self.weekday.n": Val(nth, nth)},
                            known_calls={rname + ".weekday": wk})
                it.run()
                sinks = [n for n in it.cfg.live_nodes() if n.kind == "stmt" and isinstance(n.ast, ast.AugAssign)
                         and isinstance(n.ast.target, ast.Name) and n.ast.target.id == rname]
                if len(sinks) != 1:
                    raise AnalysisError("C03.WEEKDAY", add.qualname, "weekday jump sink `%s += timedelta(days=...)` not found" % rname)
                call = sinks[0].ast.value
                kw = [k.value for k in getattr(call, "keywords", []) if k.arg == "days"]
                if not kw:
                    raise AnalysisError("C03.WEEKDAY", add.qualname, "jump is not timedelta(days=...)")
                sink_src = src(sinks[0].ast)
                v = it.value_at(sinks[0], kw[0])
                n_eval += 1
                eff = nth or 1
                if eff > 0:
                    want = (eff - 1) * 7 + ((w - rw) % 7)
                else:
                    want = -((-eff - 1) * 7 + ((rw - w) % 7))
                if not (isinstance(v, Val) and v.lo == v.hi == want):
                    bad.append((rw, w, nth, v, want))
    ctx.stat("weekday_table_entries", n_eval)
    ctx.ob("C03.WEEKDAY", add, "the weekday jump equals 'nth such weekday on or after (n>0) / on or before (n<0)' for all "
           "7 x 7 x 11 combinations of (result weekday, target weekday, n)", not bad, construct=sink_src or "weekday jump",
           detail="" if not bad else "e.g. result weekday %d, target %d, n=%d: computed %r, specified %d (%d of %d entries differ)" % (
               bad[0] + (len(bad), n_eval)), analysis="constant propagation over a finite partition")
