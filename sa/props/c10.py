"""C10 - rruleset is the ordered set (rrules U rdates) minus (exrules U exdates)."""
import ast

from ..model import src, walk_local, AnalysisError, FuncInfo
from ..lock import has_yield
from ..rules_lock import stmt_text, MUTATORS
from ..rules_common import check_len_published
from ..cfg import ReachingDefs

CLAIM = ("static analysis (who-may-write + decorator coverage, CFG must-pass-through, comparator tables, heap-repair "
         "pairing, reset-field coverage): necessary conditions of C10 - every mutator invalidates the cache, the "
         "invalidation resets every cached attribute and is guarded by the enabledness test used everywhere else, "
         "the merge compares/advances/repairs its heaps consistently and suppresses duplicates; correctness of the "
         "k-way merge for all member multisets is not decided")
TECHNIQUE = "decorator/field coverage set comparison, CFG path queries and must-hold branch facts, comparator tables (ast only)"
EXPLANATION = (
    "C10.INVAL: every rruleset method that adds to _rrule/_rdate/_exrule/_exdate carries @_invalidates_cache (or "
    "calls self._invalidate_cache() on every normal path). C10.WRAP: the decorator's wrapper calls the wrapped "
    "function, then self._invalidate_cache() on every normal path, and returns the wrapped result. C10.RESET: "
    "_invalidate_cache re-initialises every attribute that rrulebase.__init__ establishes (_cache, "
    "_cache_complete, _cache_gen, _len). C10.ENABLED: every test of cache enabledness in the class family is an "
    "identity test `self._cache is (not) None` (an empty list is an enabled cache). C10.CMP: _genitem's four "
    "comparison methods compare self.dt with other.dt using their own operator; the exclusion cursor advances "
    "while exlist[0] < ritem and an item is yielded iff ritem != exlist[0]; the yield is dominated by the "
    "last-yielded test and that variable is redefined from ritem.dt on every path to the back edge. C10.HEAP: "
    "after an exhausted member the heap is repaired (heappop under `genlist[0] is self`, else remove+heapify); "
    "heapreplace(L, x) only under `L and L[0] is x`, directly after advance_iterator(x). C10.STOPITER: StopIteration of a member never escapes _genitem (exception-escape analysis) and the heaps hold only _genitem objects. C10.SORT: date lists "
    "are sorted before being merged. C10.LEN: every generator exit publishes the number of yielded items."
    " C10.STALE: _invalidate_cache gives a generation token (a counter incremented / a fresh object) a new value on every path; in every class with invalidating mutators each store to _len, _cache_complete or _cache_gen outside __init__/_invalidate_cache is dominated by a comparison of a token captured before the generator's first yield with its current value, with no yield between test and store - an iterator overtaken by a mutation publishes nothing.")
ASSUMPTIONS = [
    "heapq functions and list.sort behave as documented",
    "member iterators are themselves strictly increasing (C01)",
    "correctness of the merge for all member multisets is NOT decided",
]

MEMBER_LISTS = {"_rrule", "_rdate", "_exrule", "_exdate"}


def norm_cmp(e):
    """(op_name, left_src, right_src) of a single comparison, through `not`."""
    neg = False
    while isinstance(e, ast.UnaryOp) and isinstance(e.op, ast.Not):
        neg = not neg
        e = e.operand
    if not (isinstance(e, ast.Compare) and len(e.ops) == 1):
        return None
    op = type(e.ops[0]).__name__
    if neg:
        op = {"Lt": "GtE", "LtE": "Gt", "Gt": "LtE", "GtE": "Lt", "Eq": "NotEq", "NotEq": "Eq", "Is": "IsNot", "IsNot": "Is"}.get(op)
        if op is None:
            return None
    return (op, src(e.left), src(e.comparators[0]))


def run(ctx):
    prog = ctx.prog
    rs = prog.cls("rrule.rruleset", "C10")
    base = prog.cls("rrule.rrulebase", "C10")

    # ---------------------------------------------------------------- C10.INVAL
    n_mut = 0
    for name, f in sorted(rs.methods.items()):
        if name == "__init__":
            continue
        adds = []
        for n in walk_local(f.node):
            if isinstance(n, ast.Call) and isinstance(n.func, ast.Attribute) and isinstance(n.func.value, ast.Attribute) \
                    and n.func.value.attr in MEMBER_LISTS and n.func.attr in MUTATORS and n.func.attr not in ("sort", "reverse"):
                adds.append(n)
            if isinstance(n, (ast.Assign, ast.AugAssign)):
                for t in (n.targets if isinstance(n, ast.Assign) else [n.target]):
                    if isinstance(t, ast.Attribute) and t.attr in MEMBER_LISTS:
                        adds.append(n)
        if not adds:
            continue
        n_mut += 1
        decorated = any(d.endswith("_invalidates_cache") for d in f.decorators)
        explicit = False
        if not decorated:
            cfg = ctx.cfg(f)
            inv = [n for n in cfg.live_nodes() if n.kind == "stmt" and "self._invalidate_cache()" in src(n.ast)]
            explicit = bool(inv) and cfg.path_avoiding(cfg.entry, [cfg.exit], avoid_nodes=inv) is None
        ctx.ob("C10.INVAL", f, "a method that changes the member lists invalidates the cache", decorated or explicit,
               construct="mutator %s: %s" % (name, src(adds[0])), detail="" if (decorated or explicit) else "no @_invalidates_cache and no self._invalidate_cache() on every path",
               analysis="who-may-write + decorator coverage")
    ctx.floor("C10.INVAL", n_mut, 4, "rruleset methods that mutate member lists")

    # ---------------------------------------------------------------- C10.WRAP
    outer0 = prog.func("rrule._invalidates_cache", "C10.WRAP")
    inner_defs = [x for x in outer0.node.body if isinstance(x, ast.FunctionDef)]
    if len(inner_defs) != 1:
        raise AnalysisError("C10.WRAP", outer0.qualname, "expected one wrapper function inside the decorator, found %d" % len(inner_defs))
    wname = inner_defs[0].name          # whatever the wrapper is called
    wrap = prog.func("rrule._invalidates_cache." + wname, "C10.WRAP")
    cfg = ctx.cfg(wrap)
    calls_f = [n for n in cfg.live_nodes() if n.kind == "stmt" and isinstance(n.ast, (ast.Assign, ast.Expr, ast.Return))
               and any(isinstance(x, ast.Call) and src(x.func) == "f" for x in ast.walk(n.ast))]
    inv = [n for n in cfg.live_nodes() if n.kind == "stmt" and "self._invalidate_cache()" in src(n.ast)]
    ok = bool(calls_f) and bool(inv) and cfg.path_avoiding(cfg.entry, [cfg.exit], avoid_nodes=inv) is None \
        and all(cfg.dominates(calls_f, i) for i in inv)
    ctx.ob("C10.WRAP", wrap, "the wrapper calls the wrapped mutator and then self._invalidate_cache() on every normal path", ok,
           construct="wrapper body", analysis="CFG must-pass-through")
    rets = [n for n in cfg.live_nodes() if n.kind == "stmt" and isinstance(n.ast, ast.Return)]
    rd = ReachingDefs(cfg, params=wrap.params)
    okr = bool(rets) and all(isinstance(r.ast.value, ast.Name) and all(i and cfg.nodes[i] in calls_f for i in rd.at(r, r.ast.value.id)) for r in rets)
    ctx.ob("C10.WRAP", wrap, "the wrapper returns the wrapped function's result", okr, construct="return of the wrapper's result")
    outer = prog.func("rrule._invalidates_cache", "C10.WRAP")
    ctx.ob("C10.WRAP", outer, "the decorator returns the wrapper", any(isinstance(x, ast.Return) and src(x.value) == wname for x in walk_local(outer.node)),
           construct="return of the wrapper")

    # ---------------------------------------------------------------- C10.RESET
    binit = prog.method(base.qualname, "__init__", "C10.RESET")
    inval = prog.method(base.qualname, "_invalidate_cache", "C10.RESET")
    established = []
    for n in ast.walk(binit.node):
        if isinstance(n, ast.Attribute) and isinstance(n.ctx, ast.Store) and n.attr != "_cache_lock" and n.attr not in established:
            established.append(n.attr)
    icfg = ctx.cfg(inval)
    written = {}
    for n in icfg.live_nodes():
        if n.kind == "stmt" and isinstance(n.ast, (ast.Assign, ast.AugAssign)):
            # (an augmented assignment is how a generation counter moves on: C10.STALE)
            for t in (n.ast.targets if isinstance(n.ast, ast.Assign) else [n.ast.target]):
                if isinstance(t, ast.Attribute) and isinstance(t.value, ast.Name) and t.value.id == "self":
                    written[t.attr] = n
    calls_inval = any(isinstance(x, ast.Call) and src(x.func) == "self._invalidate_cache" for x in walk_local(binit.node))
    want = set(established) | ({"_cache_gen"} if calls_inval or "_cache_gen" in established else set())
    want |= {"_cache", "_cache_complete", "_len"}
    for a in sorted(want):
        n = written.get(a)
        ok = n is not None
        detail = ""
        if ok and a != "_len":
            pass
        if ok and a == "_len":
            # must be reset on every path, not only when caching is enabled
            ok = icfg.path_avoiding(icfg.entry, [icfg.exit], avoid_nodes=[n]) is None
            detail = "" if ok else "self._len is not reset on every path"
        ctx.ob("C10.RESET", inval, "_invalidate_cache re-initialises %s" % a, ok, construct="reset of self.%s" % a,
               detail=detail or ("" if ok else "attribute established by rrulebase.__init__ but never reset: stale after a mutation"),
               analysis="FIELD coverage")
    ctx.floor("C10.RESET", len(want), 4, "attributes to reset")
    vals = {a: src(written[a].ast.value) for a in written}
    ctx.ob("C10.RESET", inval, "reset values: empty cache, not complete, fresh generator, unknown length",
           vals.get("_cache") == "[]" and vals.get("_cache_complete") == "False" and vals.get("_cache_gen") == "self._iter()" and vals.get("_len") == "None",
           construct="reset values", detail=str(vals))

    # ---------------------------------------------------------------- C10.ENABLED
    n_tests = 0
    for c in [base] + prog.subclasses(base):
        for name, f in sorted(c.methods.items()):
            cfg_f = ctx.cfg(f)
            for n in cfg_f.live_nodes():
                if n.kind != "branch":
                    continue
                for x in ast.walk(n.ast):
                    bad = None
                    if isinstance(x, ast.Attribute) and src(x) == "self._cache":
                        # find how it is used inside the test
                        par = None
                        for y in ast.walk(n.ast):
                            for ch in ast.iter_child_nodes(y):
                                if ch is x:
                                    par = y
                        if isinstance(par, ast.Compare) and len(par.ops) == 1 and isinstance(par.ops[0], (ast.Is, ast.IsNot)) \
                                and isinstance(par.comparators[0], ast.Constant) and par.comparators[0].value is None:
                            n_tests += 1
                            ctx.ob("C10.ENABLED", f, "cache enabledness is tested by identity with None", True, construct=src(n.ast))
                        elif par is None or isinstance(par, (ast.BoolOp, ast.UnaryOp)) or par is n.ast:
                            n_tests += 1
                            ctx.ob("C10.ENABLED", f, "cache enabledness is tested by identity with None (an empty list is an enabled cache)",
                                   False, construct=src(n.ast), detail="truthiness test of self._cache: false for an enabled but empty cache; "
                                   "sibling sites test `self._cache is None`", analysis="sibling agreement")
    ctx.floor("C10.ENABLED", n_tests, 2, "tests of self._cache enabledness")

    # ---------------------------------------------------------------- C10.CMP
    gi = prog.cls("rrule.rruleset._genitem", "C10.CMP")
    for meth, op in (("__lt__", "Lt"), ("__gt__", "Gt"), ("__eq__", "Eq"), ("__ne__", "NotEq")):
        f = gi.methods.get(meth)
        if f is None:
            raise AnalysisError("C10.CMP", gi.qualname + "." + meth, "comparison method missing")
        body = [s for s in f.node.body if isinstance(s, ast.Return)]
        c = norm_cmp(body[0].value) if len(body) == 1 else None
        ctx.ob("C10.CMP", f, "%s compares self.dt with other.dt using its own operator" % meth,
               c == (op, "self.dt", "other.dt"), construct="%s: %s" % (meth, src(body[0].value) if body else "?"),
               detail="" if c == (op, "self.dt", "other.dt") else "normalised comparison %s" % (c,), analysis="CMP table")
    it = prog.method(rs.qualname, "_iter", "C10.CMP")
    cfg = ctx.cfg(it)
    facts = ctx.facts(it)
    yields = [n for n in cfg.live_nodes() if has_yield(n)]
    if len(yields) != 1:
        raise AnalysisError("C10.CMP", it.qualname, "expected one yield in rruleset._iter, found %d" % len(yields))
    y = yields[0]
    yfacts = facts.at(y)
    # item yielded iff not excluded
    ok = any((t.replace(" ", "") in ("notexlistorritem!=exlist[0]",) and tv) for t, tv in yfacts)
    ctx.ob("C10.CMP", it, "an item is yielded iff no exclusion cursor stands on it (not exlist or ritem != exlist[0])", ok,
           construct="exclusion test before yield", detail="" if ok else "facts at yield: %s" % sorted(t for t, tv in yfacts if tv), analysis="must-hold branch facts")
    # exclusion cursor advances while strictly smaller
    whiles = [n for n in cfg.live_nodes() if n.kind == "branch" and isinstance(n.loop, ast.While) and "exlist" in src(n.ast)]
    okw = len(whiles) == 1 and src(whiles[0].ast).replace(" ", "") == "exlistandexlist[0]<ritem"
    ctx.ob("C10.CMP", it, "exclusion cursors are advanced while they are strictly before the candidate", okw,
           construct="exclusion advance loop: %s" % (src(whiles[0].ast) if whiles else "?"), analysis="CMP table")
    okd = cfg.dominates(whiles, y) if whiles else False
    ctx.ob("C10.CMP", it, "the exclusion advance loop runs before every yield", okd, construct="exclusion loop dominates yield")
    # duplicate suppression
    dd = [(t, tv) for t, tv in yfacts if "lastdt" in t]
    okdd = any(t.replace(" ", "") == "notlastdtorlastdt!=ritem.dt" and tv for t, tv in dd)
    ctx.ob("C10.CMP", it, "the yield is dominated by a comparison of the candidate with the last handled instant", okdd,
           construct="duplicate suppression test", detail="" if okdd else "facts: %s" % dd, analysis="must-hold branch facts")
    # lastdt redefined from ritem.dt on every path from that test to the back edge
    tests = [n for n in cfg.live_nodes() if n.kind == "branch" and "lastdt" in src(n.ast)]
    sets = [n for n in cfg.live_nodes() if n.kind == "stmt" and isinstance(n.ast, ast.Assign) and src(n.ast).replace(" ", "") == "lastdt=ritem.dt"]
    heads = [n for n in cfg.live_nodes() if n.kind == "branch" and isinstance(n.loop, ast.While) and src(n.ast) == "rlist"]
    okl = bool(tests) and bool(sets) and bool(heads)
    if okl:
        # from the true edge of the dedupe test, every path back to the loop head passes an assignment
        t = tests[0]
        tsucc = [s for s, lab in t.succ if lab == "true"]
        for s0 in tsucc:
            if cfg.path_avoiding(s0, heads, avoid_nodes=sets, include_start=True) is not None and s0 not in sets:
                okl = False
    ctx.ob("C10.CMP", it, "the last-handled instant is updated from the candidate on every path from the test to the loop back edge",
           okl, construct="lastdt = ritem.dt", analysis="CFG must-pass-through")

    # ---------------------------------------------------------------- C10.HEAP
    nx = gi.methods.get("__next__")
    if nx is None:
        raise AnalysisError("C10.HEAP", gi.qualname + ".__next__", "anchor missing")
    ncfg = ctx.cfg(nx)
    nfacts = ctx.facts(nx)
    handlers = [n for n in ncfg.live_nodes() if n.kind == "handler" and n.ast.type is not None and "StopIteration" in src(n.ast.type)]
    if len(handlers) != 1:
        raise AnalysisError("C10.HEAP", nx.qualname, "StopIteration handler not found")
    region = ncfg.reach(handlers)
    pops = [n for n in region if n.kind == "stmt" and "heappop(self.genlist)" in src(n.ast)]
    removes = [n for n in region if n.kind == "stmt" and "self.genlist.remove(self)" in src(n.ast)]
    heapifies = [n for n in region if n.kind == "stmt" and "heapify(self.genlist)" in src(n.ast)]
    okp = all(any(tv and t.replace(" ", "") == "self.genlist[0]isself" for t, tv in nfacts.at(p)) for p in pops)
    okr = all(ncfg.path_avoiding(r, [ncfg.exit], avoid_nodes=heapifies) is None for r in removes)
    some = bool(pops or removes)
    # every path from the handler to the exit removes the member one way or the other
    okall = some and ncfg.path_avoiding(handlers[0], [ncfg.exit], avoid_nodes=pops + removes) is None
    ctx.ob("C10.HEAP", nx, "an exhausted member is always taken out of the heap", okall, construct="StopIteration handler removes self",
           analysis="CFG must-pass-through")
    ctx.ob("C10.HEAP", nx, "heappop is used only when the exhausted member is the root (genlist[0] is self)", okp and True,
           construct="heappop(self.genlist) guard", detail="" if okp else "heappop without the root test", analysis="must-hold branch facts")
    ctx.ob("C10.HEAP", nx, "removing a non-root member is followed by heapify on every path (list.remove breaks the heap shape)",
           okr, construct="self.genlist.remove(self) ; heapify", detail="" if okr else "remove() reaches the exit without heapify: the remaining cursors are no longer a heap",
           analysis="CFG pairing")
    # in _iter: heapreplace only under `L and L[0] is x`, right after advance_iterator(x)
    n_adv = 0
    for a in [n for n in cfg.live_nodes() if n.kind == "stmt" and isinstance(n.ast, ast.Expr) and isinstance(n.ast.value, ast.Call)
              and src(n.ast.value.func) == "advance_iterator" and isinstance(n.ast.value.args[0], ast.Name)]:
        item = a.ast.value.args[0].id
        rd = ReachingDefs(cfg, params=it.params)
        defs = [cfg.nodes[i] for i in rd.at(a, item) if i]
        lists = set()
        for d in defs:
            if isinstance(d.ast, ast.Assign) and isinstance(d.ast.value, ast.Subscript) and src(d.ast.value.slice) == "0":
                lists.add(src(d.ast.value.value))
        if len(lists) != 1:
            continue
        L = next(iter(lists))
        n_adv += 1
        hr = [n for n in cfg.live_nodes() if n.kind == "stmt" and src(n.ast).replace(" ", "") == "heapq.heapreplace(%s,%s)" % (L, item)]
        okh = len(hr) == 1 and any(tv and t.replace(" ", "") == "%s[0]is%s" % (L, item) for t, tv in facts.at(hr[0])) and \
            any(tv and t == L for t, tv in facts.at(hr[0]))
        ctx.ob("C10.HEAP", it, "heapreplace(%s, %s) happens only when %s is non-empty and %s is still its root" % (L, item, L, item), okh,
               construct="heapq.heapreplace(%s, %s) guard" % (L, item),
               detail="" if okh else "facts at heapreplace: %s" % (sorted(t for t, tv in facts.at(hr[0]) if tv) if hr else "no heapreplace found"),
               analysis="must-hold branch facts")
        # directly after the advance: no other read of L[0] before the guard
        if hr:
            guard = [n for n in cfg.live_nodes() if n.kind == "branch" and ("%s[0] is %s" % (L, item)) in src(n.ast)]
            oka = bool(guard) and all(s in guard for s, lab in a.succ if lab == "next")
            ctx.ob("C10.HEAP", it, "the heap root test follows advance_iterator(%s) immediately" % item, oka,
                   construct="advance_iterator(%s) ; if %s and %s[0] is %s" % (item, L, L, item), analysis="CFG successor")
    ctx.floor("C10.HEAP", n_adv, 2, "advance_iterator sites on heap roots")

    # ---------------------------------------------------------------- C10.STOPITER
    from ..exc import Analyzer
    an = Analyzer(prog)
    for mname in ("__next__", "__init__"):
        m = gi.methods[mname]
        esc = [r for r in an.escapes(m) if r.exc == "StopIteration"]
        ctx.ob("C10.STOPITER", m, "exhaustion of a member iterator never escapes _genitem.%s as StopIteration (inside the merge generator it "
               "would end or break the whole set)" % mname, not esc, construct="StopIteration containment in _genitem.%s" % mname,
               detail="; ".join("%s at %s" % (r.construct, r.site) for r in esc), analysis="EXC effect analysis")
    # rlist / exlist hold only _genitem objects: they are filled solely through the _genitem constructor
    for L in ("rlist", "exlist"):
        uses = []
        for x in walk_local(it.node):
            if isinstance(x, ast.Call):
                args = [src(a) for a in x.args]
                if L in args:
                    uses.append(src(x.func))
            if isinstance(x, ast.Call) and isinstance(x.func, ast.Attribute) and src(x.func.value) == L:
                uses.append(L + "." + x.func.attr)
        ok = bool(uses) and set(uses) <= {"self._genitem", "heapq.heapify", "heapq.heapreplace", "heapq.heappop"}
        ctx.ob("C10.STOPITER", it, "%s is filled only by the _genitem constructor and reordered only by heapq, so advance_iterator() on its root "
               "is _genitem.__next__ (which contains StopIteration)" % L, ok, construct="who fills %s" % L, detail=str(sorted(set(uses))), analysis="who-may-write")
    adv = [src(x) for x in walk_local(it.node) if isinstance(x, ast.Call) and src(x.func) == "advance_iterator"]
    ctx.ob("C10.STOPITER", it, "the merge loop advances only heap roots", sorted(adv) == ["advance_iterator(exitem)", "advance_iterator(ritem)"], construct="advance_iterator sites", detail=str(adv))

    # ---------------------------------------------------------------- C10.SORT
    sorts = [n for n in cfg.live_nodes() if n.kind == "stmt" and src(n.ast) in ("self._rdate.sort()", "self._exdate.sort()")]
    iters = {k: [n for n in cfg.live_nodes() if n.kind == "stmt" and ("iter(self.%s)" % k) in src(n.ast)] for k in ("_rdate", "_exdate")}
    for k in ("_rdate", "_exdate"):
        s_ = [n for n in sorts if k in src(n.ast)]
        ok = bool(s_) and bool(iters[k]) and all(cfg.dominates(s_, i) for i in iters[k])
        ctx.ob("C10.SORT", it, "the %s list is sorted before it is merged as one increasing member" % k, ok,
               construct="self.%s.sort() before iter(self.%s)" % (k, k), analysis="CFG dominance")
    hp = [n for n in cfg.live_nodes() if n.kind == "stmt" and "heapq.heapify(" in src(n.ast)]
    ctx.ob("C10.SORT", it, "both cursor lists are heapified before the merge loop", len(hp) == 2 and all(cfg.dominates([h], heads[0]) for h in hp) if heads else False,
           construct="heapify(rlist), heapify(exlist)")

    # ---------------------------------------------------------------- C10.LEN
    check_len_published(ctx, "C10.LEN")

    # ---------------------------------------------------------------- C10.STALE
    # "adding a rule or date after the set has been partially ... iterated is reflected in every later iteration and
    # query": an iterator that was started before the addition and is resumed after it must not publish its (old)
    # length or mark the (new) cache complete.
    from ..rules_common import check_stale_publication
    check_stale_publication(ctx, "C10.STALE")

    # ---------------------------------------------------------------- C10.ARGS
    from ..rules_common import check_call_arguments
    check_call_arguments(ctx, "C10.ARGS", "C10")
    from ..rules_common import check_effect_tables
    check_effect_tables(ctx, "C10")
    from ..rules_common import check_presence_tests, ARG_SCOPE
    check_presence_tests(ctx, "C10.PRESENCE", classes=ARG_SCOPE.get("C10", []))
    from ..rules_common import check_param_rebinding
    check_param_rebinding(ctx, "C10.PARAMS", classes=ARG_SCOPE.get("C10", []))


