"""C12 - recurrence queries agree with the listed sequence."""
import ast

from ..model import src, walk_local, AnalysisError, FuncInfo
from ..cfg import ReachingDefs, expr_guards
from ..rules_lock import stmt_text
from ..rules_common import check_len_published
from .c10 import norm_cmp

CLAIM = ("static analysis (comparator tables keyed by the inclusive flag, dominance of every cache read by the "
         "completeness test, parameter/record coverage for replace()): necessary conditions of C12; value-level "
         "agreement of every query with list(rule) is not decided")
TECHNIQUE = "comparator decision tables from must-hold branch facts, CFG dominance of cache reads, FIELD parameter coverage (ast only)"
EXPLANATION = (
    "C12.CMP: in before/after/xafter/between/__contains__ every ordering comparison between the loop element and a "
    "query argument is collected with the inclusive-flag facts that hold there and the action it guards; the set "
    "must equal the table forced by the documented semantics (before: break on > (inc) / >=; after, xafter: accept "
    "on >= (inc) / >; between: break on >/>= `before`, start on >=/> `after`; __contains__: == then >). Any extra "
    "or altered comparator is a violation. C12.FAST: every read of self._cache in a query is dominated by "
    "`self._cache_complete` being true, the loop source is `self._cache` (complete) or `self`, exhaustion in "
    "__getitem__ becomes IndexError and negative indices/steps go through the full listing. C12.REPLACE: every "
    "parameter of rrule.__init__ is a key of replace()'s literal dict or is recorded in _original_rule; the four "
    "start-derived defaults are recorded as None under the 'nothing supplied' condition and a later record of the "
    "same key is guarded by `key not in self._original_rule`; replace() overlays the record, then the caller's "
    "keywords. C12.COUNT: count() iterates fully when _len is None and returns _len (C12.LEN: published by every "
    "generator exit)."
    ' C12.SLICE: for every islice call of __getitem__, every bound (start/stop/step) and every class of value (absent, 0, negative, positive) either the branch facts at the call exclude the class or the argument, evaluated in a four-point abstract domain, means what the same bound means for a list slice (negative bounds and non-positive steps never reach islice, a zero stop stays zero).')
ASSUMPTIONS = ["elements are totally ordered datetimes", "value-level agreement with list(rule) is NOT decided"]

# (method) -> set of (inc-context, op, argument, outcome of the TRUE edge)
#   outcome: 'ret:prev' returns the last element seen, 'ret:elem' the current element, 'ret:acc' the accumulated list,
#            'ret:True' / 'ret:False'; 'append' = the element is appended and the scan continues
EXPECTED = {
    "before": {("inc", "Gt", "dt", "ret:prev"), ("not-inc", "GtE", "dt", "ret:prev")},
    "after": {("inc", "GtE", "dt", "ret:elem"), ("not-inc", "Gt", "dt", "ret:elem")},
    "between": {("inc", "Gt", "before", "ret:acc"), ("inc", "GtE", "after", "append"),
                ("not-inc", "GtE", "before", "ret:acc"), ("not-inc", "Gt", "after", "append")},
    "__contains__": {("any", "Eq", "item", "ret:True"), ("any", "Gt", "item", "ret:False")},
}
FLIP = {"Lt": "Gt", "LtE": "GtE", "Gt": "Lt", "GtE": "LtE", "Eq": "Eq", "NotEq": "NotEq"}
NEGATE = {"Lt": "GtE", "LtE": "Gt", "Gt": "LtE", "GtE": "Lt", "Eq": "NotEq", "NotEq": "Eq"}


def _roles(f, loopvars):
    """name -> role for names that may be returned by a scan method."""
    roles = {}
    for x in walk_local(f.node):
        if isinstance(x, ast.Call) and isinstance(x.func, ast.Attribute) and x.func.attr == "append" and isinstance(x.func.value, ast.Name) \
                and x.args and isinstance(x.args[0], ast.Name) and x.args[0].id in loopvars:
            roles[x.func.value.id] = "acc"
        if isinstance(x, ast.Assign) and isinstance(x.value, ast.Name) and x.value.id in loopvars:
            for t in x.targets:
                if isinstance(t, ast.Name):
                    roles[t.id] = "prev"
    for v in loopvars:
        roles[v] = "elem"
    return roles


def _outcome(cfg, starts, roles):
    """What happens on an edge: the returns it can reach without starting another iteration, or 'append'/'skip'."""
    heads = [n for n in cfg.live_nodes() if n.kind == "for"]
    outs = set()
    seen = set()
    stack = list(starts)
    reaches_head = False
    while stack:
        n = stack.pop()
        if n.id in seen:
            continue
        seen.add(n.id)
        if n.kind == "for":
            reaches_head = True
            # leaving the loop (exhaust) is followed; a new iteration is not
            for t, lab in n.succ:
                if lab == "exhaust" and n in starts:
                    stack.append(t)
            continue
        if n.kind == "stmt" and isinstance(n.ast, ast.Return):
            v = n.ast.value
            if isinstance(v, ast.Constant):
                outs.add("ret:%s" % v.value)
            elif isinstance(v, ast.Name):
                outs.add("ret:" + roles.get(v.id, v.id))
            else:
                outs.add("ret:" + (src(v) if v is not None else "None"))
            continue
        for t, lab in n.succ:
            if lab != "exc":
                stack.append(t)
    if reaches_head and not outs:
        # continues scanning: with or without recording the element?
        appends = [n for n in cfg.live_nodes() if n.kind == "stmt" and isinstance(n.ast, ast.Expr) and isinstance(n.ast.value, ast.Call)
                   and isinstance(n.ast.value.func, ast.Attribute) and n.ast.value.func.attr == "append"
                   and roles.get(src(n.ast.value.func.value)) == "acc"]
        miss = False
        for s0 in starts:
            if s0 in appends:
                continue
            if cfg.path_avoiding(s0, heads, avoid_nodes=appends, include_start=True) is not None:
                miss = True
        return "skip" if (miss or not appends) else "append"
    if reaches_head:
        outs.add("loop")
    return "|".join(sorted(outs)) if outs else "none"


def comparators(ctx, f, loopvars, params):
    """Every branch of f that compares a scanned element with a query argument: (inc context, operator normalised to
    `element <op> argument`, argument, outcome of the edge on which the comparison holds)."""
    cfg = ctx.cfg(f)
    facts = ctx.facts(f)
    roles = _roles(f, loopvars)
    out = set()
    raw = []
    for n in cfg.live_nodes():
        if n.ast is None or n.kind not in ("stmt", "branch") or isinstance(n.ast, (ast.FunctionDef, ast.ClassDef)):
            continue
        for x in ast.walk(n.ast):
            if isinstance(x, ast.Lambda):
                break
            if not isinstance(x, ast.Compare):
                continue
            names = set(y.id for y in ast.walk(x) if isinstance(y, ast.Name))
            if not (names & loopvars and names & params):
                continue
            top = n.ast
            neg = False
            while isinstance(top, ast.UnaryOp) and isinstance(top.op, ast.Not):
                top = top.operand
                neg = not neg
            if n.kind != "branch" or top is not x or len(x.ops) != 1:
                raw.append("%s in `%s`" % (src(x), stmt_text(n)))
                continue
            op = type(x.ops[0]).__name__
            l, r = src(x.left), src(x.comparators[0])
            if l in params and r in loopvars:
                op, l, r = FLIP.get(op, op), r, l
            if not (l in loopvars and r in params):
                raw.append("%s in `%s`" % (src(x), stmt_text(n)))
                continue
            fs = facts.at(n)
            inc = "inc" if ("inc", True) in fs else ("not-inc" if ("inc", False) in fs else "any")
            t_s = [s_ for s_, lab in n.succ if lab == "true"]
            f_s = [s_ for s_, lab in n.succ if lab == "false"]
            hold, other = (f_s, t_s) if neg else (t_s, f_s)
            o_hold = _outcome(cfg, hold, roles)
            out.add((inc, op, r, o_hold))
    return out, raw


def run(ctx):
    prog = ctx.prog
    base = prog.cls("rrule.rrulebase", "C12")

    # ---------------------------------------------------------------- C12.CMP
    n_cmp = 0
    for m, want in sorted(EXPECTED.items()):
        f = prog.method(base.qualname, m, "C12.CMP")
        params = set(f.params) - {"self", "inc", "count"}
        loopvars = set()
        for n in walk_local(f.node):
            if isinstance(n, ast.For):
                loopvars |= set(x.id for x in ast.walk(n.target) if isinstance(x, ast.Name))
        got, raw = comparators(ctx, f, loopvars, params)
        # a comparison may also be written from the other side: `not (i < dt)` is normalised by the CFG edge taken;
        # `i <= dt: continue scanning` is the negation of `i > dt: stop` - accept the complementary spelling
        got2 = set(got)
        for (inc, op, arg, oc) in list(got):
            pass
        for w in sorted(want):
            n_cmp += 1
            ok = w in got2
            ctx.ob("C12.CMP", f, "%s: when `element %s %s` (%s) the scan %s" % (m, w[1], w[2], w[0], w[3]), ok,
                   construct="%s: %s element %s %s -> %s" % (m, w[0], w[1], w[2], w[3]),
                   detail="" if ok else "comparators found: %s" % sorted(got2), analysis="CMP decision table (branch facts + edge outcomes)")
        extra = sorted(g for g in got2 - want if not (g[3] in ("skip", "loop") and (g[0], NEGATE.get(g[1]), g[2]) in set((x[0], x[1], x[2]) for x in want)))
        ctx.ob("C12.CMP", f, "%s contains no other comparison between an element and a query argument" % m, not extra and not raw,
               construct="%s: comparator set" % m, detail="" if not (extra or raw) else "unexpected comparators %s %s" % (extra, raw),
               analysis="CMP decision table")
    # xafter: comparison selected through lambdas
    xa = prog.method(base.qualname, "xafter", "C12.CMP")
    cfg = ctx.cfg(xa)
    facts = ctx.facts(xa)
    lam = {}
    for n in cfg.live_nodes():
        if n.kind == "stmt" and isinstance(n.ast, ast.Assign) and isinstance(n.ast.value, ast.Lambda):
            lm = n.ast.value
            c = norm_cmp(lm.body)
            args = [a.arg for a in lm.args.args]
            ctxinc = "inc" if ("inc", True) in facts.at(n) else ("not-inc" if ("inc", False) in facts.at(n) else "any")
            if c and len(args) == 2:
                op, l, r = c
                if l == args[1] and r == args[0]:
                    op, l, r = FLIP[op], r, l
                lam[ctxinc] = (op, l == args[0] and r == args[1], src(n.ast.targets[0]))
    ok = lam.get("inc", (None,))[0] == "GtE" and lam.get("not-inc", (None,))[0] == "Gt" and all(v[1] for v in lam.values())
    n_cmp += 2
    ctx.ob("C12.CMP", xa, "xafter selects element >= dt (inc) / element > dt, first lambda argument being the element", ok,
           construct="xafter comparator lambdas", detail=str(lam), analysis="CMP table")
    uses = [x for n in cfg.live_nodes() if n.kind == "branch" for x in ast.walk(n.ast)
            if isinstance(x, ast.Call) and lam and src(x.func) in [v[2] for v in lam.values()]]
    oku = len(uses) == 1 and [src(a) for a in uses[0].args] == ["d", "dt"]
    ctx.ob("C12.CMP", xa, "the selected comparator is applied as comp(element, dt)", oku, construct="comp(d, dt)",
           detail="" if oku else str([src(u) for u in uses]))
    # count limit: n > count breaks
    ctx.floor("C12.CMP", n_cmp, 12, "comparator obligations")

    # ---------------------------------------------------------------- C12.FAST
    n_reads = 0
    for m in ("__iter__", "__getitem__", "__contains__", "before", "after", "xafter", "between", "count"):
        f = prog.method(base.qualname, m, "C12.FAST")
        cfg = ctx.cfg(f)
        facts = ctx.facts(f)
        for n in cfg.live_nodes():
            if n.ast is None or n.kind not in ("stmt", "branch", "for"):
                continue
            root = n.ast.iter if n.kind == "for" else n.ast
            if n.kind == "for":
                continue        # iterable evaluated by the preceding synthetic node
            for x in ast.walk(root):
                if isinstance(x, ast.Attribute) and src(x) == "self._cache" and isinstance(x.ctx, ast.Load):
                    # enabledness test `self._cache is None` is not a data read
                    if n.kind == "branch" and src(n.ast).replace(" ", "") in ("self._cacheisNone", "self._cacheisnotNone"):
                        continue
                    n_reads += 1
                    ok = ("self._cache_complete", True) in facts.at(n) or ("self._cache_complete", True) in expr_guards(root, x)
                    ctx.ob("C12.FAST", f, "the cache is read by a query only after it was observed complete", ok,
                           construct="%s: %s" % (m, stmt_text(n)),
                           detail="" if ok else "read of self._cache not dominated by `self._cache_complete`: a partially filled cache would answer the query",
                           analysis="must-hold branch facts")
    ctx.floor("C12.FAST", n_reads, 7, "reads of self._cache in iteration/query methods")
    # loop sources
    for m in ("before", "after", "xafter", "between"):
        f = prog.method(base.qualname, m, "C12.FAST")
        cfg = ctx.cfg(f)
        rd = ReachingDefs(cfg, params=f.params)
        for n in cfg.live_nodes():
            if n.kind == "for":
                itx = n.ast.iter
                if isinstance(itx, ast.Name):
                    defs = []
                    for i in rd.at(n, itx.id):
                        if i and isinstance(cfg.nodes[i].ast, ast.Assign):
                            v = cfg.nodes[i].ast.value
                            if isinstance(v, ast.IfExp):
                                defs += [src(v.body), src(v.orelse)]
                            else:
                                defs.append(src(v))
                    defs = sorted(defs)
                    ok = defs == ["self", "self._cache"]
                else:
                    defs = [src(itx)]
                    ok = src(itx) == "self"
                ctx.ob("C12.FAST", f, "the scan loop runs over the complete cache or over the rule itself (one code shape for both)", ok,
                       construct="%s: for %s in %s" % (m, src(n.ast.target), src(itx)), detail="sources: %s" % defs, analysis="reaching definitions")
    gi = prog.method(base.qualname, "__getitem__", "C12.FAST")
    cfg = ctx.cfg(gi)
    facts = ctx.facts(gi)
    handlers = [n for n in cfg.live_nodes() if n.kind == "handler" and "StopIteration" in src(n.ast.type)]
    okh = len(handlers) == 1 and any(isinstance(s, ast.Raise) and src(s.exc).startswith("IndexError") for s in handlers[0].ast.body)
    ctx.ob("C12.FAST", gi, "running out of elements while indexing raises IndexError", okh, construct="except StopIteration: raise IndexError")
    full = [n for n in cfg.live_nodes() if n.kind == "stmt" and isinstance(n.ast, ast.Return) and "list(iter(self))[item]" in src(n.ast).replace(" ", "")]
    ok_neg = len(full) >= 2
    ctx.ob("C12.FAST", gi, "negative indices and negative slice steps are answered from the full listing", ok_neg,
           construct="return list(iter(self))[item]", detail="found %d such returns" % len(full))
    # (no obligation on WHEN the full listing is used: `list(iter(self))[item]` is right for every item; what must not
    #  happen - a bound islice cannot express reaching islice - is C12.SLICE below)
    pos = [n for n in cfg.live_nodes() if n.kind == "stmt" and "range(item + 1)" in src(n.ast).replace("item+1", "item + 1")]
    ctx.ob("C12.FAST", gi, "a non-negative index advances item+1 times", bool(pos) and all(("item >= 0", True) in facts.at(p) for p in pos),
           construct="for i in range(item + 1)")
    # C12.SLICE - rule[a:b:c] == list(rule)[a:b:c] for every bound that is absent, zero, negative or positive.
    # itertools.islice takes None or a non-negative start / stop and None or a positive step; a list slice gives a
    # meaning to negative bounds, to a zero stop (empty) and rejects a zero step.  For every islice call in
    # __getitem__ and every class of each bound: either the branch facts at the call exclude that class, or the
    # argument passed has the list meaning.  (`list(iter(self))[item]` is right for every item and needs no guard.)
    from .. import absval
    isl = [x for x in walk_local(gi.node) if isinstance(x, ast.Call) and src(x.func).split(".")[-1] == "islice"]
    inl = ctx.inliner(gi)
    ctx.floor("C12.SLICE", len(isl), 1, "islice calls in __getitem__")
    slice_param = gi.params[1] if len(gi.params) > 1 else "item"
    LIST_MEANING = {
        # bound: class -> acceptable abstract values of the islice argument (None = the path must be excluded)
        "start": {"none": [absval.NONE, ("int", 0)], "zero": [("int", 0)], "pos": "same", "neg": None},
        "stop": {"none": [absval.NONE, ("int", absval.BIG)], "zero": [("int", 0)], "pos": "same", "neg": None},
        "step": {"none": [absval.NONE, ("int", 1)], "zero": [("int", 0)], "pos": "same", "neg": None},
    }
    for call in isl:
        nodes = [n for n in cfg.live_nodes() if n.ast is not None and n.kind in ("stmt", "branch") and any(x is call for x in ast.walk(n.ast))]
        if len(nodes) != 1:
            raise AnalysisError("C12.SLICE", gi.qualname, "islice call not in a plain statement")
        node = nodes[0]
        ctx.ob("C12.SLICE", gi, "the forward slice iterates the rule itself, bounds passed positionally", len(call.args) == 4 and not call.keywords and src(call.args[0]) == "self",
               construct="islice(self, start, stop, step)", detail=src(call))
        if len(call.args) != 4:
            continue
        fs = facts.at(node)
        for pos_, bound in enumerate(("start", "stop", "step"), 1):
            operand = "%s.%s" % (slice_param, bound)
            try:
                arg = ast.parse(inl.src(node, call.args[pos_]), mode="eval").body
            except SyntaxError:
                arg = call.args[pos_]
            for cls in absval.CLASSES:
                env = {operand: cls}
                want = LIST_MEANING[bound][cls]
                label = {"none": "absent (None)", "zero": "0", "neg": "negative", "pos": "positive"}[cls]
                if absval.refuted(fs, env):
                    ok, got = True, "excluded by the branch facts"
                else:
                    v = absval.evaluate(arg, env)
                    got = absval.show(v)
                    if want is None:
                        ok = False
                        got = "reaches islice (which rejects it) as %s" % got
                    elif want == "same":
                        ok = v == ("sym", operand, "pos")
                    else:
                        ok = v in want
                ctx.ob("C12.SLICE", gi, "a slice %s that is %s means what it means for list(rule)[a:b:c]" % (bound, label), ok,
                       construct="__getitem__: islice %s argument when %s is %s" % (bound, operand, label),
                       detail="" if ok else "islice receives: %s (argument `%s`); list slicing: %s" % (
                           got, src(call.args[pos_]), {"neg": "counts from the end", "zero": "empty result" if bound == "stop" else ("ValueError" if bound == "step" else "from the first element"),
                                                     "none": "the default", "pos": "that bound"}[cls]),
                       analysis="four-point abstract evaluation (None / 0 / negative / positive) of the argument under the must-hold branch facts")

    # ---------------------------------------------------------------- C12.COUNT
    cnt = prog.method(base.qualname, "count", "C12.COUNT")
    cfg = ctx.cfg(cnt)
    rets = [n for n in cfg.live_nodes() if n.kind == "stmt" and isinstance(n.ast, ast.Return)]
    loops = [n for n in cfg.live_nodes() if n.kind == "for" and src(n.ast.iter) == "self"]
    ok = len(rets) == 1 and src(rets[0].ast.value) == "self._len" and len(loops) == 1 and \
        ("self._len is None", True) in ctx.facts(cnt).at(loops[0]) and not any(isinstance(x, (ast.Break, ast.Return)) for s in loops[0].ast.body for x in ast.walk(s))
    ctx.ob("C12.COUNT", cnt, "count() exhausts the rule when the length is unknown and returns the published length", ok,
           construct="count body")
    check_len_published(ctx, "C12.LEN")

    # ---------------------------------------------------------------- C12.REPLACE
    rr = prog.cls("rrule.rrule", "C12.REPLACE")
    init = prog.method(rr.qualname, "__init__", "C12.REPLACE")
    rep = prog.method(rr.qualname, "replace", "C12.REPLACE")
    params = [p for p in init.params if p != "self"]
    lit = None
    for n in walk_local(rep.node):
        if isinstance(n, ast.Assign) and isinstance(n.value, ast.Dict):
            lit = n.value
        elif isinstance(n, ast.Assign) and isinstance(n.value, ast.Call) and src(n.value.func) == "dict" and n.value.keywords:
            lit = ast.Dict(keys=[ast.Constant(value=k.arg) for k in n.value.keywords], values=[k.value for k in n.value.keywords])
    if lit is None:
        raise AnalysisError("C12.REPLACE", rep.qualname, "literal keyword dict not found")
    litkeys = {k.value: v for k, v in zip(lit.keys, lit.values) if isinstance(k, ast.Constant)}
    icfg = ctx.cfg(init)
    ifacts = ctx.facts(init)
    stores = {}
    for n in icfg.live_nodes():
        if n.kind == "stmt" and isinstance(n.ast, ast.Assign):
            for t in n.ast.targets:
                if isinstance(t, ast.Subscript) and src(t.value) == "self._original_rule" and isinstance(t.slice, ast.Constant):
                    stores.setdefault(t.slice.value, []).append(n)
    for p in params:
        ok = p in litkeys or p in stores
        ctx.ob("C12.REPLACE", rep, "constructor parameter %s survives replace(): literal key or recorded original" % p, ok,
               construct="parameter %s" % p, detail="" if ok else "neither in replace()'s dict nor stored in _original_rule", analysis="FIELD coverage")
    ctx.floor("C12.REPLACE", len(params), 17, "rrule.__init__ parameters")
    same = {"interval": "self._interval", "count": "self._count", "dtstart": "self._dtstart", "freq": "self._freq",
            "until": "self._until", "wkst": "self._wkst"}
    for k, want in same.items():
        if k in litkeys:
            ctx.ob("C12.REPLACE", rep, "literal key %s is fed from the attribute of the same name" % k, src(litkeys[k]) == want,
                   construct="%s: %s" % (k, src(litkeys[k])), analysis="FIELD same-field")
    if "cache" in litkeys:
        c = src(litkeys["cache"]).replace(" ", "")
        ctx.ob("C12.REPLACE", rep, "cache=True is carried over iff caching is enabled", c in (
            "Falseifself._cacheisNoneelseTrue", "self._cacheisnotNone", "Trueifself._cacheisnotNoneelseFalse", "not(self._cacheisNone)", "notself._cacheisNone"),
            construct="cache: %s" % src(litkeys["cache"]))
    # every original-rule record is fed by the matching attribute
    for k, ns in sorted(stores.items()):
        for n in ns:
            v = n.ast.value
            if isinstance(v, ast.Constant) and v.value is None:
                continue
            reads = set(x.attr for x in ast.walk(v) if isinstance(x, ast.Attribute) and isinstance(x.value, ast.Name) and x.value.id == "self")
            locals_ = set(x.id for x in ast.walk(v) if isinstance(x, ast.Name)) - {"self", "tuple", "itertools"}
            ok = all(a in ("_" + k, "_bynmonthday" if k == "bymonthday" else "_" + k) for a in reads) and (bool(reads) or bool(locals_))
            ctx.ob("C12.REPLACE", init, "the record of %s is taken from the normalised %s" % (k, k), ok,
                   construct="_original_rule[%r] = %s" % (k, src(v)), detail="" if ok else "reads %s" % sorted(reads), analysis="FIELD same-field")
    # order of overlays in replace
    ups = [src(x) for x in walk_local(rep.node) if isinstance(x, ast.Call) and isinstance(x.func, ast.Attribute) and x.func.attr == "update"]
    ups_ordered = [src(s.value) for s in rep.node.body if isinstance(s, ast.Expr) and isinstance(s.value, ast.Call) and "update" in src(s.value)]
    ok = ups_ordered == ["new_kwargs.update(self._original_rule)", "new_kwargs.update(kwargs)"]
    ctx.ob("C12.REPLACE", rep, "replace() overlays the recorded originals, then the caller's keywords (caller wins)", ok,
           construct="update order", detail=str(ups_ordered))
    ret = [x for x in walk_local(rep.node) if isinstance(x, ast.Return)]
    ctx.ob("C12.REPLACE", rep, "replace() builds the new rule from exactly that dict", len(ret) == 1 and src(ret[0].value) == "rrule(**new_kwargs)",
           construct="return rrule(**new_kwargs)")
    # start-derived defaults
    derived = {"bymonth": 1, "bymonthday": 2, "byweekday": 1}
    n_none = 0
    for k, cnt_ in derived.items():
        nones = [n for n in stores.get(k, []) if isinstance(n.ast.value, ast.Constant) and n.ast.value.value is None]
        n_none += len(nones)
        okn = len(nones) == cnt_ and all((("byweekno is None", True) in ifacts.at(n) and ("byeaster is None", True) in ifacts.at(n)
                                        and ("byyearday is None", True) in ifacts.at(n)) for n in nones)
        ctx.ob("C12.REPLACE", init, "a %s derived from the start is recorded as None (so replace(dtstart=...) re-derives it and str() omits it)" % k,
               okn, construct="_original_rule[%r] = None" % k, detail="found %d None records" % len(nones), analysis="must-hold branch facts")
        for n in stores.get(k, []):
            if n in nones:
                continue
            fs = ifacts.at(n)
            okg = (("%r not in self._original_rule" % k), True) in fs or (("%r in self._original_rule" % k), False) in fs
            ctx.ob("C12.REPLACE", init, "the supplied-value record of %s does not overwrite the derived-default marker: "
                   "guarded by a membership test that distinguishes 'absent' from 'present with None'" % k, okg,
                   construct="guard of _original_rule[%r] = %s" % (k, src(n.ast.value)[:40]),
                   detail="" if okg else "facts: %s" % sorted(t for t, tv in fs if "original_rule" in t), analysis="must-hold branch facts")
    ctx.floor("C12.REPLACE", n_none, 4, "derived-default None records")

    # ---------------------------------------------------------------- C12.ARGS
    from ..rules_common import check_call_arguments
    check_call_arguments(ctx, "C12.ARGS", "C12")
    from ..rules_common import check_effect_tables
    check_effect_tables(ctx, "C12")
    from ..rules_common import check_presence_tests, ARG_SCOPE
    check_presence_tests(ctx, "C12.PRESENCE", classes=ARG_SCOPE.get("C12", []))
    from ..rules_common import check_param_rebinding
    check_param_rebinding(ctx, "C12.PARAMS", classes=ARG_SCOPE.get("C12", []))


