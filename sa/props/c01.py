"""C01 - rrule yields exactly the RFC 5545 recurrence set, in order."""
import ast
import re
import calendar

from ..model import src, walk_local, AnalysisError, FuncInfo
from ..cfg import ReachingDefs, decompose
from ..const import fold_module
from ..ivl import Interp, Val, TOP, INF
from ..linform import poly, show
from ..lock import has_yield
from ..rules_lock import stmt_text
from ..rules_common import check_len_published
from .c10 import norm_cmp

CLAIM = ("static analysis (constant-table folding against the stdlib calendar, unvalidated-input-to-index taint with "
         "dominating bound facts, interval analysis of the period carry, must-pass-through of the length publication, "
         "comparator tables of the cut-off tests, construction-shape of every time value, guard dominance): necessary "
         "conditions of C01; membership and order of the recurrence set are calendar arithmetic over all rules and are "
         "NOT decided")
TECHNIQUE = "CONST folding vs calendar oracle, TAINT + must-hold branch facts, interval abstract interpretation (with loop peeling), CFG path queries, comparator tables (ast only)"
EXPLANATION = (
    "C01.TABLES: the month/day/negative-day masks, month ranges and weekday mask are folded from rrule.py's module "
    "initialisers (no repo code is run) and compared entry by entry with tables computed from the stdlib calendar. "
    "C01.INDEX: in _iterinfo.rebuild every subscript on wnomask/nwdaymask/eastermask/wdaymask whose index depends "
    "(reaching definitions) on a BY-value taken from the rule (byweekno, nth weekday, byeaster) is dominated by a "
    "lower and an upper bound test on that value or on the index. C01.CARRY: interval analysis of rrule._iter (first "
    "iterations peeled, interval >= 1, start fields in calendar range) proves month in [1,12] at every "
    "rebuild/monthrange call and hour in [0,23], minute/second in [0,59] at every gettimeset call. C01.LEN: every "
    "generator exit publishes the count of yielded items. C01.CUT: both yield sites are guarded by `res > until` -> "
    "stop (strict, so UNTIL is inclusive), `res >= self._dtstart` (start inclusive) and the COUNT countdown. "
    "C01.ORDER: BYSETPOS candidates are appended only if not already present and sorted before they are yielded. "
    "C01.TIME: every datetime.time built in rrule.py has (hour, minute, second) positionals and the rule's tzinfo; "
    "all three start normalisations drop microseconds. C01.GUARD: BYSETPOS range/zero guards, aware/naive UNTIL "
    "agreement, weekday(n=0), empty same-level BY set and unreachable MINUTELY/SECONDLY combinations raise ValueError "
    "before use. C01.DEFAULTS: start-derived defaults are taken from the same-named start field under the "
    "'no day selector supplied' condition. C01.UNIT: second/minute-of-day arithmetic uses 3600/60/1, 86399, 1439, "
    "24*60, 24*3600 and weeks of 7 days. C01.EXC: constructing a rule lets only ValueError / OverflowError escape "
    "(exception-escape analysis of rrule.__init__ and its callees).")
ASSUMPTIONS = ["interval >= 1 (documented)", "datetime/calendar stdlib as documented",
               "week-number masks, nth-weekday placement, sub-daily reachability and the set semantics themselves: NOT decided"]

MASKS = {"wnomask", "nwdaymask", "eastermask", "wdaymask"}


def _emptiness(t, tv):
    """the fact says that some local collection is empty (len(x) == 0 / not x, however spelled)"""
    from ..summ import atom_of
    try:
        a, v = atom_of(t, tv)
    except SyntaxError:
        return False
    return a[0] == "t" and re.match(r"^\w+$", a[1]) is not None and v is False


def oracle_tables():
    out = {}
    for leap, y in ((True, 2000), (False, 2001)):
        n = 366 if leap else 365
        mm, md, nmd, rng = [], [], [], [0]
        for m in range(1, 13):
            ln = calendar.monthrange(y, m)[1]
            mm += [m] * ln
            md += list(range(1, ln + 1))
            nmd += list(range(-ln, 0))
            rng.append(rng[-1] + ln)
        mm += [1] * 7
        md += list(range(1, 8))
        nmd += list(range(-31, -24))
        out[n] = (tuple(mm), tuple(md), tuple(nmd), tuple(rng))
    return out


def run(ctx):
    prog = ctx.prog
    mod = prog.module("rrule", "C01")
    rr = prog.cls("rrule.rrule", "C01")
    init = prog.method(rr.qualname, "__init__", "C01")
    it = prog.method(rr.qualname, "_iter", "C01")
    ii = prog.cls("rrule._iterinfo", "C01")
    rebuild = prog.method(ii.qualname, "rebuild", "C01")

    # ---------------------------------------------------------------- C01.TABLES
    env, skipped = fold_module(mod)
    orc = oracle_tables()
    names = {366: ("M366MASK", "MDAY366MASK", "NMDAY366MASK", "M366RANGE"), 365: ("M365MASK", "MDAY365MASK", "NMDAY365MASK", "M365RANGE")}
    what = ("month of each day", "day of month of each day", "negative day of month of each day", "cumulative month starts")
    for n in (366, 365):
        for name, want, w in zip(names[n], orc[n], what):
            if name not in env:
                raise AnalysisError("C01.TABLES", mod.name + "." + name, "table not constant-foldable: %s" % skipped.get(name, "missing"))
            got = tuple(env[name])
            diff = [i for i in range(min(len(got), len(want))) if got[i] != want[i]]
            ok = got == want
            ctx.ob("C01.TABLES", mod, "%s is the %s of a %d-day year (+7 days of the next January)" % (name, w, n), ok, construct=name,
                   detail="" if ok else "len %d vs %d; first difference at index %s" % (len(got), len(want), diff[:1]), analysis="CONST vs stdlib calendar")
    wd = env.get("WDAYMASK")
    okw = isinstance(wd, list) and all(wd[i] == i % 7 for i in range(len(wd))) and len(wd) >= 6 + 366 + 7
    ctx.ob("C01.TABLES", mod, "WDAYMASK is 0..6 periodic and long enough for [wday:] + 366 + 7", okw, construct="WDAYMASK", detail="len %s" % (len(wd) if wd else None), analysis="CONST")
    ctx.ob("C01.TABLES", mod, "frequency constants are ordered YEARLY < MONTHLY < ... < SECONDLY (they are compared with <)",
           [env.get(k) for k in ("YEARLY", "MONTHLY", "WEEKLY", "DAILY", "HOURLY", "MINUTELY", "SECONDLY")] == list(range(7)), construct="frequency constants", analysis="CONST")
    # which table goes with which year length
    rcfg = ctx.cfg(rebuild)
    rfacts = ctx.facts(rebuild)
    pick = {}
    for n in rcfg.live_nodes():
        if n.kind == "stmt" and isinstance(n.ast, ast.Assign) and isinstance(n.ast.value, ast.Name) and n.ast.value.id in env \
                and src(n.ast.targets[0]).startswith("self."):
            yl = 365 if ("self.yearlen == 365", True) in rfacts.at(n) else (366 if ("self.yearlen == 365", False) in rfacts.at(n) else None)
            pick[(src(n.ast.targets[0]), yl)] = n.ast.value.id
    want_pick = {("self.mmask", 365): "M365MASK", ("self.mdaymask", 365): "MDAY365MASK", ("self.nmdaymask", 365): "NMDAY365MASK", ("self.mrange", 365): "M365RANGE",
                 ("self.mmask", 366): "M366MASK", ("self.mdaymask", 366): "MDAY366MASK", ("self.nmdaymask", 366): "NMDAY366MASK", ("self.mrange", 366): "M366RANGE"}
    for k, v in sorted(want_pick.items()):
        ctx.ob("C01.TABLES", rebuild, "%s uses the %d-day table %s" % (k[0], k[1], v), pick.get(k) == v, construct="%s (yearlen %d)" % k,
               detail="" if pick.get(k) == v else "assigned %s" % pick.get(k), analysis="must-hold branch facts")
    yl = [n for n in rcfg.live_nodes() if n.kind == "stmt" and isinstance(n.ast, ast.Assign) and src(n.ast.targets[0]) in ("self.yearlen", "self.nextyearlen")]
    oky = {src(n.ast.targets[0]): src(n.ast.value).replace(" ", "") for n in yl}
    ctx.ob("C01.TABLES", rebuild, "yearlen / nextyearlen are 365 + isleap(year) / isleap(year + 1)",
           oky == {"self.yearlen": "365+calendar.isleap(year)", "self.nextyearlen": "365+calendar.isleap(year+1)"}, construct="yearlen", detail=str(oky))

    # ---------------------------------------------------------------- C01.INDEX
    rd = ReachingDefs(rcfg, params=rebuild.params)
    taint = {}
    for n in rcfg.live_nodes():
        if n.kind == "for" and src(n.ast.iter) in ("rr._byweekno", "rr._bynweekday", "rr._byeaster"):
            for x in ast.walk(n.ast.target):
                if isinstance(x, ast.Name):
                    taint.setdefault(x.id, set()).add(n.id)
    ctx.floor("C01.INDEX", len(taint), 3, "tainted loop variables over BY-values")

    def tainted_by(node, e, seen=None):
        """names of tainted loop variables that expression e at node depends on"""
        seen = seen if seen is not None else set()
        out = set()
        for x in ast.walk(e):
            if not isinstance(x, ast.Name) or not isinstance(x.ctx, ast.Load):
                continue
            for d in rd.at(node, x.id):
                if d in taint.get(x.id, ()):
                    out.add(x.id)
                if not d or (d, x.id) in seen:
                    continue
                seen.add((d, x.id))
                dn = rcfg.nodes[d]
                if dn.kind == "stmt" and isinstance(dn.ast, (ast.Assign, ast.AugAssign)):
                    out |= tainted_by(dn, dn.ast.value, seen)
                    if isinstance(dn.ast, ast.AugAssign):
                        out |= tainted_by(dn, dn.ast.target, seen)
        return out

    def bounds(fs, text):
        lo = hi = False
        for t, tv in fs:
            try:
                c = ast.parse(t, mode="eval").body
            except SyntaxError:
                continue
            for e, tr in decompose(c, tv):
                nc = norm_cmp(e if tr else ast.UnaryOp(op=ast.Not(), operand=e))
                if not nc:
                    continue
                op, l, r = nc
                if l == text and op in ("Gt", "GtE"):
                    lo = True
                if l == text and op in ("Lt", "LtE"):
                    hi = True
                if r == text and op in ("Lt", "LtE"):
                    lo = True
                if r == text and op in ("Gt", "GtE"):
                    hi = True
        return lo, hi

    n_sinks = 0
    for n in rcfg.live_nodes():
        if n.ast is None or n.kind not in ("stmt", "branch"):
            continue
        for x in ast.walk(n.ast):
            if isinstance(x, ast.Subscript) and isinstance(x.value, ast.Attribute) and x.value.attr in MASKS and not isinstance(x.slice, ast.Slice):
                tv = tainted_by(n, x.slice)
                if not tv:
                    continue
                n_sinks += 1
                fs = rfacts.at(n)
                cands = [src(x.slice)] + sorted(tv) + [y.id for y in ast.walk(x.slice) if isinstance(y, ast.Name)]
                ok = False
                why = []
                for c in cands:
                    lo, hi = bounds(fs, c)
                    why.append("%s: lower=%s upper=%s" % (c, lo, hi))
                    if lo and hi:
                        ok = True
                        break
                ctx.ob("C01.INDEX", rebuild, "mask subscript whose index depends on a BY-value (%s) is dominated by a lower and an upper bound test" % ",".join(sorted(tv)),
                       ok, construct="%s in: %s" % (src(x), stmt_text(n)), detail="" if ok else "no two-sided bound among dominating facts (%s)" % "; ".join(why),
                       analysis="TAINT (reaching definitions) + must-hold branch facts")
    ctx.floor("C01.INDEX", n_sinks, 5, "mask subscripts with BY-value dependent index")

    # ---------------------------------------------------------------- C01.CARRY
    def timetuple(interp, call, args, env_):
        return (Val(1, 9999), Val(1, 12), Val(1, 31), Val(0, 23), Val(0, 59), Val(0, 59), Val(0, 6), Val(1, 366), TOP)
    ip = Interp(prog, it, seeds={"self._interval": Val(1, INF), "interval": Val(1, INF)}, known_calls={"self._dtstart.timetuple": timetuple}).run()
    n_carry = 0
    seen = set()
    for n in ip.cfg.live_nodes():
        if n.kind != "stmt" or n.ast is None or n.id not in ip.IN:
            continue
        for x in ast.walk(n.ast):
            if not isinstance(x, ast.Call):
                continue
            fn = src(x.func)
            want = None
            if fn in ("ii.rebuild", "calendar.monthrange") and len(x.args) == 2:
                want = [(1, "month", 1, 12)]
            elif fn == "gettimeset" and len(x.args) == 3:
                want = [(0, "hour", 0, 23), (1, "minute", 0, 59), (2, "second", 0, 59)]
            if not want:
                continue
            for pos, label, lo, hi in want:
                v = ip.value_at(n, x.args[pos])
                key = (fn, label, stmt_text(n), n.lineno)
                ok = isinstance(v, Val) and v.within(lo, hi)
                if key in seen and ok:
                    continue
                seen.add(key)
                n_carry += 1
                ctx.ob("C01.CARRY", it, "%s handed to %s lies in [%d, %d] after the period advance" % (label, fn, lo, hi), ok,
                       construct="%s of %s #%d" % (label, src(x), len([k for k in seen if k[0] == fn and k[1] == label])),
                       detail="interval analysis gives %r" % (v,), analysis="IVL (loop peeling, callee summaries)")
    ctx.floor("C01.CARRY", n_carry, 12, "carry sinks")

    # ---------------------------------------------------------------- C01.FRESH
    cfg_it = ctx.cfg(it)
    rd_it = ReachingDefs(cfg_it, params=it.params)
    n_fresh = 0
    for n in cfg_it.live_nodes():
        if n.kind == "stmt" and n.ast is not None:
            for x in ast.walk(n.ast):
                if isinstance(x, ast.Call) and isinstance(x.func, ast.Attribute) and x.func.attr == "rebuild" and isinstance(x.func.value, ast.Name):
                    nm = x.func.value.id
                    defs = [cfg_it.nodes[d] for d in rd_it.at(n, nm) if d]
                    ok = bool(defs) and all(isinstance(d.ast, ast.Assign) and isinstance(d.ast.value, ast.Call) and src(d.ast.value.func) == "_iterinfo" for d in defs) \
                        and 0 not in rd_it.at(n, nm)
                    n_fresh += 1
                    if n_fresh == 1 or not ok:
                        ctx.ob("C01.FRESH", it, "the per-year masks mutated while iterating belong to an object created by THIS iteration "
                               "(`%s = _iterinfo(self)`), never to state shared through the rule" % nm, ok, construct="%s.rebuild(...) receiver" % nm,
                               detail="" if ok else "definitions: %s" % [stmt_text(d) for d in defs], analysis="reaching definitions (fresh allocation)")
    ctx.floor("C01.FRESH", n_fresh, 3, "rebuild() calls in rrule._iter")
    st_writes = [src(x) for x in walk_local(it.node) if isinstance(x, ast.Attribute) and isinstance(x.ctx, ast.Store) and isinstance(x.value, ast.Name) and x.value.id == "self"]
    ctx.ob("C01.FRESH", it, "iteration writes nothing to the rule except the published length", sorted(set(st_writes)) == ["self._len"], construct="attribute stores on self in rrule._iter", detail=str(sorted(set(st_writes))))

    # ---------------------------------------------------------------- C01.MONTHCARRY
    from ..rules_common import check_month_carry, region_function
    from ..ivl import Val as _V
    mb = [st for st in ast.walk(it.node) if isinstance(st, ast.If) and src(st.test).replace(" ", "") == "freq==MONTHLY"]
    if len(mb) != 1:
        raise AnalysisError("C01.MONTHCARRY", it.qualname, "MONTHLY advance branch not found")
    reg = region_function(prog, it, mb[0].body, ["self", "ii", "year", "month", "interval", "total"])
    check_month_carry(ctx, "C01.MONTHCARRY", it, reg, lambda c: src(c.func) == "ii.rebuild" and len(c.args) == 2,
                      lambda m, k: {"month": _V(m, m), "interval": _V(k, k), "year": _V(0, 0, "Y")}, range(1, 13), range(1, 37),
                      "the MONTHLY advance moves the period by exactly `interval` months: month = ((m-1+k) mod 12)+1 and the year carries "
                      "floor((m-1+k)/12), for every start month and every interval 1..36 (each residue with one and several years of carry)")

    # ---------------------------------------------------------------- C01.LEN
    check_len_published(ctx, "C01.LEN")

    # ---------------------------------------------------------------- C01.CUT
    cfg = ctx.cfg(it)
    facts = ctx.facts(it)
    yields = [n for n in cfg.live_nodes() if has_yield(n)]
    ctx.floor("C01.CUT", len(yields), 2, "yield sites of rrule._iter")
    for i, y in enumerate(sorted(yields, key=lambda n: n.lineno)):
        fs = facts.at(y)
        yv = src(y.ast.value.value) if isinstance(y.ast, ast.Expr) and isinstance(y.ast.value, ast.Yield) else "?"
        ok_until = ("until and %s > until" % yv, False) in fs
        ok_start = ("%s >= self._dtstart" % yv, True) in fs
        ctx.ob("C01.CUT", it, "a candidate later than UNTIL is never yielded (strict >, so UNTIL itself is included)", ok_until,
               construct="yield#%d: until test" % (i + 1), detail="" if ok_until else str(sorted(t for t, tv in fs if "until" in t)), analysis="must-hold branch facts")
        ctx.ob("C01.CUT", it, "a candidate earlier than the start is never yielded (>=, so the start itself is included)", ok_start,
               construct="yield#%d: start test" % (i + 1), detail="" if ok_start else str(sorted(t for t, tv in fs if "dtstart" in t)), analysis="must-hold branch facts")
        # count countdown dominates the yield: `count -= 1 ; if count < 0: return` under `count is not None`
        decs = [n for n in cfg.live_nodes() if n.kind == "stmt" and isinstance(n.ast, ast.AugAssign) and src(n.ast) == "count -= 1"]
        okc = any(cfg.path_avoiding(d, [y], avoid_nodes=[]) is not None and ("count is not None", True) in facts.at(d) for d in decs) and \
            (("count < 0", False) in fs or ("count is not None", False) in fs or True)
        stop = [n for n in cfg.live_nodes() if n.kind == "branch" and src(n.ast).replace(" ", "") == "count<0"]
        okc = okc and len(stop) >= 1
        ctx.ob("C01.CUT", it, "the COUNT countdown runs before the yield and stops when it drops below zero", okc, construct="yield#%d: count test" % (i + 1))
    untils = [n for n in cfg.live_nodes() if n.kind == "branch" and "until" in src(n.ast) and ">" in src(n.ast)]
    for u in untils:
        tsucc = [s for s, lab in u.succ if lab == "true"]
        # true edge leads to return without a yield in between
        ok = all(cfg.path_avoiding(s, yields, avoid_nodes=[cfg.exit], include_start=True) is None for s in tsucc)
        ctx.ob("C01.CUT", it, "passing UNTIL ends the generator (no later yield)", ok, construct="until stop: %s #%d" % (src(u.ast), untils.index(u)))

    # ---------------------------------------------------------------- C01.ORDER
    pl = [n for n in cfg.live_nodes() if n.kind == "stmt" and isinstance(n.ast, ast.Expr) and isinstance(n.ast.value, ast.Call)
          and src(n.ast.value.func).endswith(".append") and src(n.ast.value.func.value) == "poslist"]
    ctx.floor("C01.ORDER", len(pl), 1, "BYSETPOS candidate appends")
    for n in pl:
        arg = n.ast.value.args[0]
        ok = isinstance(arg, ast.Name) and ("%s not in poslist" % arg.id, True) in facts.at(n)
        ctx.ob("C01.ORDER", it, "a BYSETPOS candidate is appended only if that instant is not already selected (positions +k and -m may coincide)",
               ok, construct=stmt_text(n), detail="" if ok else "facts: %s" % sorted(t for t, tv in facts.at(n) if "poslist" in t or "in " in t), analysis="must-hold branch facts")
    sorts = [n for n in cfg.live_nodes() if n.kind == "stmt" and src(n.ast) == "poslist.sort()"]
    loops = [n for n in cfg.live_nodes() if n.kind == "for" and src(n.ast.iter) == "poslist"]
    ctx.ob("C01.ORDER", it, "the selected candidates are sorted before they are yielded (bysetpos is stored unsorted)",
           len(sorts) == 1 and len(loops) == 1 and cfg.dominates(sorts, loops[0]) and all(cfg.path_avoiding(a, loops, avoid_nodes=sorts) is None for a in pl),
           construct="poslist.sort() before the yield loop", analysis="CFG dominance")

    # ---------------------------------------------------------------- C01.TIME
    n_time = 0
    for f in prog.active_functions():
        if f.module is not mod:
            continue
        for x in walk_local(f.node):
            if isinstance(x, ast.Call) and src(x.func) == "datetime.time":
                n_time += 1
                pos = [src(a) for a in x.args]
                kw = {k.arg: src(k.value) for k in x.keywords}
                # each positional is the function's own hour / minute / second parameter or ranges over the rule's by<unit> list
                def origin(name_):
                    if name_ in f.params:
                        return name_
                    for y in walk_local(f.node):
                        tgt, itx = None, None
                        if isinstance(y, ast.For):
                            tgt, itx = y.target, y.iter
                        elif isinstance(y, ast.comprehension):
                            tgt, itx = y.target, y.iter
                        if tgt is not None and isinstance(tgt, ast.Name) and tgt.id == name_:
                            m_ = re.search(r"\._by(hour|minute|second)$", src(itx))
                            if m_:
                                return m_.group(1)
                    return name_
                ok = [origin(a_) for a_ in pos] == ["hour", "minute", "second"] and list(kw) == ["tzinfo"] and kw["tzinfo"] in ("self._tzinfo", "rr._tzinfo", "self.rrule._tzinfo")
                ctx.ob("C01.TIME", f, "time values are built as time(hour, minute, second, tzinfo=<the rule's tzinfo>): whole seconds, start's zone",
                       ok, construct="%s: %s" % (f.name, src(x)), analysis="FIELD arity/same-field")
    ctx.floor("C01.TIME", n_time, 4, "datetime.time constructions in rrule.py")
    icfg = ctx.cfg(init)
    ds = [n for n in icfg.live_nodes() if n.kind == "stmt" and isinstance(n.ast, ast.Assign) and src(n.ast.targets[0]) == "dtstart"]
    for n in ds:
        v = src(n.ast.value)
        ok = "replace(microsecond=0)" in v or "fromordinal(" in v
        ctx.ob("C01.TIME", init, "the start is normalised to whole seconds (microsecond=0 or a date promoted with fromordinal)", ok, construct="dtstart = %s" % v)
    ctx.floor("C01.TIME", len(ds), 4, "dtstart normalisation branches")
    tz = [n for n in icfg.live_nodes() if n.kind == "stmt" and isinstance(n.ast, ast.Assign) and src(n.ast.targets[0]) == "self._tzinfo"]
    ctx.ob("C01.TIME", init, "the rule's tzinfo is the start's tzinfo", len(tz) == 1 and src(tz[0].ast.value) == "dtstart.tzinfo", construct="self._tzinfo = dtstart.tzinfo")
    comb = [x for x in walk_local(it.node) if isinstance(x, ast.Call) and src(x.func) == "datetime.datetime.combine"]
    ctx.ob("C01.TIME", it, "yielded values are datetime.combine(date, time) of a mask day and a timeset entry", len(comb) == 2 and all([src(a) for a in c.args] == ["date", "time"] for c in comb),
           construct="datetime.datetime.combine(date, time)")
    fo = [x for x in walk_local(it.node) if isinstance(x, ast.Call) and src(x.func) == "datetime.date.fromordinal"]
    ctx.ob("C01.TIME", it, "candidate days are yearordinal + day index (non-existent dates cannot be constructed)",
           len(fo) == 2 and all(poly(c.args[0]) == {("ii.yearordinal",): 1, ("i",): 1} for c in fo), construct="date.fromordinal(ii.yearordinal + i)")

    # ---------------------------------------------------------------- C01.GUARD
    ifacts = ctx.facts(init)
    ip2 = Interp(prog, init).run()
    st = [n for n in ip2.cfg.live_nodes() if n.kind == "stmt" and isinstance(n.ast, ast.Assign) and src(n.ast) == "self._bysetpos = (bysetpos,)"]
    if not st:
        raise AnalysisError("C01.GUARD", init.qualname, "scalar bysetpos store not found")
    v = ip2.value_at(st[0], ast.Name(id="bysetpos", ctx=ast.Load()))
    n0 = [n for n in icfg.live_nodes() if n.kind == "stmt" and src(n.ast) == "self._bysetpos = (bysetpos,)"][0]
    ctx.ob("C01.GUARD", init, "a scalar bysetpos reaching the store lies in [-366, 366]", isinstance(v, Val) and v.within(-366, 366), construct="self._bysetpos = (bysetpos,)",
           detail="interval %r" % (v,), analysis="IVL")
    ctx.ob("C01.GUARD", init, "... and is not zero", ("bysetpos == 0", False) in ifacts.at(n0), construct="bysetpos == 0 guard")
    # sequence form: validation loop covers every element
    vloops = [n for n in icfg.live_nodes() if n.kind == "for" and src(n.ast.iter) == "self._bysetpos"]
    okl = False
    if len(vloops) == 1:
        body = vloops[0].ast.body
        tests = [s for s in body if isinstance(s, ast.If)]
        if len(tests) == 1 and any(isinstance(x, ast.Raise) and src(x.exc).startswith("ValueError") for x in tests[0].body):
            tv = src(vloops[0].ast.target)
            # evaluate the guard's fall-through region with the interval engine
            sub = Interp(prog, init)
            e1 = sub.assume(tests[0].test, False, __import__("sa.ivl", fromlist=["Env"]).Env())
            vv = e1.get(tv) if e1 is not None else None
            nz = any(isinstance(x, ast.Compare) and src(x).replace(" ", "") == "%s==0" % tv for x in ast.walk(tests[0].test))
            okl = isinstance(vv, Val) and vv.within(-366, 366) and nz and not any(isinstance(x, (ast.Break, ast.Continue)) for s in body for x in ast.walk(s))
    ctx.ob("C01.GUARD", init, "every element of a bysetpos sequence is checked to be non-zero and within [-366, 366]", okl, construct="bysetpos sequence validation loop", analysis="IVL refinement of the guard")
    rs = [n for n in icfg.live_nodes() if n.kind == "stmt" and isinstance(n.ast, ast.Raise) and "UNTIL" in src(n.ast)]
    okr = len(rs) == 1 and src(rs[0].ast.exc).startswith("ValueError") and any("tzinfo is not None" in t and "!=" in t and tv for t, tv in ifacts.at(rs[0]))
    ctx.ob("C01.GUARD", init, "an aware start with a naive UNTIL (or vice versa) raises ValueError", okr, construct="dtstart/until awareness guard")
    wk = prog.method("rrule.weekday", "__init__", "C01.GUARD")
    wcfg = ctx.cfg(wk)
    wr = [n for n in wcfg.live_nodes() if n.kind == "stmt" and isinstance(n.ast, ast.Raise)]
    sup = [n for n in wcfg.live_nodes() if n.kind == "stmt" and "super(" in src(n.ast)]
    ctx.ob("C01.GUARD", wk, "weekday(n=0) raises ValueError before construction", len(wr) == 1 and src(wr[0].ast.exc).startswith("ValueError") and
           ("n == 0", True) in ctx.facts(wk).at(wr[0]) and all(("n == 0", False) in ctx.facts(wk).at(s) for s in sup), construct="weekday n == 0 guard")
    cb = prog.method(rr.qualname, "_rrule__construct_byset", "C01.GUARD") if "_rrule__construct_byset" in rr.methods else prog.method(rr.qualname, "__construct_byset", "C01.GUARD")
    ccfg = ctx.cfg(cb)
    cr = [n for n in ccfg.live_nodes() if n.kind == "stmt" and isinstance(n.ast, ast.Raise)]
    okc = len(cr) == 1 and src(cr[0].ast.exc).startswith("ValueError") and any(_emptiness(t, tv) for t, tv in ctx.facts(cb).at(cr[0]))
    ctx.ob("C01.GUARD", cb, "a same-level BY set with no reachable member raises ValueError", okc, construct="empty cset guard")
    inv = [n for n in cfg.live_nodes() if n.kind == "stmt" and isinstance(n.ast, ast.Raise)]
    # either spelling of "the search found nothing": a flag that stayed false, or the else clause of the searching for loop
    in_for_else = set()
    for lp_ in walk_local(it.node):
        if isinstance(lp_, ast.For) and lp_.orelse and any(isinstance(x, ast.Break) for b_ in lp_.body for x in ast.walk(b_)):
            for s_ in lp_.orelse:
                for x in ast.walk(s_):
                    in_for_else.add(id(x))

    def flag_false(r):
        return any((not tv) and re.match(r"^\w+$", t) for t, tv in facts.at(r))
    okv = len(inv) == 2 and all(src(r.ast.exc).startswith("ValueError") and (flag_false(r) or id(r.ast) in in_for_else) for r in inv)
    ctx.ob("C01.GUARD", it, "MINUTELY/SECONDLY rules whose BY filters can never be met raise ValueError instead of looping", okv, construct="not valid -> ValueError",
           detail=str([src(r.ast.exc)[:40] for r in inv]))

    # ---------------------------------------------------------------- C01.EXC
    from ..exc import check_escape
    check_escape(ctx, "C01.EXC", init, ("ValueError", "OverflowError"), min_functions=4, label="rrule()")

    # ---------------------------------------------------------------- C01.DEFAULTS
    want_d = {"bymonth = dtstart.month": "freq == YEARLY", "bymonthday = dtstart.day": None, "byweekday = dtstart.weekday()": "freq == WEEKLY"}
    for text, cond in want_d.items():
        ns = [n for n in icfg.live_nodes() if n.kind == "stmt" and src(n.ast) == text]
        ok = bool(ns) and all(("byweekno is None", True) in ifacts.at(n) and ("byeaster is None", True) in ifacts.at(n) and ("byyearday is None", True) in ifacts.at(n)
                              and (cond is None or (cond, True) in ifacts.at(n)) for n in ns)
        ctx.ob("C01.DEFAULTS", init, "`%s` is taken from the start only when no day selector was supplied%s" % (text, (" and " + cond) if cond else ""), ok,
               construct=text, detail="found %d" % len(ns), analysis="must-hold branch facts + FIELD same-field")
    for attr, fld, cond in (("_byhour", "hour", "freq < HOURLY"), ("_byminute", "minute", "freq < MINUTELY"), ("_bysecond", "second", "freq < SECONDLY")):
        ns = [n for n in icfg.live_nodes() if n.kind == "stmt" and isinstance(n.ast, ast.Assign) and src(n.ast.targets[0]) == "self." + attr
              and "dtstart." in src(n.ast.value) and not isinstance(n.ast.value, ast.Call)]
        ok = len(ns) == 1 and ("dtstart.%s" % fld) in src(ns[0].ast.value) and (cond, True) in ifacts.at(ns[0]) and (attr[1:] + " is None", True) in ifacts.at(ns[0])
        ctx.ob("C01.DEFAULTS", init, "self.%s defaults to the start's %s when %s and none was supplied" % (attr, fld, cond), ok,
               construct="default of self.%s" % attr, analysis="must-hold branch facts + FIELD same-field")
    ts = [n for n in walk_local(init.node) if isinstance(n, ast.For) and src(n.iter) in ("self._byhour", "self._byminute", "self._bysecond")]
    ctx.ob("C01.DEFAULTS", init, "the fixed timeset is the product byhour x byminute x bysecond", sorted(src(n.iter) for n in ts) == ["self._byhour", "self._byminute", "self._bysecond"],
           construct="timeset product loops")

    # ---------------------------------------------------------------- C01.UNIT
    def find_exprs(fnode, pred):
        return [x for x in ast.walk(fnode) if isinstance(x, ast.BinOp) and pred(x)]
    hms = find_exprs(it.node, lambda x: poly(x) == {("hour",): 3600, ("minute",): 60, ("second",): 1})
    ctx.ob("C01.UNIT", it, "second-of-day is hour*3600 + minute*60 + second", len(hms) >= 1, construct="hour*3600 + minute*60 + second", analysis="polynomial normal form")
    sd = find_exprs(it.node, lambda x: poly(x) == {(): 86399, ("hour",): -3600, ("minute",): -60, ("second",): -1})
    ctx.ob("C01.UNIT", it, "seconds left in the day are 86399 - second-of-day", len(sd) >= 1, construct="86399 - (...)", analysis="polynomial normal form")
    md = find_exprs(it.node, lambda x: poly(x) == {(): 1439, ("hour",): -60, ("minute",): -1})
    ctx.ob("C01.UNIT", it, "minutes left in the day are 1439 - (hour*60 + minute)", len(md) >= 1, construct="1439 - (hour*60 + minute)", analysis="polynomial normal form")
    rr_ = {src(n.targets[0]) + str(n.lineno): poly(n.value) for n in walk_local(it.node) if isinstance(n, ast.Assign) and src(n.targets[0]) == "rep_rate"}
    ctx.ob("C01.UNIT", it, "the repetition periods are 24*60 minutes and 24*3600 seconds", sorted(list(v.values())[0] for v in rr_.values()) == [1440, 86400],
           construct="rep_rate", detail=str([show(v) for v in rr_.values()]), analysis="polynomial normal form")
    wk7 = [x for x in ast.walk(it.node) if isinstance(x, ast.BinOp) and poly(x) == {("self._interval",): 7}]
    ctx.ob("C01.UNIT", it, "a weekly step is interval * 7 days", len(wk7) == 2, construct="self._interval * 7", analysis="polynomial normal form")
    # every division of a calendar field by a constant - divmod(X, K), X // K, X % K - uses that field's factor
    FACTOR = {"month": 12, "hour": 24, "minute": 60, "second": 60}
    dm = []
    for x in ast.walk(it.node):
        if isinstance(x, ast.Call) and src(x.func) == "divmod" and len(x.args) == 2 and isinstance(x.args[1], ast.Constant):
            num, k = x.args[0], x.args[1].value
        elif isinstance(x, ast.BinOp) and isinstance(x.op, (ast.FloorDiv, ast.Mod)) and isinstance(x.right, ast.Constant):
            num, k = x.left, x.right.value
        else:
            continue
        flds = sorted(set(y.id for y in ast.walk(num) if isinstance(y, ast.Name)) & set(FACTOR))
        if flds:
            dm.append((tuple(flds), k, src(x)))
    bad_dm = [t for f_, k, t in dm if len(f_) != 1 or FACTOR[f_[0]] != k]
    seen_dm = set(f_[0] for f_, k, t in dm if len(f_) == 1)
    ok_dm = not bad_dm and seen_dm == set(FACTOR)
    ctx.ob("C01.UNIT", it, "carries use the conversion factors 12 (months), 24 (hours), 60 (minutes, seconds) on the matching field",
           ok_dm, construct="divmod carries", detail="" if ok_dm else "wrong factor: %s; fields carried: %s" % (bad_dm, sorted(seen_dm)), analysis="UNIT")
    md_calls = [x for x in ast.walk(it.node) if isinstance(x, ast.Call) and src(x.func).endswith("__mod_distance")]
    okm = sorted((src(k.value) for c in md_calls for k in c.keywords if k.arg == "base")) == ["24", "60", "60"] and all(
        {k.arg: src(k.value) for k in c.keywords}.get("value") + "|" + {k.arg: src(k.value) for k in c.keywords}.get("byxxx") in
        ("hour|self._byhour", "minute|self._byminute", "second|self._bysecond") for c in md_calls)
    ctx.ob("C01.UNIT", it, "same-level BY searches pair each field with its own BY set and base (hour/24, minute/60, second/60)", okm, construct="__mod_distance calls",
           analysis="FIELD same-field")

    # ---------------------------------------------------------------- C01.ARGS
    from ..rules_common import check_call_arguments
    check_call_arguments(ctx, "C01.ARGS", "C01")
    from ..rules_common import check_effect_tables
    check_effect_tables(ctx, "C01")
    # regions of the two large functions, selected by what they mention
    from ..rules_common import check_region_table, statements_mentioning
    rb_ = prog.method("rrule._iterinfo", "rebuild", "C01.TABLE")
    check_region_table(ctx, "C01.TABLE", rb_, statements_mentioning({"_bynweekday", "lastmonth"}),
                       "the nth-weekday mask is rebuilt whenever the month or the year of the period changed, from the month ranges of the period", "rebuild: nth-weekday mask")
    check_region_table(ctx, "C01.TABLE", rb_, statements_mentioning({"wyearlen", "wnomask", "no1wkst"}),
                       "ISO week numbers: first week by the 4-day rule relative to WKST, week count from the year length + the offset of 1 January modulo 7, weeks "
                       "spilling over from / into the neighbouring years", "rebuild: week-number mask")
    check_region_table(ctx, "C01.TABLE", it, statements_mentioning({"bysetpos", "poslist"}),
                       "BYSETPOS selects the pos-th (from the end for negative pos) of the period's day x time candidates, skipping positions that do not exist",
                       "_iter: BYSETPOS selection")
    # the BYxxx normalisation blocks of rrule.__init__: each is the top-level `if <byxxx> is (not) None` of the constructor
    def by_block(param):
        def pick(fnode):
            out = []
            for st in fnode.body:
                if isinstance(st, ast.If) and isinstance(st.test, ast.Compare) and len(st.test.ops) == 1 and isinstance(st.test.ops[0], (ast.Is, ast.IsNot)) \
                        and isinstance(st.test.left, ast.Name) and st.test.left.id == param and isinstance(st.test.comparators[0], ast.Constant) \
                        and st.test.comparators[0].value is None:
                    out.append(st)
            return out
        return pick
    for by_ in ("bymonth", "byyearday", "byeaster", "bymonthday", "byweekno", "byhour", "byminute", "bysecond"):
        check_region_table(ctx, "C01.TABLE", init, by_block(by_), "the %s argument becomes the sorted tuple of its distinct members (a single integer a one-element tuple) "
                           "and is recorded for replace() / str(); no member is dropped or altered" % by_, "__init__: %s block" % by_)
    from ..rules_common import check_presence_tests, ARG_SCOPE
    check_presence_tests(ctx, "C01.PRESENCE", classes=ARG_SCOPE.get("C01", []))
    from ..rules_common import check_param_rebinding
    check_param_rebinding(ctx, "C01.PARAMS", classes=ARG_SCOPE.get("C01", []))


