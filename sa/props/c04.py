"""C04 - every tzinfo converts UTC to local time and back without loss."""
from .. import tz_rules as R

CLAIM = ("static analysis over the zone KINDS (not the instants): interface coverage through the MRO, input validation "
         "and fold-on-return of every fromutc, one resolver per class for offset/saving/abbreviation, half-open daylight "
         "interval comparators, fixed-zone bodies, aligned parallel caches: necessary conditions of C04; offsets at "
         "instants (transition tables, rule arithmetic, the tzfile wall-time heuristics) are NOT decided")
TECHNIQUE = "FIELD interface coverage over the MRO, CFG return coverage / dominance, call-graph sibling agreement, CMP comparator tables (ast only)"
EXPLANATION = (
    "C04.IFACE: for each of the 8 zone classes utcoffset/dst/tzname/fromutc/is_ambiguous resolve to in-package "
    "definitions. C04.VALID: every fromutc rejects non-datetimes (TypeError) and foreign-zone datetimes (ValueError) "
    "before arithmetic, by decorator or inline. C04.FOLD: every return of a variable-offset fromutc is enfold(wall, "
    "fold=...) (except the no-transition exit), with the documented wall/fold computation in each of the three "
    "implementations. C04.RESOLVER: utcoffset, dst and tzname of one class use the same period resolver and read the "
    "matching field. C04.HALFOPEN: daylight time is [start, end) in both hemisphere orders. C04.FIXED: tzutc/tzoffset "
    "bodies. C04.CACHE: the VTIMEZONE lookup cache keeps its two parallel lists aligned.")
ASSUMPTIONS = ["datetime.astimezone/replace as documented", "offsets at instants are NOT decided (properties.jsonl reports 458 failing real transitions for tzfile)"]


def run(ctx):
    R.check_iface(ctx, "C04.IFACE")
    R.check_valid(ctx, "C04.VALID")
    R.check_fold_on_return(ctx, "C04.FOLD")
    R.check_resolver(ctx, "C04.RESOLVER")
    R.check_halfopen(ctx, "C04.HALFOPEN")
    R.check_fixed(ctx, "C04.FIXED")
    R.check_parallel_eviction(ctx, "C04.CACHE")

    # ---------------------------------------------------------------- C04.DSTOFF
    R.check_walltime_loop(ctx, "C04.DSTOFF")

    # ---------------------------------------------------------------- C04.ARGS
    from ..rules_common import check_call_arguments
    check_call_arguments(ctx, "C04.ARGS", "C04")
    from ..rules_common import check_effect_tables
    check_effect_tables(ctx, "C04")
    from ..rules_common import check_presence_tests, ARG_SCOPE
    check_presence_tests(ctx, "C04.PRESENCE", classes=ARG_SCOPE.get("C04", []))
    from ..rules_common import check_param_rebinding
    check_param_rebinding(ctx, "C04.PARAMS", classes=ARG_SCOPE.get("C04", []))


