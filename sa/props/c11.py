"""C11 - cached recurrences behave like uncached ones under any interleaving.

Decided (structural necessary conditions): lock pairing on every exit, no yield
under the lock, no foreign release, cache state written only under the lock,
length published before every generator exit.
Not decided: linearizability of observed sequences under every schedule.
"""
import ast

from ..model import src, walk_local, AnalysisError
from .. import rules_lock
from ..rules_common import check_len_published
from ..cfg import ReachingDefs

CLAIM = ("static analysis (lock typestate over the CFG + who-may-write): necessary conditions of C11 - "
         "the cache lock is released on every path, never held across a yield, never released by a "
         "non-holder, the shared cache state is written only under it, every element drawn from the shared generator "
         "goes into the shared list, and a failed generator is replaced rather than read as exhausted")
EXPLANATION = (
    "For every function of dateutil.rrule that touches a `_thread.allocate_lock()` attribute a forward "
    "typestate analysis (unheld/held/unknown) runs over a statement-level CFG with exceptional edges and "
    "generator abandon edges. Obligations: state is 'unheld' at the normal exit, the exceptional exit and "
    "every yield (C11.PAIR, C11.NOYIELD); no release in a state other than 'held' (C11.FOREIGN); every write "
    "to _cache/_cache_complete/_cache_gen in iteration/query code happens in state 'held' (C11.SHARED); the "
    "invalidation routine that is exempt from C11.SHARED is reachable only from construction and rruleset "
    "mutators (C11.EXEMPT, call-graph check); every return of the generators publishes _len first (C11.LEN); every "
    "element drawn from the shared generator goes into the shared list in the same statement (C11.CONSERVE, def-use of "
    "the generator alias); a failure of the shared generator other than StopIteration is handled by replacing the "
    "generator and re-raising, never left to read as exhaustion (C11.GENFAIL, handler coverage of the draw sites). "
    "The schedule quantifier of C11 is replaced by a path quantifier over the CFG: a lock left held on ANY "
    "path is a deadlock for SOME schedule of two iterators.")
TECHNIQUE = "lock typestate dataflow over a statement-level CFG + who-may-write and call-graph checks, def-use of the generator alias (reaching definitions), exception-handler coverage of the draw sites (ast only)"
ASSUMPTIONS = [
    "acquire()/release() themselves do not raise when correctly paired",
    "any statement containing a call, subscript or arithmetic may raise; a yield may be abandoned (GeneratorExit)",
    "linearizability of the observed sequences is NOT decided here",
]

CACHE_ATTRS = {"_cache", "_cache_complete", "_cache_gen"}
ITER_FUNCS = ["__iter__", "_iter_cached", "__getitem__", "__contains__", "count", "before", "after",
              "xafter", "between"]


def run(ctx):
    prog = ctx.prog
    base = prog.cls("rrule.rrulebase", "C11")
    n = rules_lock.check_pairing(ctx, "C11", {"dateutil.rrule"}, yield_rule="C11.NOYIELD",
                                 foreign_rule="C11.FOREIGN")
    ctx.floor("C11.PAIR", n, 1, "functions of dateutil.rrule using a lock")
    ic = prog.func("rrule.rrulebase._iter_cached", "C11.PAIR")
    if not any(o.qualname == ic.qualname and o.rule in ("C11.PAIR", "C11.NOYIELD") for o in ctx.obs):
        raise AnalysisError("C11.PAIR", ic.qualname, "the cached iterator no longer acquires a lock: idiom not modelled")

    # C11.SHARED - writes of cache state only under the lock, in iteration / query code of the class family
    classes = [base] + prog.subclasses(base)
    n_w = 0
    checked = []
    for c in classes:
        for name, f in sorted(c.methods.items()):
            if name in ("__init__", "_invalidate_cache"):
                continue
            n_w += rules_lock.check_touch(ctx, "C11.SHARED", f, c.name, CACHE_ATTRS, kinds=("write",),
                                          why="iterators on other threads read it lock-free")
            checked.append(f.qualname)
    ctx.stat("functions_scanned_for_cache_writes", len(checked))
    ctx.floor("C11.SHARED", n_w, 3, "writes to _cache/_cache_complete/_cache_gen outside __init__/_invalidate_cache")

    # C11.EXEMPT - the exemption of _invalidate_cache is justified only if no iterator/query reaches it
    callers = []
    for f in prog.active_functions():
        for x in walk_local(f.node):
            if isinstance(x, ast.Call) and isinstance(x.func, ast.Attribute) and x.func.attr == "_invalidate_cache":
                callers.append(f)
    deco = prog.func("rrule._invalidates_cache", "C11.EXEMPT")
    allowed = {"dateutil.rrule.rrulebase.__init__"} | set(deco.qualname + "." + x.name for x in deco.node.body if isinstance(x, ast.FunctionDef))
    ctx.floor("C11.EXEMPT", len(callers), 1, "callers of _invalidate_cache")
    for f in callers:
        ctx.ob("C11.EXEMPT", f, "_invalidate_cache (exempt from C11.SHARED) is called only from construction "
               "and from the mutator decorator, never from iteration or queries",
               f.qualname in allowed, construct="call self._invalidate_cache() in %s" % f.name,
               detail="" if f.qualname in allowed else "new caller: cache state would be reset during iteration without the lock")

    # C11.TAIL - whoever observes completion drains the rest of the cache: the generator's normal exit is reached
    # only through the tail loop `while i < self._len`
    cfg = ctx.cfg(ic)
    # the tail loop: a loop whose test compares the cursor with the length of what was cached - the published length
    # `self._len`, or `len(<the iterator's own reference to the cache list>)`, which is the same number once the
    # generator is exhausted (C11.LEN / C11.SHARED) and stays right for an iterator overtaken by an invalidation
    rd_ic = ReachingDefs(cfg, params=ic.params)

    def cache_local(name, at):
        ds = rd_ic.at(at, name)
        return bool(ds) and all(i and isinstance(cfg.nodes[i].ast, ast.Assign) and src(cfg.nodes[i].ast.value) == "self._cache" for i in ds)

    def length_operand(e, at):
        if src(e) == "self._len":
            return True
        return isinstance(e, ast.Call) and src(e.func) == "len" and len(e.args) == 1 and (
            src(e.args[0]) == "self._cache" or (isinstance(e.args[0], ast.Name) and cache_local(e.args[0].id, at)))
    from .c10 import norm_cmp
    # the filling loop also compares the cursor with len(cache) (`if i == len(cache)`): the tail loop is the *loop* whose
    # own test is such a comparison
    tail = []
    for n in cfg.live_nodes():
        if n.kind == "branch" and n.loop is not None and isinstance(n.loop, ast.While) and n.ast is n.loop.test:
            nc = norm_cmp(n.ast)
            if nc and isinstance(n.ast, ast.Compare) and (length_operand(n.ast.left, n) or length_operand(n.ast.comparators[0], n)):
                tail.append(n)
    if len(tail) != 1:
        raise AnalysisError("C11.TAIL", ic.qualname, "tail loop over the cached length not found (%d candidates)" % len(tail))
    path = cfg.path_avoiding(cfg.entry, [cfg.exit], avoid_nodes=tail)
    ctx.ob("C11.TAIL", ic, "every normal exit of the cached iterator passes through the tail loop that yields the "
           "elements cached by other iterators (cache[i] up to the cached length)", path is None, construct="exit only via the tail loop over the cached length",
           detail="" if path is None else "path to exit bypassing the tail loop: %s" % " -> ".join("L%d" % p.lineno for p in path if p.lineno),
           analysis="CFG must-pass-through")
    from ..rules_lock import stmt_text
    tl = tail[0]
    body_y = [n for n in cfg.reach([tl], labels=None) if n.kind == "stmt" and isinstance(n.ast, ast.Expr) and isinstance(n.ast.value, ast.Yield)]
    nc = norm_cmp(tl.ast)
    lhs_len = length_operand(tl.ast.left, tl)
    # cursor < length   (or length > cursor)
    ok = nc is not None and ((nc[0] == "Lt" and not lhs_len) or (nc[0] == "Gt" and lhs_len))
    ctx.ob("C11.TAIL", ic, "the tail loop runs while the cursor is below the cached length", ok, construct="tail loop test")

    # C11.DRAINED - once the shared generator is exhausted no further element is taken from the cache by the filling loop
    handlers = [n for n in cfg.live_nodes() if n.kind == "handler" and n.ast.type is not None and "StopIteration" in src(n.ast.type)]
    fill_yields = [n for n in cfg.live_nodes() if n.kind == "stmt" and isinstance(n.ast, ast.Expr) and isinstance(n.ast.value, ast.Yield)
                   and n not in cfg.reach([tl], include_start=False) or False]
    fill_yields = [n for n in cfg.live_nodes() if n.kind == "stmt" and isinstance(n.ast, ast.Expr) and isinstance(n.ast.value, ast.Yield) and cfg.path_avoiding(n, [tl], avoid_nodes=[]) is not None
                   and n not in body_y]
    bad_h = None
    for h in handlers:
        for y in fill_yields:
            pth = cfg.path_avoiding(h, [y], avoid_nodes=[tl])
            if pth is not None:
                bad_h = (h, y, pth)
    ctx.ob("C11.DRAINED", ic, "after the shared generator raised StopIteration the filling loop is left before its `yield cache[i]` (the element does not exist)",
           bool(handlers) and bad_h is None, construct="StopIteration handler leaves the filling loop",
           detail="" if bad_h is None else "path from the handler to `%s`: %s" % (stmt_text(bad_h[1]), " -> ".join("L%d" % x.lineno for x in bad_h[2] if x.lineno)),
           analysis="CFG path query")
    # C11.CONSERVE - every element drawn from the shared generator goes into the shared list in the same statement
    # (an element parked anywhere else - a local look-ahead buffer, a per-iterator variable - is invisible to the other
    # iterators, which then skip it or see it out of order)
    def gen_alias(e, at):
        if src(e) == "self._cache_gen":
            return True
        if isinstance(e, ast.Name):
            ds = rd_ic.at(at, e.id)
            srcs = [src(cfg.nodes[i].ast.value) for i in ds if i and isinstance(cfg.nodes[i].ast, ast.Assign)]
            return bool(ds) and len(srcs) == len([i for i in ds if i]) and "self._cache_gen" in srcs and all(
                s in ("self._cache_gen", "None") for s in srcs)
        return False

    def is_cache(e, at):
        return src(e) == "self._cache" or (isinstance(e, ast.Name) and cache_local(e.id, at))
    draws = []
    for n in cfg.live_nodes():
        root = n.ast if n.kind in ("stmt", "branch") else None
        if n.kind == "stmt" and isinstance(n.ast, (ast.For,)):
            root = None
        if root is None:
            # loop heads: a `for x in <expr mentioning the generator>` draws too
            loop = getattr(n, "loop", None)
            if n.kind == "branch" and isinstance(loop, ast.For) and n.ast is loop.iter:
                root = loop.iter
            else:
                continue
        parents = {}
        for p in ast.walk(root):
            for ch in ast.iter_child_nodes(p):
                parents[ch] = p
        for x in ast.walk(root):
            if not (isinstance(x, (ast.Name, ast.Attribute)) and isinstance(getattr(x, "ctx", None), ast.Load) and gen_alias(x, n)):
                continue
            if isinstance(x, ast.Attribute) and isinstance(parents.get(x), ast.Attribute):
                continue
            p = parents.get(x)
            # uses that draw nothing: the loop/if test on the alias itself, `is None` comparisons, plain copies
            if p is None or isinstance(p, (ast.Compare, ast.BoolOp, ast.UnaryOp)) or (isinstance(p, ast.Assign) and p.value is x):
                continue
            # a draw: must sit inside the argument of <cache>.append / <cache>.extend
            q, ok = x, False
            while q in parents:
                q = parents[q]
                if (isinstance(q, ast.Call) and isinstance(q.func, ast.Attribute) and q.func.attr in ("append", "extend")
                        and is_cache(q.func.value, n)):
                    ok = True
                    break
            loop = getattr(n, "loop", None)
            if not ok and isinstance(loop, ast.For) and root is loop.iter and loop.body:
                b0 = loop.body[0]
                ok = (isinstance(b0, ast.Expr) and isinstance(b0.value, ast.Call) and isinstance(b0.value.func, ast.Attribute)
                      and b0.value.func.attr == "append" and is_cache(b0.value.func.value, n)
                      and len(b0.value.args) == 1 and src(b0.value.args[0]) == src(loop.target))
            draws.append((n, x, ok))
    ctx.floor("C11.CONSERVE", len(draws), 1, "draws from the shared generator in _iter_cached")
    for n, x, ok in draws:
        ctx.ob("C11.CONSERVE", ic, "an element drawn from the shared generator is appended to the shared cache list in the same statement "
               "(nothing is parked in per-iterator storage where other iterators cannot see it)", ok,
               construct="draw: %s" % stmt_text(n), detail="" if ok else "the drawn element does not go to <cache>.append/extend",
               analysis="def-use of the generator alias (reaching definitions)")

    # C11.GENFAIL - a shared generator that raised anything but StopIteration is finished for good: its next draw raises
    # StopIteration, which the filling loop reads as "rule exhausted" and publishes an empty / truncated complete cache,
    # where the uncached rule raises the same error again.  Every draw therefore sits in a try whose handlers include one
    # for general exceptions that replaces the shared generator (or invalidates the cache) before re-raising.
    pmap = {}
    for p in ast.walk(ic.node):
        for ch in ast.iter_child_nodes(p):
            pmap[ch] = p
    n_gf = 0
    seen_try = set()
    for n, x, ok_ in draws:
        q, tr = x, None
        while q in pmap:
            ch, q = q, pmap[q]
            if isinstance(q, ast.Try) and ch in q.body:
                if any(h.type is None or src(h.type).split(".")[-1] in ("Exception", "BaseException") for h in q.handlers) or tr is None:
                    tr = q
                if any(h.type is None or src(h.type).split(".")[-1] in ("Exception", "BaseException") for h in q.handlers):
                    break
        key = id(tr) if tr is not None else id(n)
        if key in seen_try:
            continue
        seen_try.add(key)
        n_gf += 1
        ok = False
        if tr is not None:
            for h in tr.handlers:
                if h.type is None or src(h.type).split(".")[-1] in ("Exception", "BaseException"):
                    resets = any((isinstance(y, ast.Assign) and any(src(t) == "self._cache_gen" for t in y.targets)
                                  and not (isinstance(y.value, ast.Constant) and y.value.value is None))
                                 or (isinstance(y, ast.Call) and src(y.func) == "self._invalidate_cache") for b in h.body for y in ast.walk(b))
                    reraises = any(isinstance(y, ast.Raise) for b in h.body for y in ast.walk(b))
                    ok = ok or (resets and reraises)
        ctx.ob("C11.GENFAIL", ic, "when the shared generator fails with an error other than StopIteration the failure is not later mistaken for "
               "exhaustion: a handler for general exceptions around the draw replaces the dead generator (or invalidates the cache) and re-raises",
               ok, construct="failure of the shared generator in _iter_cached",
               detail="" if ok else "no `except Exception` handler around `%s` that resets self._cache_gen: the next iteration of a cached rule whose _iter raised "
               "returns an empty/truncated list and count() None, the uncached rule raises again" % stmt_text(n),
               analysis="exception-handler coverage of the draw sites (ast)")
    ctx.floor("C11.GENFAIL", n_gf, 1, "try regions around draws from the shared generator")

    # C11.OWNLOCK - the cache lock belongs to the instance
    init = prog.method(base.qualname, "__init__", "C11.OWNLOCK")
    from ..lock import find_locks
    locks = [(c_, a_, f_, n_) for c_, a_, f_, n_ in find_locks(prog) if c_ is not None and c_.qualname == base.qualname]
    per_inst = [1 for c_, a_, f_, n_ in locks if f_.qualname == init.qualname]
    class_level = [k for k, v in base.assigns.items() if isinstance(v, ast.Call) and src(v.func).split(".")[-1] in ("allocate_lock", "Lock", "RLock")]
    ctx.ob("C11.OWNLOCK", base, "every rule / set has its own cache lock, created in __init__ (a lock shared by all instances would be taken twice when a cached set "
           "pulls from a cached rule)", bool(per_inst) and not class_level, construct="self._cache_lock created per instance",
           detail="" if (per_inst and not class_level) else "class-level lock(s): %s; created in __init__: %d" % (class_level, len(per_inst)), analysis="who-creates the lock")

    # C11.LEN - the tail loop of cached iterators reads _len, which every generator exit must have published
    check_len_published(ctx, "C11.LEN")

    # ---------------------------------------------------------------- C11.ARGS / C11.PRESENCE
    from ..rules_common import check_call_arguments, check_presence_tests, ARG_SCOPE
    check_call_arguments(ctx, "C11.ARGS", "C11")
    from ..rules_common import check_effect_tables
    check_effect_tables(ctx, "C11")
    check_presence_tests(ctx, "C11.PRESENCE", classes=ARG_SCOPE.get("C11", []))
    from ..rules_common import check_param_rebinding
    check_param_rebinding(ctx, "C11.PARAMS", classes=ARG_SCOPE.get("C11", []))


