"""C15 - parse() options: default fill-in, time-zone resolution and fuzzy modes."""
import ast

from ..model import src, walk_local, AnalysisError
from ..cfg import ReachingDefs
from .. import unit
from ..rules_lock import stmt_text

CLAIM = ("static analysis (branch-order table of the zone cascade, dominance of the ignoretz test, definition shapes of "
         "the month-end clip, fuzzy-monotonicity of every branch that tests the fuzzy flag, acceptance guard of the "
         "AM/PM flag, unit/sign normal form of numeric offsets): necessary conditions of C15; the results of default "
         "fill-in and zone resolution for all texts are NOT decided")
TECHNIQUE = "CFG branch-order tables, must-hold branch facts, reaching definitions, fuzzy-dependence classification of branches, polynomial normal forms (ast only)"
EXPLANATION = (
    "C15.CASCADE: the if/elif chain of parser._build_tzaware tests, in this order, tzinfos (callable or containing the "
    "name) -> local zone names -> zero offset (tz.UTC) -> non-zero offset (tz.tzoffset(name, offset)) -> nothing "
    "(naive) -> name only (UnknownTimezoneWarning, naive); _build_tzinfo accepts tzinfo/None, text (tz.tzstr) and int "
    "(tz.tzoffset(name, value)) and raises TypeError otherwise; validate() turns Z/z and nameless zero offsets into "
    "UTC. C15.IGNORETZ: _build_tzaware is reached only under `not ignoretz`. C15.CLIP: the clip region runs exactly "
    "when the text has no day; year, month and day compared are each `default.X if res.X is None else res.X`; the "
    "day is replaced by the month length only when larger; the weekday shift applies only when a weekday but no day "
    "was parsed. C15.FUZZY: fuzzy_with_tokens implies fuzzy; every branch whose test mentions `fuzzy` either only "
    "records a skipped token / sets the flag, or its non-fuzzy alternative is a raise - so text accepted without "
    "fuzzy takes the same path with fuzzy. C15.AMPM: the AM/PM flag is recorded only for an accepted marker. "
    "C15.TOKENS: skipped positions are scan cursors, sorted and merged by adjacency. C15.OFFSET: numeric offsets are "
    "sign*(3600*h + 60*m).")
ASSUMPTIONS = ["tz.tzlocal / time.tzname reflect the process zone", "results for all partial texts, defaults and zone names: NOT decided"]

P = "parser._parser.parser."


def chain_tests(if_node):
    out = []
    n = if_node
    while True:
        out.append(n)
        if len(n.orelse) == 1 and isinstance(n.orelse[0], ast.If):
            n = n.orelse[0]
        else:
            break
    return out


def run(ctx):
    prog = ctx.prog
    bt = prog.func(P + "_build_tzaware", "C15.CASCADE")
    # ---------------------------------------------------------------- C15.CASCADE
    ifs = [s for s in bt.node.body if isinstance(s, ast.If)]
    if len(ifs) != 1:
        raise AnalysisError("C15.CASCADE", bt.qualname, "zone cascade if/elif chain not found")
    chain = chain_tests(ifs[0])
    def norm(t):
        return t.replace(" ", "").replace("(", "").replace(")", "")
    tests = [norm(src(c.test)) for c in chain]
    want = [norm(w) for w in ["callable(tzinfos) or (tzinfos and res.tzname in tzinfos)", "res.tzname and res.tzname in time.tzname", "res.tzoffset == 0", "res.tzoffset",
                              "not res.tzname and not res.tzoffset", "res.tzname"]]
    labels = ["tzinfos mapping/callable", "local zone names", "zero offset", "non-zero offset", "no zone information", "unresolvable name"]
    for i, (w, lab) in enumerate(zip(want, labels)):
        got = tests[i] if i < len(tests) else None
        ctx.ob("C15.CASCADE", bt, "step %d of the documented zone resolution order is: %s" % (i + 1, lab), got == w, construct="cascade step %d: %s" % (i + 1, lab),
               detail="" if got == w else "found `%s`" % (src(chain[i].test) if i < len(chain) else None), analysis="branch-order table")
    ctx.ob("C15.CASCADE", bt, "the cascade has exactly these six steps and no final else", len(chain) == 6 and not chain[-1].orelse, construct="cascade length", detail="%d steps" % len(chain))
    acts = [src(c.body).replace(" ", "") for c in chain]
    checks = [
        (0, "self._build_tzinfo(tzinfos,res.tzname,res.tzoffset)" in acts[0] if acts else False, "tzinfos step builds the zone from (name, offset) through _build_tzinfo"),
        (1, len(acts) > 1 and "naive.replace(tzinfo=tz.tzlocal())" in acts[1], "a local zone name attaches tz.tzlocal()"),
        (2, len(acts) > 2 and acts[2] == "aware=naive.replace(tzinfo=tz.UTC)", "a zero offset is tz.UTC"),
        (3, len(acts) > 3 and acts[3] == "aware=naive.replace(tzinfo=tz.tzoffset(res.tzname,res.tzoffset))", "a non-zero offset is tz.tzoffset(name, offset)"),
        (4, len(acts) > 4 and acts[4] == "aware=naive", "no zone information leaves the result naive"),
        (5, len(acts) > 5 and "UnknownTimezoneWarning" in acts[5] and acts[5].endswith("aware=naive"), "an unresolvable name warns and leaves the result naive"),
    ]
    for i, ok, what in checks:
        ctx.ob("C15.CASCADE", bt, what, bool(ok), construct="cascade action %d" % (i + 1), analysis="FIELD role")
    bi = prog.func(P + "_build_tzinfo", "C15.CASCADE")
    ifs2 = [s for s in bi.node.body if isinstance(s, ast.If) and "isinstance" in src(s.test)]
    kinds = [src(c.test).replace(" ", "") for c in chain_tests(ifs2[0])] if ifs2 else []
    acts2 = [src(c.body).replace(" ", "") for c in chain_tests(ifs2[0])] if ifs2 else []
    okk = kinds == ["isinstance(tzdata,datetime.tzinfo)ortzdataisNone", "isinstance(tzdata,text_type)", "isinstance(tzdata,integer_types)"] and \
        acts2 == ["tzinfo=tzdata", "tzinfo=tz.tzstr(tzdata)", "tzinfo=tz.tzoffset(tzname,tzdata)"]
    ctx.ob("C15.CASCADE", bi, "a tzinfos value may be a tzinfo (or None), a TZ string or an integer offset in seconds", okk, construct="_build_tzinfo kinds", detail=str(kinds))
    last = chain_tests(ifs2[0])[-1].orelse if ifs2 else []
    ctx.ob("C15.CASCADE", bi, "any other tzinfos value raises TypeError", len(last) == 1 and isinstance(last[0], ast.Raise) and src(last[0].exc).startswith("TypeError"), construct="_build_tzinfo else")
    look = [src(n.value).replace(" ", "") for n in walk_local(bi.node) if isinstance(n, ast.Assign) and src(n.targets[0]) == "tzdata"]
    ctx.ob("C15.CASCADE", bi, "a callable tzinfos receives (name, offset); a mapping is looked up by name", sorted(look) == ["tzinfos(tzname,tzoffset)", "tzinfos.get(tzname)"], construct="tzinfos lookup", detail=str(look))
    va = prog.func("parser._parser.parserinfo.validate", "C15.CASCADE")
    vcfg = ctx.cfg(va)
    vf = ctx.facts(va)
    utc = [n for n in vcfg.live_nodes() if n.kind == "stmt" and src(n.ast) == "res.tzname = 'UTC'"]
    oku = len(utc) == 1 and any(tv and norm(t) == norm("res.tzoffset == 0 and not res.tzname or res.tzname == 'Z' or res.tzname == 'z'") for t, tv in vf.at(utc[0]))
    ctx.ob("C15.CASCADE", va, "'Z'/'z' and a nameless zero offset are normalised to UTC", oku, construct="validate(): UTC designators")
    z2 = [n for n in vcfg.live_nodes() if n.kind == "stmt" and src(n.ast) == "res.tzoffset = 0" and n not in vcfg.reach(utc)]
    okz = any(any(tv and "self.utczone(res.tzname)" in t for t, tv in vf.at(n)) for n in vcfg.live_nodes() if n.kind == "stmt" and src(n.ast) == "res.tzoffset = 0")
    ctx.ob("C15.CASCADE", va, "a UTC-designator name with a non-zero offset forces offset zero", okz, construct="validate(): UTC name wins")
    at = prog.func(P + "_assign_tzname", "C15.CASCADE")
    ctx.ob("C15.CASCADE", at, "an ambiguous local time whose abbreviation matches only the second occurrence gets fold=1",
           "tz.enfold(dt, fold=1)" in src(at.node) and "new_dt.tzname() == tzname" in src(at.node) and "dt.tzname() != tzname" in src(at.node), construct="_assign_tzname body")

    # ---------------------------------------------------------------- C15.IGNORETZ
    pr = prog.func(P + "parse", "C15.IGNORETZ")
    pcfg = ctx.cfg(pr)
    pf = ctx.facts(pr)
    calls = [n for n in pcfg.live_nodes() if n.kind == "stmt" and "self._build_tzaware(" in src(n.ast)]
    ctx.ob("C15.IGNORETZ", pr, "time-zone attachment happens only when ignoretz is false", len(calls) == 1 and ("ignoretz", False) in pf.at(calls[0]), construct="ret = self._build_tzaware(ret, res, tzinfos)",
           analysis="must-hold branch facts")
    ctx.ob("C15.IGNORETZ", pr, "with ignoretz the naive wall time is returned unchanged", bool(calls) and src(calls[0].ast.value).replace(" ", "") == "self._build_tzaware(ret,res,tzinfos)" and
           any(n.kind == "stmt" and src(n.ast) == "ret = self._build_naive(res, default)" for n in pcfg.live_nodes()), construct="naive result feeds the zone step")
    fw = [n for n in pcfg.live_nodes() if n.kind == "stmt" and isinstance(n.ast, ast.Return) and src(n.ast.value).replace(" ", "") == "(ret,skipped_tokens)"]
    ctx.ob("C15.IGNORETZ", pr, "fuzzy_with_tokens returns the same datetime together with the skipped text", len(fw) == 1 and any(tv and "fuzzy_with_tokens" in t for t, tv in pf.at(fw[0])),
           construct="return ret, skipped_tokens")

    # ---------------------------------------------------------------- C15.CLIP
    bn = prog.func(P + "_build_naive", "C15.CLIP")
    ncfg = ctx.cfg(bn)
    nf = ctx.facts(bn)
    clip = [n for n in ncfg.live_nodes() if n.kind == "stmt" and isinstance(n.ast, ast.Assign) and src(n.ast.targets[0]) == "repl['day']"]
    if len(clip) != 1:
        raise AnalysisError("C15.CLIP", bn.qualname, "month-end clip assignment not found")
    fs = nf.at(clip[0])
    guards = sorted(t for t, tv in fs if tv and "repl" in t)
    ctx.ob("C15.CLIP", bn, "the clip is considered exactly when the text supplied no day (whatever else it supplied)", guards == ["'day' not in repl"], construct="clip guard",
           detail="" if guards == ["'day' not in repl"] else "guard conjuncts: %s" % guards, analysis="must-hold branch facts")
    rd = ReachingDefs(ncfg, params=bn.params)
    for name, fld in (("cyear", "year"), ("cmonth", "month"), ("cday", "day")):
        defs = [ncfg.nodes[d] for d in rd.at(clip[0], name) if d]
        want_src = "default.%s if res.%s is None else res.%s" % (fld, fld, fld)
        alt = "res.%s if res.%s is not None else default.%s" % (fld, fld, fld)
        ok = len(defs) == 1 and src(defs[0].ast.value) in (want_src, alt)
        ctx.ob("C15.CLIP", bn, "the %s used for clipping is the parsed one if present, else the default's" % fld, ok, construct="%s definition" % name,
               detail="" if ok else str([src(d.ast) for d in defs]), analysis="reaching definitions + FIELD same-field")
    okc = src(clip[0].ast.value).replace(" ", "") == "monthrange(cyear,cmonth)[1]" and ("cday > monthrange(cyear, cmonth)[1]", True) in fs
    ctx.ob("C15.CLIP", bn, "the day becomes the last day of the resulting month only when the default day exceeds it", okc, construct="clip value and test")
    wk = [n for n in ncfg.live_nodes() if n.kind == "stmt" and "relativedelta.relativedelta(weekday=res.weekday)" in src(n.ast)]
    okw = len(wk) == 1 and ("res.weekday is not None", True) in nf.at(wk[0]) and ("res.day", False) in nf.at(wk[0]) and src(wk[0].ast.value).replace(" ", "").startswith("naive+")
    ctx.ob("C15.CLIP", bn, "a bare weekday name moves the default forward to that weekday, only when no day was parsed", okw, construct="weekday shift")
    rep = [n for n in ncfg.live_nodes() if n.kind == "stmt" and src(n.ast) == "naive = default.replace(**repl)"]
    ctx.ob("C15.CLIP", bn, "the clip happens before the default is replaced", len(rep) == 1 and ncfg.path_avoiding(clip[0], rep, avoid_nodes=[]) is not None and rep[0] not in ncfg.reach([n for n in wk]), construct="order clip -> replace -> weekday")

    # ---------------------------------------------------------------- C15.FUZZY / C15.AMPM
    pp = prog.func(P + "_parse", "C15.FUZZY")
    cfg = ctx.cfg(pp)
    facts = ctx.facts(pp)
    fwt = [n for n in cfg.live_nodes() if n.kind == "stmt" and src(n.ast) == "fuzzy = True"]
    ctx.ob("C15.FUZZY", pp, "fuzzy_with_tokens implies fuzzy", len(fwt) == 1 and ("fuzzy_with_tokens", True) in facts.at(fwt[0]) and cfg.dominates(fwt, [n for n in cfg.live_nodes() if n.kind == "branch" and isinstance(n.loop, ast.While)][0]) is not None,
           construct="if fuzzy_with_tokens: fuzzy = True")
    n_br = 0
    for fq in (P + "_parse", P + "_parse_numeric_token", P + "_ampm_valid"):
        f = prog.func(fq, "C15.FUZZY")
        fcfg = ctx.cfg(f)
        for b in fcfg.live_nodes():
            if b.kind != "branch" or b.loop is not None:
                continue
            names = [x.id for x in ast.walk(b.ast) if isinstance(x, ast.Name)]
            if "fuzzy" not in names or src(b.ast) == "fuzzy_with_tokens":
                continue
            n_br += 1
            # which edge is the fuzzy one?  evaluate the test with fuzzy=True/False where decidable
            t_s = [s for s, lab in b.succ if lab == "true"]
            f_s = [s for s, lab in b.succ if lab == "false"]
            negated = _fuzzy_negated(b.ast)
            fuzzy_edge, plain_edge = (f_s, t_s) if negated else (t_s, f_s)
            plain_raises = bool(plain_edge) and all(s.kind == "stmt" and isinstance(s.ast, ast.Raise) for s in plain_edge)
            # effects on the fuzzy edge until the branch's join
            body = _region(fcfg, fuzzy_edge, b)
            harmless = all(_harmless(n) for n in body)
            ok = plain_raises or harmless
            ctx.ob("C15.FUZZY", f, "a branch that tests `fuzzy` only skips tokens, or its non-fuzzy alternative rejects the text - so a text accepted without "
                   "fuzzy parses identically with fuzzy", ok, construct="%s: %s" % (f.name, src(b.ast)),
                   detail="" if ok else "with fuzzy this branch does `%s` while without fuzzy the parse continues: an accepted non-fuzzy parse can change" % "; ".join(stmt_text(n) for n in body if not _harmless(n)),
                   analysis="dependence classification of fuzzy-tested branches")
    ctx.floor("C15.FUZZY", n_br, 6, "branches testing the fuzzy flag")
    am = [n for n in cfg.live_nodes() if n.kind == "stmt" and src(n.ast) == "res.ampm = value"]
    ctx.ob("C15.AMPM", pp, "the AM/PM flag is recorded only for a marker that was accepted (a rejected fuzzy filler word must not block the real marker)",
           len(am) == 1 and ("val_is_ampm", True) in facts.at(am[0]), construct="res.ampm = value", detail="" if (len(am) == 1 and ("val_is_ampm", True) in facts.at(am[0])) else
           "facts: %s" % (sorted(t for t, tv in facts.at(am[0]) if tv)[:6] if am else "not found"), analysis="must-hold branch facts")
    hr = [n for n in cfg.live_nodes() if n.kind == "stmt" and src(n.ast) == "res.hour = self._adjust_ampm(res.hour, value)"]
    ctx.ob("C15.AMPM", pp, "the hour is adjusted only for an accepted marker", len(hr) == 1 and ("val_is_ampm", True) in facts.at(hr[0]), construct="res.hour = self._adjust_ampm(res.hour, value)")

    # ---------------------------------------------------------------- C15.TOKENS
    rc = prog.func(P + "_recombine_skipped", "C15.TOKENS")
    loops = [n for n in walk_local(rc.node) if isinstance(n, ast.For)]
    ctx.ob("C15.TOKENS", rc, "skipped tokens are emitted in scan order, adjacent ones merged", len(loops) == 1 and src(loops[0].iter).replace(" ", "") == "enumerate(sorted(skipped_idxs))" and
           "skipped_tokens[-1] = skipped_tokens[-1] + tokens[idx]" in src(rc.node) and "skipped_tokens.append(tokens[idx])" in src(rc.node), construct="_recombine_skipped body")
    rt = [n for n in cfg.live_nodes() if n.kind == "stmt" and isinstance(n.ast, ast.Return) and "tuple(skipped_tokens)" in src(n.ast)]
    ctx.ob("C15.TOKENS", pp, "the skipped text is returned only for fuzzy_with_tokens", len(rt) == 1 and ("fuzzy_with_tokens", True) in facts.at(rt[0]), construct="return res, tuple(skipped_tokens)")

    # ---------------------------------------------------------------- C15.OFFSET
    n_sites = unit.check_function(ctx, "C15.OFFSET", pp)
    ctx.floor("C15.OFFSET", n_sites, 1, "offset arithmetic in _parse")


def _fuzzy_negated(test):
    """True when the branch's TRUE edge is the non-fuzzy one (`not fuzzy`, `not (x or fuzzy)`)."""
    if isinstance(test, ast.UnaryOp) and isinstance(test.op, ast.Not):
        return not _fuzzy_negated(test.operand)
    return False


def _region(cfg, starts, branch):
    """Nodes executed on the given edge before control re-joins the other edge of `branch`."""
    other = [s for s, lab in branch.succ if s not in starts and lab in ("true", "false")]
    other_reach = set(n.id for n in cfg.reach(other, include_start=True))
    out = []
    seen = set()
    stack = list(starts)
    while stack:
        n = stack.pop()
        if n.id in seen or n.id in other_reach:
            continue
        seen.add(n.id)
        out.append(n)
        for t, lab in n.succ:
            if lab != "exc":
                stack.append(t)
    return out


def _harmless(n):
    if n.kind in ("join", "exit", "raise", "branch"):
        return n.kind != "branch" or True
    if n.kind != "stmt" or n.ast is None:
        return True
    t = src(n.ast).replace(" ", "")
    return t.startswith("skipped_idxs.append(") or t == "fuzzy=True" or isinstance(n.ast, (ast.Pass, ast.Raise, ast.Continue, ast.Break))
