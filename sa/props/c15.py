"""C15 - parse() options: default fill-in, time-zone resolution and fuzzy modes."""
import ast

from ..model import src, walk_local, AnalysisError
from ..cfg import ReachingDefs
from .. import unit, summ
from ..rules_lock import stmt_text

CLAIM = ("static analysis (branch-order table of the zone cascade, dominance of the ignoretz test, definition shapes of "
         "the month-end clip, fuzzy-monotonicity of every branch that tests the fuzzy flag, acceptance guard of the "
         "AM/PM flag, unit/sign normal form of numeric offsets): necessary conditions of C15; the results of default "
         "fill-in and zone resolution for all texts are NOT decided")
TECHNIQUE = "CFG branch-order tables, must-hold branch facts, reaching definitions, fuzzy-dependence classification of branches, polynomial normal forms (ast only)"
EXPLANATION = (
    "C15.CASCADE: the if/elif chain of parser._build_tzaware tests, in this order, tzinfos (callable or containing the "
    "name) -> local zone names -> zero offset (tz.UTC) -> non-zero offset (tz.tzoffset(name, offset)) -> nothing "
    "(naive) -> name only (UnknownTimezoneWarning, naive); _build_tzinfo accepts tzinfo/None, text (tz.tzstr) and int "
    "(tz.tzoffset(name, value)) and raises TypeError otherwise; validate() turns Z/z and nameless zero offsets into "
    "UTC. C15.IGNORETZ: _build_tzaware is reached only under `not ignoretz`. C15.CLIP: the clip region runs exactly "
    "when the text has no day; year, month and day compared are each `default.X if res.X is None else res.X`; the "
    "day is replaced by the month length only when larger; the weekday shift applies only when a weekday but no day "
    "was parsed. C15.FUZZY: fuzzy_with_tokens implies fuzzy; every branch whose test mentions `fuzzy` either only "
    "records a skipped token / sets the flag, or its non-fuzzy alternative is a raise - so text accepted without "
    "fuzzy takes the same path with fuzzy. C15.AMPM: the AM/PM flag is recorded only for an accepted marker. "
    "C15.TOKENS: skipped positions are scan cursors, sorted and merged by adjacency. C15.OFFSET: numeric offsets are "
    "sign*(3600*h + 60*m).")
ASSUMPTIONS = ["tz.tzlocal / time.tzname reflect the process zone", "results for all partial texts, defaults and zone names: NOT decided"]

P = "parser._parser.parser."


def chain_tests(if_node):
    out = []
    n = if_node
    while True:
        out.append(n)
        if len(n.orelse) == 1 and isinstance(n.orelse[0], ast.If):
            n = n.orelse[0]
        else:
            break
    return out


def run(ctx):
    prog = ctx.prog
    bt = prog.func(P + "_build_tzaware", "C15.CASCADE")
    # ---------------------------------------------------------------- C15.CASCADE
    # each function's guarded normal form (branch atoms -> returned value) is compared with the documented table
    summ.check_ref(ctx, "C15.CASCADE", bt, "zone resolution follows the documented order: tzinfos (callable, or mapping containing the name) -> local "
                   "zone names (tz.tzlocal(), UTC when the name is a UTC designator the local zone does not report) -> zero offset (tz.UTC) -> non-zero "
                   "offset (tz.tzoffset(name, offset)) -> nothing (naive) -> name only (naive)", """
        if callable(tzinfos) or (tzinfos and res.tzname in tzinfos):
            tzinfo = self._build_tzinfo(tzinfos, res.tzname, res.tzoffset)
            aware = naive.replace(tzinfo=tzinfo)
            aware = self._assign_tzname(aware, res.tzname)
        elif res.tzname and res.tzname in time.tzname:
            aware = naive.replace(tzinfo=tz.tzlocal())
            aware = self._assign_tzname(aware, res.tzname)
            if aware.tzname() != res.tzname and res.tzname in self.info.UTCZONE:
                aware = aware.replace(tzinfo=tz.UTC)
        elif res.tzoffset == 0:
            aware = naive.replace(tzinfo=tz.UTC)
        elif res.tzoffset:
            aware = naive.replace(tzinfo=tz.tzoffset(res.tzname, res.tzoffset))
        elif not res.tzname and not res.tzoffset:
            aware = naive
        elif res.tzname:
            aware = naive
        return aware
        """, construct="_build_tzaware cascade")
    bi = prog.func(P + "_build_tzinfo", "C15.CASCADE")
    summ.check_ref(ctx, "C15.CASCADE", bi, "a callable tzinfos receives (name, offset), a mapping is looked up by name; the value may be a tzinfo (or "
                   "None), a TZ string (tz.tzstr) or an integer offset in seconds (tz.tzoffset(name, value)); anything else raises TypeError", """
        if callable(tzinfos):
            tzdata = tzinfos(tzname, tzoffset)
        else:
            tzdata = tzinfos.get(tzname)
        if isinstance(tzdata, datetime.tzinfo) or tzdata is None:
            return tzdata
        elif isinstance(tzdata, text_type):
            return tz.tzstr(tzdata)
        elif isinstance(tzdata, integer_types):
            return tz.tzoffset(tzname, tzdata)
        raise TypeError("...")
        """, construct="_build_tzinfo kinds")
    va = prog.func("parser._parser.parserinfo.validate", "C15.CASCADE")
    summ.check_ref(ctx, "C15.CASCADE", va, "'Z'/'z' and a nameless zero offset are normalised to UTC with offset zero; a UTC-designator name with a "
                   "non-zero offset forces offset zero", """
        if (res.tzoffset == 0 and not res.tzname) or (res.tzname == 'Z' or res.tzname == 'z'):
            res.tzname = "UTC"
            res.tzoffset = 0
        elif res.tzoffset != 0 and res.tzname and self.utczone(res.tzname):
            res.tzoffset = 0
        return True
        """, construct="validate(): UTC designators", outcome=summ.outcome_with(stores=lambda t: t in ("res.tzname", "res.tzoffset")))
    at = prog.func(P + "_assign_tzname", "C15.CASCADE")
    summ.check_ref(ctx, "C15.CASCADE", at, "an ambiguous local time whose abbreviation matches only the second occurrence gets fold=1", """
        if dt.tzname() != tzname:
            new_dt = tz.enfold(dt, fold=1)
            if new_dt.tzname() == tzname:
                return new_dt
        return dt
        """, construct="_assign_tzname table")

    # ---------------------------------------------------------------- C15.IGNORETZ
    pr = prog.func(P + "parse", "C15.IGNORETZ")
    summ.check_ref(ctx, "C15.IGNORETZ", pr, "the zone step runs exactly when ignoretz is false and receives the naive result; with ignoretz the naive wall "
                   "time is returned unchanged; fuzzy_with_tokens returns the same datetime together with the skipped text", """
        if default is None:
            default = datetime.datetime.now().replace(hour=0, minute=0, second=0, microsecond=0)
        res, skipped_tokens = self._parse(timestr, **kwargs)
        if res is None:
            raise ParserError("Unknown string format: %s", timestr)
        if len(res) == 0:
            raise ParserError("String does not contain a date: %s", timestr)
        try:
            ret = self._build_naive(res, default)
        except ValueError as e:
            six.raise_from(ParserError(str(e) + ": %s", timestr), e)
        if not ignoretz:
            ret = self._build_tzaware(ret, res, tzinfos)
        if kwargs.get('fuzzy_with_tokens', False):
            return ret, skipped_tokens
        else:
            return ret
        """, construct="parse(): naive -> zone step -> result")

    # ---------------------------------------------------------------- C15.CLIP
    bn = prog.func(P + "_build_naive", "C15.CLIP")
    summ.check_ref(ctx, "C15.CLIP", bn, "the month-end clip is considered exactly when the text supplied no day; year, month and day compared are the "
                   "parsed ones if present, else the default's; the day becomes the month length only when larger; the clip happens before the default is "
                   "replaced; a bare weekday name moves the result forward to that weekday only when no day was parsed", """
        repl = {}
        for attr in ("year", "month", "day", "hour", "minute", "second", "microsecond"):
            value = getattr(res, attr)
            if value is not None:
                repl[attr] = value
        if 'day' not in repl:
            cyear = default.year if res.year is None else res.year
            cmonth = default.month if res.month is None else res.month
            cday = default.day if res.day is None else res.day
            if cday > monthrange(cyear, cmonth)[1]:
                repl['day'] = monthrange(cyear, cmonth)[1]
        naive = default.replace(**repl)
        if res.weekday is not None and not res.day:
            naive = naive + relativedelta.relativedelta(weekday=res.weekday)
        return naive
        """, construct="_build_naive clip table", outcome=summ.outcome_with(stores=lambda t: t.startswith("repl["), calls=lambda t: t == "default.replace"))

    # ---------------------------------------------------------------- C15.FUZZY / C15.AMPM
    pp = prog.func(P + "_parse", "C15.FUZZY")
    cfg = ctx.cfg(pp)
    facts = ctx.facts(pp)
    fwt = [n for n in cfg.live_nodes() if n.kind == "stmt" and src(n.ast) == "fuzzy = True"]
    ctx.ob("C15.FUZZY", pp, "fuzzy_with_tokens implies fuzzy", len(fwt) == 1 and ("fuzzy_with_tokens", True) in facts.at(fwt[0]) and cfg.dominates(fwt, [n for n in cfg.live_nodes() if n.kind == "branch" and isinstance(n.loop, ast.While)][0]) is not None,
           construct="if fuzzy_with_tokens: fuzzy = True")
    n_br = 0
    for fq in (P + "_parse", P + "_parse_numeric_token", P + "_ampm_valid"):
        f = prog.func(fq, "C15.FUZZY")
        fcfg = ctx.cfg(f)
        for b in fcfg.live_nodes():
            if b.kind != "branch" or b.loop is not None:
                continue
            names = [x.id for x in ast.walk(b.ast) if isinstance(x, ast.Name)]
            if "fuzzy" not in names or src(b.ast) == "fuzzy_with_tokens":
                continue
            n_br += 1
            # which edge is the fuzzy one?  evaluate the test with fuzzy=True/False where decidable
            t_s = [s for s, lab in b.succ if lab == "true"]
            f_s = [s for s, lab in b.succ if lab == "false"]
            negated = _fuzzy_negated(b.ast)
            fuzzy_edge, plain_edge = (f_s, t_s) if negated else (t_s, f_s)
            plain_raises = bool(plain_edge) and all(s.kind == "stmt" and isinstance(s.ast, ast.Raise) for s in plain_edge)
            # effects on the fuzzy edge until the branch's join
            body = _region(fcfg, fuzzy_edge, b)
            harmless = all(_harmless(n) for n in body)
            ok = plain_raises or harmless
            ctx.ob("C15.FUZZY", f, "a branch that tests `fuzzy` only skips tokens, or its non-fuzzy alternative rejects the text - so a text accepted without "
                   "fuzzy parses identically with fuzzy", ok, construct="%s: %s" % (f.name, src(b.ast)),
                   detail="" if ok else "with fuzzy this branch does `%s` while without fuzzy the parse continues: an accepted non-fuzzy parse can change" % "; ".join(stmt_text(n) for n in body if not _harmless(n)),
                   analysis="dependence classification of fuzzy-tested branches")
    ctx.floor("C15.FUZZY", n_br, 6, "branches testing the fuzzy flag")
    am = [n for n in cfg.live_nodes() if n.kind == "stmt" and src(n.ast) == "res.ampm = value"]
    ctx.ob("C15.AMPM", pp, "the AM/PM flag is recorded only for a marker that was accepted (a rejected fuzzy filler word must not block the real marker)",
           len(am) == 1 and ("val_is_ampm", True) in facts.at(am[0]), construct="res.ampm = value", detail="" if (len(am) == 1 and ("val_is_ampm", True) in facts.at(am[0])) else
           "facts: %s" % (sorted(t for t, tv in facts.at(am[0]) if tv)[:6] if am else "not found"), analysis="must-hold branch facts")
    hr = [n for n in cfg.live_nodes() if n.kind == "stmt" and src(n.ast) == "res.hour = self._adjust_ampm(res.hour, value)"]
    ctx.ob("C15.AMPM", pp, "the hour is adjusted only for an accepted marker", len(hr) == 1 and ("val_is_ampm", True) in facts.at(hr[0]), construct="res.hour = self._adjust_ampm(res.hour, value)")

    # ---------------------------------------------------------------- C15.TOKENS
    rc = prog.func(P + "_recombine_skipped", "C15.TOKENS")
    summ.check_ref(ctx, "C15.TOKENS", rc, "skipped tokens are emitted in scan order, adjacent ones merged", """
        skipped_tokens = []
        for i, idx in enumerate(sorted(skipped_idxs)):
            if i > 0 and idx - 1 == skipped_idxs[i - 1]:
                skipped_tokens[-1] = skipped_tokens[-1] + tokens[idx]
            else:
                skipped_tokens.append(tokens[idx])
        return skipped_tokens
        """, construct="_recombine_skipped table", alpha=True, loops="body",
                   outcome=summ.outcome_with(stores=lambda t: True, calls=lambda t: t.endswith(".append") or t.endswith(".extend") or t.endswith(".insert")))
    rt = [n for n in cfg.live_nodes() if n.kind == "stmt" and isinstance(n.ast, ast.Return) and "tuple(skipped_tokens)" in src(n.ast)]
    ctx.ob("C15.TOKENS", pp, "the skipped text is returned only for fuzzy_with_tokens", len(rt) == 1 and ("fuzzy_with_tokens", True) in facts.at(rt[0]), construct="return res, tuple(skipped_tokens)")

    # ---------------------------------------------------------------- C15.OFFSET
    n_sites = unit.check_function(ctx, "C15.OFFSET", pp)
    ctx.floor("C15.OFFSET", n_sites, 1, "offset arithmetic in _parse")

    # ---------------------------------------------------------------- C15.ARGS
    from ..rules_common import check_call_arguments
    check_call_arguments(ctx, "C15.ARGS", "C15")
    from ..rules_common import check_effect_tables
    check_effect_tables(ctx, "C15")
    from ..rules_common import check_presence_tests, ARG_SCOPE
    check_presence_tests(ctx, "C15.PRESENCE", classes=ARG_SCOPE.get("C15", []))
    from ..rules_common import check_param_rebinding
    check_param_rebinding(ctx, "C15.PARAMS", classes=ARG_SCOPE.get("C15", []))


def _fuzzy_negated(test):
    """True when the branch's TRUE edge is the non-fuzzy one (`not fuzzy`, `not (x or fuzzy)`)."""
    if isinstance(test, ast.UnaryOp) and isinstance(test.op, ast.Not):
        return not _fuzzy_negated(test.operand)
    return False


def _region(cfg, starts, branch):
    """Nodes executed on the given edge before control re-joins the other edge of `branch`."""
    other = [s for s, lab in branch.succ if s not in starts and lab in ("true", "false")]
    other_reach = set(n.id for n in cfg.reach(other, include_start=True))
    out = []
    seen = set()
    stack = list(starts)
    while stack:
        n = stack.pop()
        if n.id in seen or n.id in other_reach:
            continue
        seen.add(n.id)
        out.append(n)
        for t, lab in n.succ:
            if lab != "exc":
                stack.append(t)
    return out


def _harmless(n):
    if n.kind in ("join", "exit", "raise", "branch"):
        return n.kind != "branch" or True
    if n.kind != "stmt" or n.ast is None:
        return True
    t = src(n.ast).replace(" ", "")
    return t.startswith("skipped_idxs.append(") or t == "fuzzy=True" or isinstance(n.ast, (ast.Pass, ast.Raise, ast.Continue, ast.Break))
