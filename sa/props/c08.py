"""C08 - tzstr, tzrange and tzlocal implement POSIX TZ rule semantics."""
import ast

from ..model import src, walk_local, AnalysisError
from ..linform import poly, show
from .. import tz_rules as R
from .. import unit
from ..prog import check_cursor_loop
from ..rules_lock import stmt_text
from .c10 import norm_cmp

CLAIM = ("static analysis (rejection guard dominance, record-slot nullness, sign tables, unit/sign normal forms of every "
         "HHMM / HH:MM[:SS] decoder, rule-key mapping table, half-open interval comparators in both hemisphere "
         "branches, loop progress of the scanner): necessary conditions of C08; the transition instants POSIX "
         "prescribes and everything about the C library are NOT decided")
TECHNIQUE = "must-hold branch facts (guards, nullness), CMP sign/comparator tables, polynomial normal forms (UNIT/SIGN), FIELD mapping tables, PROG (ast only)"
EXPLANATION = (
    "C08.REJECT: tzstr.__init__ raises ValueError when the TZ parser returns None or reports unused tokens, before any "
    "use of the result. C08.NULL: every arithmetic / augmented assignment / ordering on a slot of the parser's result "
    "records (all initialised to None) in tzstr.__init__, tzstr._delta and _tzparser.parse is dominated by a not-None "
    "fact, a definite assignment of the same slot, or is justified by a checked co-assignment (week and weekday are "
    "always assigned together). C08.SIGN: POSIX offsets invert ('+' -> -1, bare digits -> -1), the dateutil-specific "
    "trailing delta does not ('+' -> +1, bare -> +1); the GMT/UTC re-inversion is guarded by `not posix_offset` and "
    "those two names. C08.UNIT: every offset/time decoder has sign*(3600*HH + 60*MM [+ SS]) normal form with the "
    "sign on every term; the end rule is shifted by the saving (seconds + 86400*days) only for the end; default rule "
    "time is 7200 s. C08.RULEKEYS: in tzstr._delta Mm.w.d -> month + weekday(d, w) + day 1 (w > 0) or 31; n -> "
    "yearday (zero-based +1 exactly once, in the parser); Jn -> nlyearday; week 5 -> -1; weekday (d-1) mod 7. "
    "C08.HALFOPEN: the daylight interval is closed at its start and open at its end in both hemisphere branches of "
    "_naive_isdst and in the ambiguity window. C08.RANGE: tzrange defaults (saving 1 h, April/October rules), "
    "transitions are year start + rule, fromutc converts both transitions with the STANDARD offset. C08.LOCAL: "
    "tzlocal negates time.timezone / time.altzone (seconds west -> offset east). C08.TERM: the scanner loops advance. "
    "C08.EXC: the exception-escape analysis finds only ValueError escaping tzstr(<text>) and nothing at all escaping "
    "the TZ-string scanner (all of its failures become a None result).")
ASSUMPTIONS = ["relativedelta applies rules as in C03", "transition instants for all rules (e.g. end times smaller than the saving, /24) are NOT decided"]

SLOTS = {"stdabbr", "stdoffset", "dstabbr", "dstoffset", "start", "end", "month", "week", "weekday", "yday", "jyday", "day", "time"}
NUMERIC_SLOTS = {"stdoffset", "dstoffset", "month", "week", "weekday", "yday", "jyday", "day", "time"}


def slot_uses(node_ast):
    """[(attr node, kind)] where a record slot is an operand of arithmetic / ordering / augmented assignment."""
    out = []
    for x in ast.walk(node_ast):
        ops = []
        if isinstance(x, ast.BinOp):
            ops = [x.left, x.right]
            kind = "arithmetic"
        elif isinstance(x, ast.UnaryOp) and isinstance(x.op, (ast.USub, ast.UAdd)):
            ops = [x.operand]
            kind = "arithmetic"
        elif isinstance(x, ast.AugAssign):
            ops = [x.target]
            kind = "augmented assignment"
        elif isinstance(x, ast.Compare) and any(isinstance(o, (ast.Lt, ast.LtE, ast.Gt, ast.GtE)) for o in x.ops):
            ops = [x.left] + list(x.comparators)
            kind = "ordering"
        else:
            continue
        for o in ops:
            if isinstance(o, ast.Attribute) and o.attr in NUMERIC_SLOTS and isinstance(o.value, (ast.Name, ast.Attribute)) \
                    and src(o.value).split(".")[0] in ("res", "x"):
                out.append((o, kind))
    return out


def run(ctx):
    prog = ctx.prog
    tzstr = prog.cls("tz.tz.tzstr", "C08")
    init = prog.method(tzstr.qualname, "__init__", "C08")
    delta = prog.method(tzstr.qualname, "_delta", "C08")
    tzp = prog.func("parser._parser._tzparser.parse", "C08")

    # ---------------------------------------------------------------- C08.REJECT
    cfg = ctx.cfg(init)
    facts = ctx.facts(init)
    parse_n = [n for n in cfg.live_nodes() if n.kind == "stmt" and isinstance(n.ast, ast.Assign) and "_parsetz(" in src(n.ast.value)]
    if len(parse_n) != 1:
        raise AnalysisError("C08.REJECT", init.qualname, "call of the TZ-string parser not found")
    rname = src(parse_n[0].ast.targets[0])
    raises = [n for n in cfg.live_nodes() if n.kind == "stmt" and isinstance(n.ast, ast.Raise)]
    okr = len(raises) == 1 and src(raises[0].ast.exc).startswith("ValueError") and any(
        tv and ("%s is None" % rname) in t and ("%s.any_unused_tokens" % rname) in t for t, tv in facts.at(raises[0]))
    ctx.ob("C08.REJECT", init, "an unparsable string or one with unused tokens raises ValueError", okr, construct="tzstr.__init__ rejection", analysis="must-hold branch facts")
    guard = [n for n in cfg.live_nodes() if n.kind == "branch" and ("%s is None" % rname) in src(n.ast)]
    uses = [n for n in cfg.live_nodes() if n.ast is not None and n.kind in ("stmt", "branch") and n not in guard and n not in parse_n
            and any(isinstance(x, ast.Attribute) and src(x.value) == rname for x in ast.walk(n.ast))]
    ok = bool(guard) and all(cfg.dominates(guard, u) and ("%s is None" % rname, False) in facts.at(u) for u in uses)
    ctx.ob("C08.REJECT", init, "the parse result is used only after the rejection test (result not None)", ok, construct="uses of the parse result", detail="%d uses" % len(uses), analysis="CFG dominance + facts")
    ptz = prog.func("parser._parser._parsetz", "C08.REJECT")
    ctx.ob("C08.REJECT", ptz, "_parsetz forwards to the TZ parser", "DEFAULTTZPARSER.parse(tzstr)" in src(ptz.node), construct="_parsetz body")
    pcfg = ctx.cfg(tzp)
    hd = [n for n in pcfg.live_nodes() if n.kind == "handler"]
    okh = len(hd) == 1 and all(k in src(hd[0].ast.type) for k in ("IndexError", "ValueError", "AssertionError")) and \
        any(isinstance(s, ast.Return) and src(s.value) == "None" for s in hd[0].ast.body)
    ctx.ob("C08.REJECT", tzp, "scanner errors (IndexError, ValueError, AssertionError) turn into a None result", okh, construct="_tzparser.parse handler")
    uu = [n for n in pcfg.live_nodes() if n.kind == "stmt" and isinstance(n.ast, ast.Assign) and src(n.ast.targets[0]) == "res.any_unused_tokens"]
    ctx.ob("C08.REJECT", tzp, "tokens other than ',' and ':' that were never consumed are reported as unused",
           len(uu) == 1 and src(uu[0].ast.value).replace(" ", "") == "not{l[n]forninunused_idxs}.issubset({',',':'})", construct="any_unused_tokens")

    # ---------------------------------------------------------------- C08.EXC
    from ..exc import check_escape
    sup = {
        (tzp.qualname, "l[n]"): "n ranges over set(range(len_l)) minus the used indices",
        ("dateutil.relativedelta.relativedelta.__init__", "weekdays[weekday]"): "tzstr passes a weekday object, never an int (relativedelta.weekday(x.weekday, x.week))",
    }
    check_escape(ctx, "C08.EXC", init, ("ValueError",), seeds={(init.qualname, "s"): ["str"]}, suppress=sup, min_functions=8, label="tzstr()")
    check_escape(ctx, "C08.EXC", tzp, (), seeds={(tzp.qualname, "tzstr"): ["str"]}, suppress=sup, min_functions=2, label="_tzparser.parse()")

    # ---------------------------------------------------------------- C08.NULL
    n_uses = 0
    for f in (init, delta, tzp):
        fcfg = ctx.cfg(f)
        ff = ctx.facts(f)
        for n in fcfg.live_nodes():
            if n.ast is None or n.kind not in ("stmt", "branch") or isinstance(n.ast, (ast.FunctionDef, ast.ClassDef)):
                continue
            for attr, kind in slot_uses(n.ast):
                text = src(attr)
                n_uses += 1
                fs = ff.at(n)
                ok = (text + " is not None", True) in fs or (text + " is None", False) in fs or (text, True) in fs
                why = "not-None fact"
                if not ok:
                    # definite assignment of the same slot dominating the use
                    asg = [m for m in fcfg.live_nodes() if m.kind == "stmt" and isinstance(m.ast, ast.Assign) and any(src(t) == text for t in m.ast.targets)
                           and not (isinstance(m.ast.value, ast.Constant) and m.ast.value.value is None) and m is not n]
                    if asg and fcfg.dominates(asg, n):
                        ok, why = True, "definite assignment"
                if not ok and attr.attr == "week":
                    # week and weekday are always assigned together (checked below), weekday is known not None here
                    base = src(attr.value)
                    if (base + ".weekday is not None", True) in fs:
                        ok, why = True, "co-assigned with weekday"
                        ctx.suppress("C08.NULL", "%s %s" % (f.qualname, text), "week is assigned wherever weekday is (verified by C08.NULL co-assignment check)")
                ctx.ob("C08.NULL", f, "%s on record slot %s (initialised to None) is dominated by a not-None test or a definite assignment" % (kind, text),
                       ok, construct="%s: %s" % (f.name, stmt_text(n)), detail=why if ok else "slot may still be None here: TypeError instead of the documented ValueError / fixed-offset zone",
                       analysis="NULL: must-hold branch facts + dominance")
    ctx.floor("C08.NULL", n_uses, 3, "arithmetic/ordering uses of result-record slots")
    wk = [n for n in pcfg.live_nodes() if n.kind == "stmt" and isinstance(n.ast, ast.Assign) and any(src(t) == "x.weekday" for t in n.ast.targets)]
    for w in wk:
        asg = [m for m in pcfg.live_nodes() if m.kind == "stmt" and isinstance(m.ast, ast.Assign) and any(src(t) == "x.week" for t in m.ast.targets)]
        ok = bool(asg) and pcfg.dominates(asg, w)       # every path to the weekday store passes through some store of the week
        ctx.ob("C08.NULL", tzp, "wherever a rule's weekday is assigned its week has been assigned before (co-assignment)", ok, construct="co-assignment: %s" % stmt_text(w))
    ctx.floor("C08.NULL", len(wk), 2, "weekday assignments in the TZ parser")

    # ---------------------------------------------------------------- C08.SIGN
    pf = ctx.facts(tzp)
    from ..rules_common import sign_cases
    cases, n_s = sign_cases(ctx, "C08.SIGN", tzp, lambda ef: ef[0] == "call" and ef[1] == "setattr", lambda ef: ef[2].args[2])
    want = {("plus", "-1"), ("minus", "+1"), ("bare", "-1")}
    got = set((c, s_) for _, c, s_ in cases)
    ctx.ob("C08.SIGN", tzp, "POSIX offsets are inverted: '+' -> -1, '-' -> +1 and an unsigned offset -> -1 (hours WEST of UTC)", got == want and n_s >= 3,
           construct="POSIX offset sign", detail="" if got == want else "sign of the stored offset per sign character: %s" % sorted(got), analysis="guarded normal form of the sign region + polynomial sign")
    cases2, n_s2 = sign_cases(ctx, "C08.SIGN", tzp, lambda ef: ef[0] == "store" and ef[1].endswith(".dstoffset") and "stdoffset" in src(ef[2]), lambda ef: ef[2],
                              ignore_atoms=lambda a: "stdoffset" in a)
    want2 = {("plus", "+1"), ("minus", "-1"), ("bare", "+1")}
    got2 = set((c, s_) for _, c, s_ in cases2)
    ctx.ob("C08.SIGN", tzp, "the dateutil-specific trailing delta is not inverted: '+' -> +1, '-' -> -1, unsigned -> +1", got2 == want2 and n_s2 == 1,
           construct="trailing delta sign", detail="" if got2 == want2 else "sign of the delta per sign character: %s" % sorted(got2), analysis="guarded normal form of the sign region + polynomial sign")
    inv = [n for n in cfg.live_nodes() if n.kind == "stmt" and isinstance(n.ast, ast.AugAssign) and src(n.ast.target) == rname + ".stdoffset"]
    oki = len(inv) == 1 and isinstance(inv[0].ast.op, ast.Mult) and src(inv[0].ast.value) == "-1" and \
        ("posix_offset", False) in facts.at(inv[0]) and any(tv and "stdabbr in ('GMT', 'UTC')" in t for t, tv in facts.at(inv[0]))
    ctx.ob("C08.SIGN", init, "'GMT+h'/'UTC+h' are re-inverted (h hours AHEAD) only for those two names and only unless POSIX interpretation is requested",
           oki, construct="GMT/UTC re-inversion", detail="" if oki else str(sorted(facts.at(inv[0]))) if inv else "not found", analysis="must-hold branch facts")
    d = init.defaults.get("posix_offset")
    ctx.ob("C08.SIGN", init, "posix_offset defaults to False", d is not None and src(d) == "False", construct="posix_offset default")

    # ---------------------------------------------------------------- C08.UNIT
    n1 = unit.check_function(ctx, "C08.UNIT", tzp)
    ctx.floor("C08.UNIT", n1, 6, "unit sites in _tzparser.parse")
    unit.check_function(ctx, "C08.UNIT", delta)
    dcfg = ctx.cfg(delta)
    df = ctx.facts(delta)
    from .. import summ
    DELTA_REF = """
        from dateutil import relativedelta
        kwargs = {}
        if x.month is not None:
            kwargs["month"] = x.month
            if x.weekday is not None:
                kwargs["weekday"] = relativedelta.weekday(x.weekday, x.week)
                if x.week > 0:
                    kwargs["day"] = 1
                else:
                    kwargs["day"] = 31
            elif x.day:
                kwargs["day"] = x.day
        elif x.yday is not None:
            kwargs["yearday"] = x.yday
        elif x.jyday is not None:
            kwargs["nlyearday"] = x.jyday
        if not kwargs:
            if not isend:
                kwargs["month"] = 4
                kwargs["day"] = 1
                kwargs["weekday"] = relativedelta.SU(+1)
            else:
                kwargs["month"] = 10
                kwargs["day"] = 31
                kwargs["weekday"] = relativedelta.SU(-1)
        if x.time is not None:
            kwargs["seconds"] = x.time
        else:
            kwargs["seconds"] = 7200
        if isend:
            delta = self._dst_offset - self._std_offset
            kwargs["seconds"] -= delta.seconds + delta.days * 86400
        return relativedelta.relativedelta(**kwargs)
        """
    summ.check_ref(ctx, "C08.UNIT", delta, "the rule time is passed as seconds (POSIX default 02:00:00 = 7200 s); only the END rule is moved back by the saving "
                   "(dst offset minus std offset, as seconds + 86400 * days: its time is given in daylight time, transitions are kept in standard time)",
                   DELTA_REF, construct="tzstr._delta table (seconds)")
    xt = [n for n in pcfg.live_nodes() if n.kind == "stmt" and isinstance(n.ast, ast.AugAssign) and src(n.ast.target) == "x.time"]
    ctx.ob("C08.UNIT", tzp, "the optional seconds field of a rule time is added with factor 1", len(xt) == 1 and src(xt[0].ast.value) == "int(l[i])" and isinstance(xt[0].ast.op, ast.Add), construct="x.time += int(l[i])")

    # ---------------------------------------------------------------- C08.RULEKEYS
    summ.check_ref(ctx, "C08.RULEKEYS", delta, "Mm.w.d -> month + weekday(d, w) + day 1 (w > 0) or 31; Mm with a day -> month + day; n -> yearday; Jn -> nlyearday; "
                   "no rule -> first Sunday of April (start) / last Sunday of October (end)", DELTA_REF, construct="tzstr._delta table (rule keys)")
    yd = [n for n in pcfg.live_nodes() if n.kind == "stmt" and isinstance(n.ast, ast.Assign) and src(n.ast.targets[0]) in ("x.yday", "x.jyday")]
    ymap = {src(n.ast.targets[0]): poly(n.ast.value, atomize=lambda e: "F" if isinstance(e, ast.Call) and src(e.func) == "int" else None) for n in yd}
    ctx.ob("C08.RULEKEYS", tzp, "zero-based day n becomes the one-based yearday exactly once (+1 in the parser); Jn is taken as is", ymap == {"x.yday": {("F",): 1, (): 1}, "x.jyday": {("F",): 1}},
           construct="x.yday / x.jyday", detail=str({k: show(v) for k, v in ymap.items()}), analysis="polynomial normal form")
    jn = [n for n in yd if src(n.ast.targets[0]) == "x.jyday"]
    ctx.ob("C08.RULEKEYS", tzp, "the J form is selected by the letter J", bool(jn) and any(tv and t.replace('"', "'") == "l[i] == 'J'" for t, tv in pf.at(jn[0])) or
           bool(jn) and any(p_.kind == "branch" and "'J'" in src(p_.ast) for p_, lab in pcfg.nodes[jn[0].id].pred) or
           any(isinstance(s, ast.If) and "'J'" in src(s.test) and any(src(t) == "x.jyday" for b in s.body for t in getattr(b, "targets", [])) for s in ast.walk(tzp.node)),
           construct="J -> jyday")
    w5 = [n for n in pcfg.live_nodes() if n.kind == "stmt" and src(n.ast).replace(" ", "") == "x.week=-1"]
    # the test is on the slot itself or on the local that is stored into the slot otherwise
    week_sources = set(["x.week"]) | set(src(n.ast.value) for n in pcfg.live_nodes() if n.kind == "stmt" and isinstance(n.ast, ast.Assign)
                                        and any(src(t) == "x.week" for t in n.ast.targets) and isinstance(n.ast.value, ast.Name))
    ok5 = len(w5) == 1 and any(tv and t.replace(" ", "") in ("%s==5" % w_ for w_ in week_sources) for t, tv in pf.at(w5[0]))
    ctx.ob("C08.RULEKEYS", tzp, "week 5 means the last week (-1)", ok5, construct="week 5 -> -1", analysis="must-hold branch facts")
    wdm = sorted(set(src(n.ast.value).replace(" ", "") for n in wk))
    ctx.ob("C08.RULEKEYS", tzp, "POSIX weekday 0=Sunday is converted to Monday=0 by (d - 1) mod 7", wdm == ["(int(l[i])-1)%7"], construct="x.weekday conversion", detail=str(wdm))

    # ---------------------------------------------------------------- C08.HALFOPEN
    R.check_halfopen(ctx, "C08.HALFOPEN")

    # ---------------------------------------------------------------- C08.RANGE
    tr = prog.cls("tz.tz.tzrange", "C08.RANGE")
    ri = prog.method(tr.qualname, "__init__", "C08.RANGE")
    rcfg = ctx.cfg(ri)
    rf = ctx.facts(ri)
    dsto = [n for n in rcfg.live_nodes() if n.kind == "stmt" and isinstance(n.ast, ast.Assign) and src(n.ast.targets[0]) == "self._dst_offset"]
    dflt = [n for n in dsto if "timedelta(hours=" in src(n.ast.value)]
    okd = len(dflt) == 1 and src(dflt[0].ast.value).replace(" ", "").replace("+1", "1") == "self._std_offset+datetime.timedelta(hours=1)"
    ctx.ob("C08.RANGE", ri, "the default daylight offset is standard + 1 hour", okd, construct="default dst offset")
    for attr, txt in (("self._start_delta", "relativedelta.relativedelta(hours=+2, month=4, day=1, weekday=relativedelta.SU(+1))"),
                      ("self._end_delta", "relativedelta.relativedelta(hours=+1, month=10, day=31, weekday=relativedelta.SU(-1))")):
        ns = [n for n in rcfg.live_nodes() if n.kind == "stmt" and isinstance(n.ast, ast.Assign) and src(n.ast.targets[0]) == attr and isinstance(n.ast.value, ast.Call)]
        ctx.ob("C08.RANGE", ri, "default %s rule" % attr.split("_")[1], len(ns) == 1 and src(ns[0].ast.value) == txt, construct="%s default" % attr)
    from .. import summ
    summ.check_ref(ctx, "C08.RANGE", ri, "tzrange(): offsets may be timedeltas or seconds; a missing standard offset is zero; the daylight offset is the given one "
                   "(zero included), else standard + 1 hour when a daylight name and a standard offset are given, else zero; start / end default to the "
                   "April / October rules only when a daylight name is given; the saving is daylight minus standard; hasdst iff there is a start rule", """
        self._std_abbr = stdabbr
        self._dst_abbr = dstabbr
        try:
            stdoffset = stdoffset.total_seconds()
        except (TypeError, AttributeError):
            pass
        try:
            dstoffset = dstoffset.total_seconds()
        except (TypeError, AttributeError):
            pass
        if stdoffset is not None:
            self._std_offset = datetime.timedelta(seconds=stdoffset)
        else:
            self._std_offset = ZERO
        if dstoffset is not None:
            self._dst_offset = datetime.timedelta(seconds=dstoffset)
        elif dstabbr and stdoffset is not None:
            self._dst_offset = self._std_offset + datetime.timedelta(hours=+1)
        else:
            self._dst_offset = ZERO
        if dstabbr and start is None:
            self._start_delta = relativedelta.relativedelta(hours=+2, month=4, day=1, weekday=relativedelta.SU(+1))
        else:
            self._start_delta = start
        if dstabbr and end is None:
            self._end_delta = relativedelta.relativedelta(hours=+1, month=10, day=31, weekday=relativedelta.SU(-1))
        else:
            self._end_delta = end
        self._dst_base_offset_ = self._dst_offset - self._std_offset
        self.hasdst = bool(self._start_delta)
        """, construct="tzrange.__init__ table", outcome=summ.outcome_with(stores=lambda t: t.startswith("self."), result=False))
    tm = prog.method(tr.qualname, "transitions", "C08.RANGE")
    okt = "base_year + self._start_delta" in src(tm.node) and "base_year + self._end_delta" in src(tm.node) and "datetime.datetime(year, 1, 1)" in src(tm.node)
    ctx.ob("C08.RANGE", tm, "transitions are 1 January of the year plus the start / end rule", okt, construct="transitions body")
    fu = prog.func("tz._common.tzrangebase.fromutc", "C08.RANGE")
    subs = sorted(src(n) for n in walk_local(fu.node) if isinstance(n, ast.AugAssign))
    ctx.ob("C08.RANGE", fu, "both transitions are converted to UTC with the STANDARD offset (they are kept in standard time)", subs == ["dstoff -= self._std_offset", "dston -= self._std_offset"], construct="utc transitions", detail=str(subs))
    hd2 = [n for n in ctx.cfg(init).live_nodes() if n.kind == "stmt" and isinstance(n.ast, ast.Assign) and src(n.ast.targets[0]) == "self.hasdst"]
    ctx.ob("C08.RANGE", init, "a string without a daylight part is a fixed-offset zone (no rules, hasdst false)",
           any(src(n.ast) == "self._start_delta = None" and ("%s.dstabbr" % rname, False) in facts.at(n) for n in cfg.live_nodes() if n.kind == "stmt") and len(hd2) == 1
           and src(hd2[0].ast.value) == "bool(self._start_delta)", construct="no dstabbr -> no rules")

    # ---------------------------------------------------------------- C08.LOCAL
    tl = prog.method("tz.tz.tzlocal", "__init__", "C08.LOCAL")
    vals = {src(n.targets[0]): src(n.value).replace(" ", "") for n in walk_local(tl.node) if isinstance(n, ast.Assign)}
    ctx.ob("C08.LOCAL", tl, "tzlocal's standard offset is -time.timezone seconds (the C library counts seconds WEST)", vals.get("self._std_offset") == "datetime.timedelta(seconds=-time.timezone)", construct="tzlocal std offset")
    tcfg = ctx.cfg(tl)
    alt = [n for n in tcfg.live_nodes() if n.kind == "stmt" and isinstance(n.ast, ast.Assign) and src(n.ast.targets[0]) == "self._dst_offset"]
    oka = any(src(n.ast.value).replace(" ", "") == "datetime.timedelta(seconds=-time.altzone)" and ("time.daylight", True) in ctx.facts(tl).at(n) for n in alt) and \
        any(src(n.ast.value) == "self._std_offset" and ("time.daylight", False) in ctx.facts(tl).at(n) for n in alt)
    ctx.ob("C08.LOCAL", tl, "the daylight offset is -time.altzone when the zone has DST, else the standard offset", oka, construct="tzlocal dst offset")
    nid = prog.method("tz.tz.tzlocal", "_naive_is_dst", "C08.LOCAL")
    ctx.ob("C08.LOCAL", nid, "DST status comes from the C library for the wall time read as local time (timestamp + time.timezone)",
           "time.localtime(timestamp + time.timezone).tm_isdst" in src(nid.node), construct="_naive_is_dst body")

    # ---------------------------------------------------------------- C08.TERM
    whiles = [n for n in pcfg.live_nodes() if n.kind == "branch" and n.loop is not None and isinstance(n.loop, ast.While)]
    ctx.floor("C08.TERM", len(whiles), 2, "while loops of the TZ scanner")
    for w in whiles:
        check_cursor_loop(ctx, "C08.TERM", tzp, pcfg, w, monotone_calls=("j",))

    # ---------------------------------------------------------------- C08.ARGS
    from ..rules_common import check_call_arguments
    check_call_arguments(ctx, "C08.ARGS", "C08")
    from ..rules_common import check_effect_tables
    check_effect_tables(ctx, "C08")
    from ..rules_common import check_region_table, statements_mentioning
    from ..rules_common import _blocks

    def rule_time_region(fnode):
        # from the statement that measures the token after '/' to the last statement of that block that stores a rule time
        best = None
        for block in _blocks(fnode):
            for k, st in enumerate(block):
                if isinstance(st, ast.Assign) and isinstance(st.value, ast.Call) and src(st.value.func) == "len" and any(
                        isinstance(x, ast.Attribute) and x.attr == "time" and isinstance(x.ctx, ast.Store) for y in block[k + 1:] for x in ast.walk(y)):
                    last = max(j for j in range(k + 1, len(block)) if any(isinstance(x, ast.Attribute) and x.attr == "time" and isinstance(x.ctx, ast.Store) for x in ast.walk(block[j])))
                    span = block[k:last + 1]
                    size = sum(1 for y in span for _ in ast.walk(y))
                    if best is None or size < best[0]:
                        best = (size, span)
        return best[1] if best else []
    check_region_table(ctx, "C08.TABLE", tzp, rule_time_region,
                       "a rule time `/hh[:mm[:ss]]` or `/hhmm` becomes seconds from the token at the cursor and the tokens two and four places on",
                       "_tzparser.parse: rule time after '/'")
    from ..rules_common import check_presence_tests, ARG_SCOPE
    check_presence_tests(ctx, "C08.PRESENCE", classes=ARG_SCOPE.get("C08", []))
    from ..rules_common import check_param_rebinding
    check_param_rebinding(ctx, "C08.PARAMS", classes=ARG_SCOPE.get("C08", []))


