"""C02 - parse() inverts every supported unambiguous date/time rendering."""
import ast
import re
import calendar

from ..model import src, walk_local, AnalysisError
from ..ivl import Interp, Val, TOP
from ..linform import poly, show
from .. import unit
from ..rules_lock import stmt_text

CLAIM = ("static analysis (symbolic-base interval analysis of the century pivot, unit/sign normal forms of numeric "
         "offsets, comparator-boundary table of the day/month disambiguation, name tables against the stdlib calendar, "
         "fraction width agreement, AM/PM interval analysis, century-width bookkeeping): the last sentence of C02 "
         "(two-digit years resolve within -50..+49 of the current year) is decided completely; the other clauses are "
         "necessary conditions; the round trip over datetimes x formats is NOT decided")
TECHNIQUE = "interval abstract interpretation with a symbolic base, polynomial normal forms (UNIT/SIGN), comparator boundary tables, CONST tables vs stdlib calendar (ast only)"
EXPLANATION = (
    "C02.PIVOT: convertyear is analysed with year in [0,99], not century_specified, self._year = Y and self._century "
    "= Y + [-99,0] (the latter derived from parserinfo.__init__'s `_year // 100 * 100`): the returned value is Y + "
    "[-50, +49] on every path; with century_specified or year >= 100 the year is returned unchanged. C02.OFFSET: the "
    "numeric offset normalises to sign*3600*hours + sign*60*minutes with '+' -> +1; 'GMT+3' inverts the sign token "
    "and clears the offset. C02.BOUNDS: every comparison of a year/month/day candidate with a literal in "
    "_ymd.resolve_ymd / could_be_day separates at 12|13 or 31|32 (so 12 is a month and 31 a day). C02.CENTURY: "
    "four-digit year fields reach _ymd.append as text with label 'Y' (the width carries the century flag). "
    "C02.FRAC: fractions are padded and cut to the same width 6; a comma becomes a dot only in a dot-free number. "
    "C02.AMPM: _adjust_ampm maps hour in [0,12] x {am,pm} into [0,23] with 12am -> 0, 12pm -> 12. C02.NAMES: MONTHS "
    "(12, calendar.month_abbr/month_name first), WEEKDAYS (Monday first), HMS (h, m, s order matched by _assign_hms), "
    "AMPM (am, pm; pm is index 1 as _adjust_ampm assumes). C02.BUILD: parsed fields replace the default under their "
    "own names.")
ASSUMPTIONS = ["time.localtime().tm_year is the current year", "token classification and the round trip itself: NOT decided"]


def boundary(op, c):
    """Normalise `x <op> c` to the integer boundary b with predicate `x <= b` (True side) / `x > b`."""
    return {"Lt": c - 1, "LtE": c, "Gt": c, "GtE": c - 1}.get(op)


def run(ctx):
    prog = ctx.prog
    pi = prog.cls("parser._parser.parserinfo", "C02")
    ps = prog.cls("parser._parser.parser", "C02")
    ymd = prog.cls("parser._parser._ymd", "C02")

    # ---------------------------------------------------------------- C02.PIVOT
    init = prog.method(pi.qualname, "__init__", "C02.PIVOT")
    cy = prog.method(pi.qualname, "convertyear", "C02.PIVOT")
    ip0 = Interp(prog, init, seeds={"self._year": Val(0, 0, "Y")})
    cent = None
    yr_src = None
    for n in walk_local(init.node):
        if isinstance(n, ast.Assign) and src(n.targets[0]) == "self._century":
            cent = ip0.ev(n.value, __import__("sa.ivl", fromlist=["Env"]).Env({"self._year": Val(0, 0, "Y")}))
        if isinstance(n, ast.Assign) and src(n.targets[0]) == "self._year":
            yr_src = src(n.value)
    ctx.ob("C02.PIVOT", init, "the reference year is the current local year", yr_src == "time.localtime().tm_year", construct="self._year = %s" % yr_src)
    okc = isinstance(cent, Val) and cent.base == "Y" and cent.lo == -99 and cent.hi == 0
    ctx.ob("C02.PIVOT", init, "the reference century is the current year rounded down to a multiple of 100 (Y + [-99, 0])", okc, construct="self._century", detail="derived %r" % (cent,), analysis="IVL symbolic base")
    if not okc:
        cent = Val(-99, 0, "Y")
    it = Interp(prog, cy, seeds={"year": Val(0, 99), "century_specified": Val(0, 0), "self._year": Val(0, 0, "Y"), "self._century": cent}).run()
    rv = it.return_value()
    ok = isinstance(rv, Val) and rv.base == "Y" and rv.lo == -50 and rv.hi == 49
    ctx.ob("C02.PIVOT", cy, "a two-digit year without a specified century resolves into [current year - 50, current year + 49]", ok,
           construct="convertyear return range", detail="interval analysis gives %r (needs Y+[-50, 49] exactly)" % (rv,), analysis="IVL symbolic base")
    for label, seeds in (("century specified", {"year": Val(0, 99, "X"), "century_specified": Val(1, 1)}),):
        it2 = Interp(prog, cy, seeds=dict(seeds, **{"self._year": Val(0, 0, "Y"), "self._century": cent})).run()
        rv2 = it2.return_value()
        ctx.ob("C02.PIVOT", cy, "a year whose century was specified is returned unchanged", isinstance(rv2, Val) and rv2 == seeds["year"], construct="convertyear with century", detail="%r" % (rv2,), analysis="IVL")
    it3 = Interp(prog, cy, seeds={"year": Val(100, 9999), "century_specified": Val(0, 0), "self._year": Val(0, 0, "Y"), "self._century": cent}).run()
    rv3 = it3.return_value()
    ctx.ob("C02.PIVOT", cy, "a year >= 100 is returned unchanged", isinstance(rv3, Val) and rv3 == Val(100, 9999), construct="convertyear of 3+ digit years", detail="%r" % (rv3,), analysis="IVL")
    d = cy.defaults.get("century_specified")
    ctx.ob("C02.PIVOT", cy, "century_specified defaults to False", d is not None and src(d) == "False", construct="century_specified default")
    val = prog.method(pi.qualname, "validate", "C02.PIVOT")
    calls = [src(x) for x in walk_local(val.node) if isinstance(x, ast.Call) and src(x.func) == "self.convertyear"]
    ctx.ob("C02.PIVOT", val, "validate() converts the parsed year with the parsed century flag", calls == ["self.convertyear(res.year, res.century_specified)"], construct=str(calls))

    # ---------------------------------------------------------------- C02.OFFSET
    pp = prog.method(ps.qualname, "_parse", "C02.OFFSET")
    n_sites = unit.check_function(ctx, "C02.OFFSET", pp)
    ctx.floor("C02.OFFSET", n_sites, 1, "unit sites in parser._parse")
    cfg = ctx.cfg(pp)
    facts = ctx.facts(pp)
    from ..rules_common import sign_cases
    cases, n_s = sign_cases(ctx, "C02.OFFSET", pp, lambda ef: ef[0] == "store" and ef[1].endswith(".tzoffset") and not isinstance(ef[2], ast.Constant), lambda ef: ef[2])
    got = set((c, s_) for _, c, s_ in cases)
    ok = got == {("plus", "+1"), ("minus", "-1")} and n_s == 1
    ctx.ob("C02.OFFSET", pp, "'+' maps to +1 and '-' to -1 at the numeric offset", ok, construct="numeric offset sign", detail="" if ok else "sign of the stored offset per sign character: %s" % sorted(got),
           analysis="guarded normal form of the sign region + polynomial sign")
    # the sign token after a zone name is inverted in place
    inv = [n for n in cfg.live_nodes() if n.kind == "stmt" and isinstance(n.ast, ast.Assign) and isinstance(n.ast.targets[0], ast.Subscript)
           and isinstance(n.ast.value, ast.Constant) and n.ast.value.value in ("+", "-")]
    tab = set()
    for n in inv:
        tgt = src(n.ast.targets[0])
        fs = facts.at(n)
        if (tgt + " == '+'", True) in fs:
            tab.add(("plus", n.ast.value.value))
        elif (tgt + " == '+'", False) in fs or (tgt + " == '-'", True) in fs:
            tab.add(("minus", n.ast.value.value))
        else:
            tab.add(("?", n.ast.value.value))
    oki = tab == {("plus", "-"), ("minus", "+")}
    ctx.ob("C02.OFFSET", pp, "'GMT+3' means three hours behind: the sign token after a zone name is inverted ('+' -> '-', '-' -> '+')", oki, construct="sign inversion after a zone name",
           detail="" if oki else str(sorted(tab)), analysis="must-hold branch facts at the in-place sign rewrite")
    # the whole 'GMT+3' step: invert the sign token, forget the name's own offset, and drop the name when it is a UTC alias
    def rewrites_sign(st_):
        """the statement (an assignment, or the if statement the canonical view makes of it) stores '+' / '-' into a token"""
        for y in ast.walk(st_):
            if isinstance(y, ast.Assign) and isinstance(y.targets[0], ast.Subscript) and any(
                    isinstance(c_, ast.Constant) and c_.value in ("+", "-") for c_ in ast.walk(y.value)):
                return True
        return False
    gm = [n for n in walk_local(pp.node) if isinstance(n, ast.If) and "in ('+', '-')" in src(n.test) and any(rewrites_sign(x) for x in n.body)]
    if len(gm) != 1:
        raise AnalysisError("C02.OFFSET", pp.qualname, "sign inversion step after a zone name not found (%d candidates)" % len(gm))
    from .. import summ
    summ.check_ref(ctx, "C02.OFFSET", gm[0].body, "after a zone name followed by a sign: the sign token is inverted, the name's own offset is cleared so that the "
                   "numeric one applies, and the name is dropped exactly when it is a UTC alias (GMT+3 is not GMT)", """
        l[i + 1] = ('+', '-')[l[i + 1] == '+']
        res.tzoffset = None
        if info.utczone(res.tzname):
            res.tzname = None
        """, construct="zone name followed by a sign", where=pp, outcome=summ.outcome_with(stores=lambda t: True, result=False))
    clr = [n for n in cfg.live_nodes() if n.kind == "stmt" and src(n.ast) == "res.tzoffset = None"]
    ctx.ob("C02.OFFSET", pp, "... and the name's own offset is cleared so the numeric one applies", len(clr) == 1 and bool(inv) and cfg.path_avoiding(inv[0], clr, avoid_nodes=[]) is not None,
           construct="res.tzoffset = None after inversion")
    four = [n for n in cfg.live_nodes() if n.kind == "stmt" and isinstance(n.ast, ast.Assign) and src(n.ast.targets[0]) in ("hour_offset", "min_offset") and ("len_li == 4", True) in facts.at(n)]
    got = sorted(src(n.ast) for n in four)
    ctx.ob("C02.OFFSET", pp, "a 4-digit offset splits into HH and MM", got == ["hour_offset = int(l[i + 1][:2])", "min_offset = int(l[i + 1][2:])"], construct="HHMM split", detail=str(got))

    # ---------------------------------------------------------------- C02.FLAGS
    for flag in ("dayfirst", "yearfirst"):
        defs = [n for n in cfg.live_nodes() if n.kind == "stmt" and isinstance(n.ast, (ast.Assign, ast.AugAssign)) and any(
            isinstance(t, ast.Name) and t.id == flag for t in (n.ast.targets if isinstance(n.ast, ast.Assign) else [n.ast.target]))]
        ok = len(defs) == 1 and src(defs[0].ast.value) == "info." + flag and (flag + " is None", True) in facts.at(defs[0])
        ctx.ob("C02.FLAGS", pp, "the parserinfo default for %s is used only when the option was not given (`is None`): an explicit False must win" % flag, ok,
               construct="default of %s" % flag, detail="" if ok else str([(stmt_text(n), sorted(t for t, tv in facts.at(n) if tv and flag in t)) for n in defs]),
               analysis="must-hold branch facts")
    res_call = [x for x in walk_local(pp.node) if isinstance(x, ast.Call) and src(x.func) == "ymd.resolve_ymd"]
    ctx.ob("C02.FLAGS", pp, "the flags reach the year/month/day resolution in (yearfirst, dayfirst) order", len(res_call) == 1 and [src(a) for a in res_call[0].args] == ["yearfirst", "dayfirst"],
           construct="ymd.resolve_ymd(yearfirst, dayfirst)")

    # ---------------------------------------------------------------- C02.BOUNDS
    n_b = 0
    for f in (prog.method(ymd.qualname, "resolve_ymd", "C02.BOUNDS"), prog.method(ymd.qualname, "could_be_day", "C02.BOUNDS")):
        for x in walk_local(f.node):
            if isinstance(x, ast.Compare):
                left = x.left
                for op, right in zip(x.ops, x.comparators):
                    for a, o, b_ in ((left, type(op).__name__, right), (right, {"Lt": "Gt", "LtE": "GtE", "Gt": "Lt", "GtE": "LtE"}.get(type(op).__name__), left)):
                        if o and isinstance(b_, ast.Constant) and isinstance(b_.value, int) and b_.value in (11, 12, 13, 30, 31, 32) and not isinstance(a, ast.Constant):
                            if src(a).startswith("len") or "stridx" in src(a) or src(a) in ("len_ymd",):
                                continue
                            bd = boundary(o, b_.value)
                            n_b += 1
                            ctx.ob("C02.BOUNDS", f, "a year/month/day candidate is separated at 12|13 (months) or 31|32 (days)", bd in (12, 31),
                                   construct="%s: %s" % (f.name, src(x)), detail="" if bd in (12, 31) else "this test separates at %d|%d" % (bd, bd + 1),
                                   analysis="CMP boundary normalisation")
                    left = right
    ctx.floor("C02.BOUNDS", n_b, 15, "candidate/literal comparisons")
    cbd = prog.method(ymd.qualname, "could_be_day", "C02.BOUNDS")
    lows = [src(x) for x in walk_local(cbd.node) if isinstance(x, ast.Compare) and len(x.ops) == 2]
    ctx.ob("C02.BOUNDS", cbd, "a day candidate is at least 1 and at most the month length", len(lows) == 3 and all(s_.startswith("1 <= value <= ") for s_ in lows), construct="could_be_day ranges", detail=str(lows))

    # ---------------------------------------------------------------- C02.CENTURY
    pnt = prog.method(ps.qualname, "_parse_numeric_token", "C02.CENTURY")
    n_y = 0
    for f in (pnt, pp):
        for x in walk_local(f.node):
            if isinstance(x, ast.Call) and src(x.func) == "ymd.append" and len(x.args) == 2 and src(x.args[1]) == "'Y'":
                n_y += 1
                a = x.args[0]
                textual = isinstance(a, ast.Subscript)
                if isinstance(a, ast.Name):
                    # a name is text when everything it can stand for is a token (or a slice of one), never a converted number
                    from ..rules_common import value_set
                    fcfg = ctx.cfg(f)
                    vals = set()
                    for n_ in fcfg.live_nodes():
                        if n_.kind == "stmt" and n_.ast is not None and any(y is x for y in ast.walk(n_.ast)):
                            vals |= value_set(ctx, f, n_, a)
                    textual = bool(vals) and all(re.match(r"^(\w+)\[[^\]]*\](\[[^\]]*\])?$", v) or v.startswith("str(") or v in ("value_repr", "year") for v in vals)
                ctx.ob("C02.CENTURY", f, "a year field labelled 'Y' reaches _ymd.append as text, so its width (not its value) decides whether the century was specified",
                       textual and not (isinstance(a, ast.Call) and src(a.func) == "int"), construct="%s: %s" % (f.name, src(x)),
                       detail="" if textual else "numeric argument: a year below 100 written with four digits would be re-centred", analysis="FIELD type/width bookkeeping")
    ctx.floor("C02.CENTURY", n_y, 2, "ymd.append(..., 'Y') sites")
    ap = prog.method(ymd.qualname, "append", "C02.CENTURY")
    afacts = ctx.facts(ap)
    acfg = ctx.cfg(ap)
    cs = [n for n in acfg.live_nodes() if n.kind == "stmt" and src(n.ast) == "self.century_specified = True"]
    conds = sorted(sorted(t for t, tv in afacts.at(n) if tv and ("len(val)" in t or "val > 100" in t or "isdigit" in t)) for n in cs)
    ctx.ob("C02.CENTURY", ap, "the century flag is set for digit text longer than 2 characters or numbers above 100", len(cs) == 2 and
           any("len(val) > 2" in " ".join(c) for c in conds) and any("val > 100" in " ".join(c) for c in conds), construct="century_specified conditions", detail=str(conds))
    yslice = [x for x in walk_local(pnt.node) if isinstance(x, ast.Call) and src(x.func) == "ymd.append" and x.args and isinstance(x.args[0], ast.Subscript)
              and isinstance(x.args[0].slice, ast.Slice) and (x.args[0].slice.lower is None or src(x.args[0].slice.lower) == "0")
              and src(x.args[0].slice.upper) == "4" and x.args[0].slice.step is None]
    ctx.ob("C02.CENTURY", pnt, "YYYYMMDD[...] tokens hand the first four characters over as the year", len(yslice) == 1 and len(yslice[0].args) == 2, construct="ymd.append(s[:4], 'Y')")

    # ---------------------------------------------------------------- C02.FRAC
    pm = prog.method(ps.qualname, "_parsems", "C02.FRAC")
    rets = [x for x in walk_local(pm.node) if isinstance(x, ast.Return)]
    okf = False
    detail = ""
    for r in rets:
        for x in ast.walk(r.value):
            if isinstance(x, ast.Subscript) and isinstance(x.value, ast.Call) and src(x.value.func).endswith(".ljust"):
                pad = x.value.args[0].value if isinstance(x.value.args[0], ast.Constant) else None
                fill = x.value.args[1].value if len(x.value.args) > 1 and isinstance(x.value.args[1], ast.Constant) else None
                cut = x.slice.upper.value if isinstance(x.slice, ast.Slice) and isinstance(x.slice.upper, ast.Constant) and x.slice.lower is None else None
                detail = "ljust(%r, %r)[:%r]" % (pad, fill, cut)
                okf = pad == cut == 6 and fill == "0"
    ctx.ob("C02.FRAC", pm, "fractions of a second are right-padded with '0' and cut to the same width 6 (microseconds, truncated)", okf, construct="_parsems fraction", detail=detail, analysis="constant agreement")
    ctx.ob("C02.FRAC", pm, "a value without a dot has zero microseconds", any(src(r.value).replace(" ", "") == "(int(value),0)" for r in rets), construct="_parsems integer case")
    gt = prog.func("parser._parser._timelex.get_token", "C02.FRAC")
    gcfg = ctx.cfg(gt)
    gf = ctx.facts(gt)
    rp = [n for n in gcfg.live_nodes() if n.kind == "stmt" and "token.replace(',', '.')" in src(n.ast)]
    okr = len(rp) == 1 and any(tv and "token.count('.') == 0" in t and "state == '0.'" in t for t, tv in gf.at(rp[0]))
    ctx.ob("C02.FRAC", gt, "a decimal comma is rewritten to a dot only in a numeric token that has no dot", okr, construct="comma -> dot", analysis="must-hold branch facts")

    # ---------------------------------------------------------------- C02.AMPM
    aa = prog.method(ps.qualname, "_adjust_ampm", "C02.AMPM")
    for label, seeds, want in (("any 12-hour value", {"hour": Val(0, 12), "ampm": Val(0, 1)}, (0, 23)),
                               ("12 am", {"hour": Val(12, 12), "ampm": Val(0, 0)}, (0, 0)),
                               ("12 pm", {"hour": Val(12, 12), "ampm": Val(1, 1)}, (12, 12)),
                               ("1..11 pm", {"hour": Val(1, 11), "ampm": Val(1, 1)}, (13, 23)),
                               ("0..11 am", {"hour": Val(0, 11), "ampm": Val(0, 0)}, (0, 11))):
        rv = Interp(prog, aa, seeds=seeds).run().return_value()
        ctx.ob("C02.AMPM", aa, "%s maps into [%d, %d]" % (label, want[0], want[1]), isinstance(rv, Val) and rv.lo == want[0] and rv.hi == want[1],
               construct="_adjust_ampm: %s" % label, detail="interval analysis gives %r" % (rv,), analysis="IVL")
    av = prog.method(ps.qualname, "_ampm_valid", "C02.AMPM")
    from ..rules_common import check_effect_table
    check_effect_table(ctx, "C02.AMPM", av, "an AM/PM marker requires an hour in 0..12 (otherwise ValueError, or the marker is ignored in fuzzy mode)", construct="_ampm_valid range")

    # ---------------------------------------------------------------- C02.NAMES
    def table(name):
        node = pi.assigns.get(name)
        if not isinstance(node, ast.List):
            raise AnalysisError("C02.NAMES", pi.qualname + "." + name, "table not a list literal")
        out = []
        for e in node.elts:
            if isinstance(e, ast.Tuple):
                out.append([x.value for x in e.elts])
            else:
                out.append([e.value])
        return out
    months = table("MONTHS")
    okm = len(months) == 12 and all(m[0] == calendar.month_abbr[i + 1] and m[-1] == calendar.month_name[i + 1] for i, m in enumerate(months))
    ctx.ob("C02.NAMES", pi, "MONTHS has 12 entries in calendar order (abbreviation first, full name last)", okm, construct="MONTHS", analysis="CONST vs stdlib calendar")
    wds = table("WEEKDAYS")
    okw = len(wds) == 7 and all(w[0] == calendar.day_abbr[i] and w[-1] == calendar.day_name[i] for i, w in enumerate(wds))
    ctx.ob("C02.NAMES", pi, "WEEKDAYS has 7 entries, Monday first (the index is used as relativedelta weekday)", okw, construct="WEEKDAYS", analysis="CONST vs stdlib calendar")
    hms = table("HMS")
    ctx.ob("C02.NAMES", pi, "HMS lists hour, minute, second forms in that order", [h[0] for h in hms] == ["h", "m", "s"] and [h[1] for h in hms] == ["hour", "minute", "second"], construct="HMS")
    ampm = table("AMPM")
    ctx.ob("C02.NAMES", pi, "AMPM lists am forms first and pm forms second (pm is index 1)", [a[0] for a in ampm] == ["am", "pm"], construct="AMPM")
    mo = prog.method(pi.qualname, "month", "C02.NAMES")
    ctx.ob("C02.NAMES", mo, "month() returns the 1-based table index", any(isinstance(x, ast.Return) and src(x.value).replace(" ", "") == "self._months[name.lower()]+1" for x in walk_local(mo.node)), construct="month(): index + 1")
    wk = prog.method(pi.qualname, "weekday", "C02.NAMES")
    ctx.ob("C02.NAMES", wk, "weekday() returns the 0-based table index", any(isinstance(x, ast.Return) and src(x.value).replace(" ", "") == "self._weekdays[name.lower()]" for x in walk_local(wk.node)), construct="weekday(): index")
    ah = prog.method(ps.qualname, "_assign_hms", "C02.NAMES")
    hf = ctx.facts(ah)
    hcfg = ctx.cfg(ah)
    slots = {}
    for n in hcfg.live_nodes():
        if n.kind == "stmt" and isinstance(n.ast, ast.Assign):
            tg = sorted(set(y.attr for t in n.ast.targets for y in ast.walk(t) if isinstance(y, ast.Attribute) and src(y.value) == "res"))
            for t, tv in hf.at(n):
                if tv and t.startswith("hms == "):
                    slots.setdefault(int(t.split("== ")[1]), set()).update(tg)
    ctx.ob("C02.NAMES", ah, "label index 0 assigns the hour, 1 the minute (and seconds from its fraction), 2 the second (and microseconds)",
           slots == {0: {"hour", "minute"}, 1: {"minute", "second"}, 2: {"second", "microsecond"}}, construct="_assign_hms slots", detail=str(slots), analysis="must-hold branch facts")
    cv = prog.method(pi.qualname, "_convert", "C02.NAMES")
    idxs = [y.target.elts[0].id for y in walk_local(cv.node) if isinstance(y, ast.For) and isinstance(y.iter, ast.Call) and src(y.iter.func) == "enumerate"
            and isinstance(y.target, ast.Tuple) and isinstance(y.target.elts[0], ast.Name)]
    stores_ = [y for y in walk_local(cv.node) if isinstance(y, ast.Assign) and isinstance(y.targets[0], ast.Subscript)]
    okcv = len(idxs) == 1 and bool(stores_) and all(
        isinstance(y.targets[0].slice, ast.Call) and isinstance(y.targets[0].slice.func, ast.Attribute) and y.targets[0].slice.func.attr == "lower"
        and isinstance(y.value, ast.Name) and y.value.id == idxs[0] for y in stores_)
    ctx.ob("C02.NAMES", cv, "name tables are matched case-insensitively, every spelling mapping to its entry's index", okcv, construct="_convert",
           detail="" if okcv else "stores: %s" % [src(y) for y in stores_], analysis="FIELD wiring: key .lower(), value the enumerate index")

    # ---------------------------------------------------------------- C02.BUILD
    bn = prog.method(ps.qualname, "_build_naive", "C02.BUILD")
    loops = [n for n in walk_local(bn.node) if isinstance(n, ast.For) and isinstance(n.iter, (ast.Tuple, ast.List))]
    names = [e.value for e in loops[0].iter.elts] if loops else []
    body = src(loops[0].body) if loops else ""
    ctx.ob("C02.BUILD", bn, "parsed year..microsecond replace the default's fields under their own names, only when present",
           names == ["year", "month", "day", "hour", "minute", "second", "microsecond"] and "getattr(res, attr)" in body and "repl[attr] = value" in body and "is not None" in body,
           construct="_build_naive field loop", detail=str(names), analysis="FIELD same-field")
    ctx.ob("C02.BUILD", bn, "the result is default.replace(**repl)", any(isinstance(x, ast.Call) and src(x) == "default.replace(**repl)" for x in walk_local(bn.node)), construct="default.replace(**repl)")
    pr = prog.method(ps.qualname, "parse", "C02.BUILD")
    dflt = [n for n in walk_local(pr.node) if isinstance(n, ast.Assign) and src(n.targets[0]) == "default"]
    ctx.ob("C02.BUILD", pr, "without a default, missing fields come from today at midnight", len(dflt) == 1 and
           src(dflt[0].value).replace(" ", "") == "datetime.datetime.now().replace(hour=0,minute=0,second=0,microsecond=0)", construct="default default")

    # ---------------------------------------------------------------- C02.ARGS
    from ..rules_common import check_call_arguments
    check_call_arguments(ctx, "C02.ARGS", "C02")
    from ..rules_common import check_effect_tables
    check_effect_tables(ctx, "C02")
    from ..rules_common import check_presence_tests, ARG_SCOPE
    check_presence_tests(ctx, "C02.PRESENCE", classes=ARG_SCOPE.get("C02", []))
    from ..rules_common import check_param_rebinding
    check_param_rebinding(ctx, "C02.PARAMS", classes=ARG_SCOPE.get("C02", []))
    from ..rules_common import check_region_table, statements_mentioning
    check_region_table(ctx, "C02.TABLE", prog.method(prog.cls("parser._parser.parser", "C02.TABLE").qualname, "_parse", "C02.TABLE"), statements_mentioning({"tzoffset", "hour_offset", "min_offset"}),
                       "a numeric UTC offset is sign * (hours * 3600 + minutes * 60) from the two-digit fields at the cursor, whatever the sign and the hour",
                       "_parse: numeric UTC offset")


