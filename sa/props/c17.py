"""C17 - iCalendar VTIMEZONE zones agree with the same rules given as a TZ string."""
import ast

from ..model import src, walk_local, AnalysisError
from ..linform import poly, show
from .. import unit, rules_lock
from ..prog import check_cursor_loop
from ..rules_lock import stmt_text
from .c10 import norm_cmp

CLAIM = ("static analysis (dominance of the mandatory-field guards, unit/sign normal forms of the offset decoder, cache "
         "key agreement and critical-section coverage of the lookup cache, comparator and first-match shape of the "
         "component selection, field wiring of the component record): necessary conditions of C17; equality of offsets "
         "with tzrange/tzstr at all instants is NOT decided")
TECHNIQUE = "must-hold branch facts / CFG dominance, polynomial normal forms (UNIT/SIGN), LOCK typestate + who-may-touch, CMP tables, FIELD wiring (ast only)"
EXPLANATION = (
    "C17.MAND: a component is constructed only with DTSTART seen and both offsets not None; a zone is registered only "
    "with its component closed, a TZID and at least one component; unknown components/properties/parameters raise "
    "ValueError. C17.OFFSET: HHMM and HHMMSS decode to sign*(3600*HH + 60*MM [+ SS]) with the sign on every term, "
    "'+' -> +1, '-' -> -1, other lengths rejected. C17.KEY: the lookup-cache key is the same expression for lookup "
    "and insert and contains the fold; both parallel lists are mutated only with the zone's lock held, in one "
    "critical section, at the same position; C17.PAIR lock pairing. C17.PICK: the component with the latest onset "
    "not after the wall time wins (`lastcompdt < compdt`, rrule.before(dt, inc=True)), the fold shifts the probe by "
    "the negative offset difference, and before the first onset the FIRST non-DST component is taken (assignment "
    "under `not comp.isdst` followed immediately by break). C17.COMP: utcoffset = TZOFFSETTO, dst = TO - FROM for "
    "DAYLIGHT components else zero, abbreviation = TZNAME; recurrence lines go through rrulestr(compatible, ignoretz, "
    "cache). C17.GET: get() without a name raises ValueError unless exactly one zone is defined. C17.TERM: the line "
    "unfolding loop advances. C17.EXC: the exception-escape analysis from tzical(...) finds only ValueError subclasses, "
    "OSError (opening the file) or OverflowError escaping; get() raises only ValueError.")
ASSUMPTIONS = ["rrule.before and rrulestr behave as in C12/C13", "agreement with tzrange/tzstr at every instant is NOT decided"]


def run(ctx):
    prog = ctx.prog
    tzical = prog.cls("tz.tz.tzical", "C17")
    vtz = prog.cls("tz.tz._tzicalvtz", "C17")
    comp = prog.cls("tz.tz._tzicalvtzcomp", "C17")
    pr = prog.method(tzical.qualname, "_parse_rfc", "C17.MAND")
    cfg = ctx.cfg(pr)
    facts = ctx.facts(pr)

    # ---------------------------------------------------------------- C17.MAND
    ctor = [n for n in cfg.live_nodes() if n.kind == "stmt" and isinstance(n.ast, ast.Assign) and isinstance(n.ast.value, ast.Call) and src(n.ast.value.func) == "_tzicalvtzcomp"]
    if len(ctor) != 1:
        raise AnalysisError("C17.MAND", pr.qualname, "component construction not found")
    fs = facts.at(ctor[0])
    for cond, truth, what in (("founddtstart", True, "DTSTART"), ("tzoffsetfrom is None", False, "TZOFFSETFROM"), ("tzoffsetto is None", False, "TZOFFSETTO")):
        ctx.ob("C17.MAND", pr, "a component is built only when %s was given" % what, (cond, truth) in fs, construct="guard %s before _tzicalvtzcomp(...)" % what,
               detail="" if (cond, truth) in fs else str(sorted(t for t, tv in fs if "tzoffset" in t or "dtstart" in t)), analysis="must-hold branch facts")
    args = [src(a) for a in ctor[0].ast.value.args]
    ctx.ob("C17.MAND", pr, "the component receives (from, to, isdst = DAYLIGHT, name, rule) in that order",
           [a.replace(" ", "") for a in args] == ["tzoffsetfrom", "tzoffsetto", "comptype=='DAYLIGHT'", "tzname", "rr"], construct="_tzicalvtzcomp arguments", detail=str(args), analysis="FIELD wiring")
    reg = [n for n in cfg.live_nodes() if n.kind == "stmt" and isinstance(n.ast, ast.Assign) and src(n.ast.targets[0]) == "self._vtz[tzid]"]
    if len(reg) != 1:
        raise AnalysisError("C17.MAND", pr.qualname, "zone registration not found")
    fs = facts.at(reg[0])
    for cond, truth, what in (("comptype", False, "the last component is closed"), ("tzid", True, "a TZID was given"), ("comps", True, "at least one component exists")):
        ctx.ob("C17.MAND", pr, "a zone is registered only when %s" % what, (cond, truth) in fs, construct="guard `%s` before registration" % cond, analysis="must-hold branch facts")
    ctx.ob("C17.MAND", pr, "the zone is registered under its TZID with its components", src(reg[0].ast.value).replace(" ", "") == "_tzicalvtz(tzid,comps)", construct="self._vtz[tzid] = _tzicalvtz(tzid, comps)")
    raises = [n for n in cfg.live_nodes() if n.kind == "stmt" and isinstance(n.ast, ast.Raise) and n.ast.exc is not None]
    ctx.ob("C17.MAND", pr, "every explicit raise of the VTIMEZONE parser is a ValueError", len(raises) >= 14 and all(src(r.ast.exc).startswith("ValueError") for r in raises),
           construct="raise statements of tzical._parse_rfc", detail="%d raises" % len(raises))
    unk = {"unknown component": 0, "unsupported property": 0, "invalid component end": 0, "component not closed": 0}
    for r in raises:
        for k in unk:
            if k in src(r.ast):
                unk[k] += 1
    ctx.ob("C17.MAND", pr, "unknown components, unknown properties (inside and outside components) and mismatched ENDs are rejected",
           unk["unknown component"] == 1 and unk["unsupported property"] == 2 and unk["invalid component end"] == 1 and unk["component not closed"] == 1, construct="rejections", detail=str(unk))
    resets = [n for n in cfg.live_nodes() if n.kind == "stmt" and src(n.ast) in ("founddtstart = False", "tzoffsetfrom = None", "tzoffsetto = None", "rrulelines = []", "tzname = None")]
    ctx.ob("C17.MAND", pr, "per-component state is reset at every BEGIN", len(resets) == 5 and all(("name == 'BEGIN'", True) in facts.at(n) for n in resets), construct="BEGIN resets")
    # per-zone state: whatever must be present at END:VTIMEZONE is cleared at BEGIN:VTIMEZONE (a value left over from
    # the previous block must not satisfy the check)
    import re as _re
    end_raises = [n for n in cfg.live_nodes() if n.kind == "stmt" and isinstance(n.ast, ast.Raise)
                  and any(tv and t.replace('"', "'") in ("value == 'VTIMEZONE'", "'VTIMEZONE' == value") for t, tv in facts.at(n))
                  and any(tv and t.replace('"', "'") in ("name == 'END'", "'END' == name") for t, tv in facts.at(n))]
    need = set()
    for n in end_raises:
        for b_, lab in n.pred:
            if b_.kind == "branch" and lab == "true" and isinstance(b_.ast, ast.UnaryOp) and isinstance(b_.ast.op, ast.Not) and isinstance(b_.ast.operand, ast.Name):
                need.add(b_.ast.operand.id)         # `if not X: raise`
            if b_.kind == "branch" and lab == "false" and isinstance(b_.ast, ast.Name):
                need.add(b_.ast.id)                 # `if X: ... else: raise`
    need = sorted(need)
    begin_vtz = [n for n in cfg.live_nodes() if n.kind == "stmt" and isinstance(n.ast, ast.Assign)
                 and any(tv and t.replace('"', "'") in ("value == 'VTIMEZONE'", "'VTIMEZONE' == value") for t, tv in facts.at(n))
                 and any(tv and t.replace('"', "'") in ("name == 'BEGIN'", "'BEGIN' == name") for t, tv in facts.at(n))]
    cleared = set(x.id for n in begin_vtz for t_ in n.ast.targets for x in ast.walk(t_) if isinstance(x, ast.Name))
    missing_ = [x for x in need if x not in cleared]
    ctx.ob("C17.MAND", pr, "per-zone state required at END:VTIMEZONE (%s) is reset at every BEGIN:VTIMEZONE" % ", ".join(need), bool(need) and not missing_,
           construct="BEGIN:VTIMEZONE resets", detail="" if not missing_ else "not reset: %s" % missing_, analysis="must-hold branch facts: required-at-end vs assigned-at-begin")
    # the component kind that is stored is the text that was validated, and DAYLIGHT is recognised from that same text
    kinds = [n for n in cfg.live_nodes() if n.kind == "stmt" and isinstance(n.ast, ast.Assign) and len(n.ast.targets) == 1 and isinstance(n.ast.targets[0], ast.Name)
             and isinstance(n.ast.value, ast.Name) and any(tv and t.replace('"', "'") in ("name == 'BEGIN'", "'BEGIN' == name") for t, tv in facts.at(n))
             and not any(tv and "VTIMEZONE" in t for t, tv in facts.at(n))]
    okk = len(kinds) == 1 and any(tv and t.replace('"', "'").replace(" ", "") == "%sin('STANDARD','DAYLIGHT')" % kinds[0].ast.value.id for t, tv in facts.at(kinds[0]))
    ctx.ob("C17.MAND", pr, "the component kind stored at BEGIN is exactly the validated text (STANDARD / DAYLIGHT as written: the daylight flag compares that text later)", okk,
           construct="component kind validation", detail="" if okk else ("facts: %s" % sorted(t for t, tv in facts.at(kinds[0]) if tv)[:5] if kinds else "kind assignment not found"),
           analysis="must-hold branch facts")
    rrs = [x for x in walk_local(pr.node) if isinstance(x, ast.Call) and src(x.func) == "rrule.rrulestr"]
    kw = {k.arg: src(k.value) for k in rrs[0].keywords} if rrs else {}
    ctx.ob("C17.MAND", pr, "recurrence lines are parsed with rrulestr(compatible=True, ignoretz=True, cache=True) (DTSTART becomes an occurrence; naive wall times)",
           len(rrs) == 1 and kw == {"compatible": "True", "ignoretz": "True", "cache": "True"} and src(rrs[0].args[0]).replace(" ", "") == "'\\n'.join(rrulelines)", construct="rrulestr options", detail=str(kw))
    lines = sorted(src(n.ast) for n in cfg.live_nodes() if n.kind == "stmt" and "rrulelines.append(line)" in src(n.ast))
    ctx.ob("C17.MAND", pr, "DTSTART and RRULE/RDATE/EXRULE/EXDATE lines are all collected for the rule", len(lines) == 2, construct="rrulelines.append(line)")

    # ---------------------------------------------------------------- C17.OFFSET
    po = prog.method(tzical.qualname, "_parse_offset", "C17.OFFSET")
    n_s = unit.check_function(ctx, "C17.OFFSET", po)
    ctx.stat("C17.OFFSET.unit_sites", n_s)      # the decoder is decided as a whole by the table below
    from .. import summ
    summ.check_ref(ctx, "C17.OFFSET", po, "'+' maps to +1, '-' to -1, no sign to +1; the sign character is removed before the digits are cut; only HHMM and HHMMSS are "
                   "accepted (3600, 60, 1 with the sign on every term); an empty or other-length offset raises ValueError", """
        s = s.strip()
        if not s:
            raise ValueError("empty offset")
        if s[0] in ('+', '-'):
            signal = (-1, +1)[s[0] == '+']
            s = s[1:]
        else:
            signal = +1
        if len(s) == 4:
            return (int(s[:2]) * 3600 + int(s[2:]) * 60) * signal
        elif len(s) == 6:
            return (int(s[:2]) * 3600 + int(s[2:4]) * 60 + int(s[4:])) * signal
        else:
            raise ValueError("invalid offset: " + s)
        """, construct="_parse_offset table")

    # ---------------------------------------------------------------- C17.KEY / C17.PAIR
    fc = prog.method(vtz.qualname, "_find_comp", "C17.KEY")
    before = len(ctx.obs)
    rules_lock.check_pairing(ctx, "C17", {"dateutil.tz.tz"}, foreign_rule="C17.FOREIGN")
    ctx.obs[before:] = [o for o in ctx.obs[before:] if "_tzicalvtz" in o.qualname]
    n_acc = rules_lock.check_touch(ctx, "C17.KEY", fc, vtz.name, {"_cachedate", "_cachecomp"},
                                   why="two parallel lists must change together")
    ctx.floor("C17.KEY", n_acc, 6, "accesses to the lookup cache lists")
    # outside _find_comp nobody touches the lists except __init__
    others = []
    for f in prog.active_functions():
        if f is fc or f.name == "__init__" and f.cls is vtz:
            continue
        for x in walk_local(f.node):
            if isinstance(x, ast.Attribute) and x.attr in ("_cachedate", "_cachecomp"):
                others.append(f.qualname)
    ctx.ob("C17.KEY", vtz, "the cache lists are touched only by _find_comp (and created in __init__)", not others, construct="who touches _cachedate/_cachecomp", detail=str(sorted(set(others))), analysis="who-may-touch")
    fcfg = ctx.cfg(fc)
    keys = {}
    for n in fcfg.live_nodes():
        if n.ast is None or n.kind not in ("stmt", "branch"):
            continue
        for x in ast.walk(n.ast):
            if isinstance(x, ast.Call) and isinstance(x.func, ast.Attribute) and src(x.func.value) == "self._cachedate":
                if x.func.attr == "index":
                    keys["lookup"] = src(x.args[0])
                elif x.func.attr == "insert":
                    keys["insert"] = src(x.args[1])
                    keys["insert_pos"] = src(x.args[0])
            if isinstance(x, ast.Call) and isinstance(x.func, ast.Attribute) and src(x.func.value) == "self._cachecomp" and x.func.attr == "insert":
                keys["comp_pos"] = src(x.args[0])
                keys["comp_val"] = src(x.args[1])
    ctx.ob("C17.KEY", fc, "the cache is looked up and filled with the same key expression", keys.get("lookup") is not None and keys.get("lookup") == keys.get("insert"),
           construct="cache key: %s" % keys.get("lookup"), detail=str(keys), analysis="FIELD reader/writer agreement")
    ctx.ob("C17.KEY", fc, "the key contains the fold (the same wall time maps to different components on either side of a fold)",
           "self._fold(dt)" in (keys.get("lookup") or "") and "dt" in (keys.get("lookup") or ""), construct="fold in cache key")
    ctx.ob("C17.KEY", fc, "key and component are inserted at the same position of the two parallel lists", keys.get("insert_pos") == keys.get("comp_pos") == "0",
           construct="parallel insert positions", detail=str(keys))
    rets = [n for n in fcfg.live_nodes() if n.kind == "stmt" and isinstance(n.ast, ast.Return)]
    last = [n for n in rets if isinstance(n.ast.value, ast.Name)]
    ctx.ob("C17.KEY", fc, "the component stored in the cache is the one returned", len(last) == 1 and keys.get("comp_val") == last[0].ast.value.id, construct="cached value == returned value")
    # one critical section: no release between the two inserts / the two pops
    from ..lock import LockFlow, lock_attr_names
    flow = LockFlow(fcfg, fc, lock_attr_names(prog))
    ins = [n for n in fcfg.live_nodes() if n.kind == "stmt" and ".insert(" in src(n.ast) and "_cache" in src(n.ast)]
    rel = [r for le in flow.locks for r in flow.release_nodes(le)]
    ok = len(ins) == 2 and fcfg.path_avoiding(ins[0], [ins[1]], avoid_nodes=rel) is not None and not any(r in fcfg.reach([ins[0]]) and ins[1] in fcfg.reach([r]) for r in rel)
    ctx.ob("C17.KEY", fc, "both inserts happen in one critical section", ok, construct="insert ; insert without release", analysis="LOCK + CFG path query")
    pops = [n for n in fcfg.live_nodes() if n.kind == "stmt" and ".pop()" in src(n.ast) and "_cache" in src(n.ast)]
    lim = [n for n in fcfg.live_nodes() if n.kind == "branch" and "len(self._cachedate)" in src(n.ast)]
    ctx.ob("C17.KEY", fc, "the cache is trimmed from the far end of both lists together", len(pops) == 2 and len(lim) == 1, construct="eviction")

    # ---------------------------------------------------------------- C17.PICK
    ff = ctx.facts(fc)
    # the selection loop: the loop over the components that calls _find_compdt - one symbolic iteration against its table
    sel_loops = [n for n in walk_local(fc.node) if isinstance(n, ast.For) and any(
        isinstance(x, ast.Call) and src(x.func).endswith("_find_compdt") for b_ in n.body for x in ast.walk(b_))]
    if len(sel_loops) != 1:
        raise AnalysisError("C17.PICK", fc.qualname, "expected one loop calling _find_compdt, found %d" % len(sel_loops))
    from .. import equiv as _equiv
    summ.check_ref(ctx, "C17.PICK", [sel_loops[0]], "the component whose latest onset not after the wall time is the latest wins (strictly later replaces), "
                   "and the best onset is remembered with it", """
        for comp in self._comps:
            compdt = self._find_compdt(comp, dt)
            if compdt and (not lastcompdt or lastcompdt < compdt):
                lastcompdt = compdt
                lastcomp = comp
        """, construct="selection loop over the components", where=fc, alpha="auto", loops="body", outcome=_equiv.loose_outcome)
    fb = [n for n in fcfg.live_nodes() if n.kind == "stmt" and isinstance(n.ast, ast.Assign) and isinstance(n.ast.value, ast.Name) and n.ast.value.id == "comp"
          and ("comp.isdst", False) in ff.at(n)]
    okf = len(fb) == 1 and src(fb[0].ast.targets[0]) == "lastcomp" and ("lastcomp", False) in ff.at(fb[0]) and \
        all(s.kind == "stmt" and isinstance(s.ast, ast.Break) for s, lab in fb[0].succ if lab == "next")
    ctx.ob("C17.PICK", fc, "before the first onset the FIRST standard component applies: the assignment under `not comp.isdst` is followed directly by break",
           okf, construct="first standard component fallback", detail="" if okf else str([stmt_text(n) for n in fb]), analysis="must-hold branch facts + CFG successor")
    # whatever _find_comp returns is one of the zone's components: an element of self._comps (the loop variable of a loop
    # over it, or an item of it) or an entry of the component cache
    from ..rules_common import value_set
    comp_loop_vars = set(n.ast.target.id for n in fcfg.live_nodes() if n.kind == "for" and isinstance(n.ast.target, ast.Name) and src(n.ast.iter) == "self._comps")
    n_ret = 0
    for n in fcfg.live_nodes():
        if n.kind == "stmt" and isinstance(n.ast, ast.Return) and n.ast.value is not None:
            n_ret += 1
            vs = value_set(ctx, fc, n, n.ast.value)
            bad = []
            for t in sorted(vs):
                try:
                    e = ast.parse(t, mode="eval").body
                except SyntaxError:
                    bad.append(t)
                    continue
                okv = (isinstance(e, ast.Name) and e.id in comp_loop_vars) or (isinstance(e, ast.Subscript) and src(e.value) in ("self._comps", "self._cachecomp")) \
                    or (isinstance(e, ast.Constant) and e.value is None and False)
                if not okv:
                    bad.append(t)
            if "None" in bad and isinstance(n.ast.value, ast.Name):
                # the initial None is replaced on every path through the true edge of `if not <name>` before the return
                R_ = n.ast.value.id
                tests = [b for b in fcfg.live_nodes() if b.kind == "branch" and src(b.ast).replace(" ", "") in ("not" + R_, R_ + "isNone")]
                sets = [m for m in fcfg.live_nodes() if m.kind == "stmt" and isinstance(m.ast, ast.Assign) and any(src(t) == R_ for t in m.ast.targets)
                        and not (isinstance(m.ast.value, ast.Constant) and m.ast.value.value is None)]
                if tests and all(fcfg.path_avoiding(b, [n], avoid_nodes=sets, avoid_edges=[(b, "false")], include_start=False) is None for b in tests) \
                        and fcfg.dominates(tests, n):
                    bad.remove("None")
            ctx.ob("C17.PICK", fc, "the component returned for a wall time is one of the zone's components (an element of self._comps or a cached one)", not bad,
                   construct="_find_comp: %s" % stmt_text(n)[:60], detail="" if not bad else "can also be: %s" % ", ".join(bad[:4]),
                   analysis="reaching definitions (value set of the returned expression)")
    ctx.floor("C17.PICK", n_ret, 3, "returns of _find_comp")
    fcd = prog.method(vtz.qualname, "_find_compdt", "C17.PICK")
    body = src(fcd.node)
    ctx.ob("C17.PICK", fcd, "the onset is rrule.before(dt, inc=True): an onset exactly at the wall time counts", "comp.rrule.before(dt, inc=True)" in body, construct="comp.rrule.before(dt, inc=True)")
    dcfg = ctx.cfg(fcd)
    sh = [n for n in dcfg.live_nodes() if n.kind == "stmt" and isinstance(n.ast, ast.AugAssign) and src(n.ast.target) == "dt"]
    oks = len(sh) == 1 and isinstance(sh[0].ast.op, ast.Sub) and src(sh[0].ast.value) == "comp.tzoffsetdiff" and \
        any(tv and t.replace(" ", "") == "comp.tzoffsetdiff<ZEROandself._fold(dt)" for t, tv in ctx.facts(fcd).at(sh[0]))
    ctx.ob("C17.PICK", fcd, "on the second pass of a fold (offset going back) the probe is moved forward by the size of the jump", oks, construct="fold shift", analysis="must-hold branch facts")
    one = [n for n in fcfg.live_nodes() if n.kind == "stmt" and isinstance(n.ast, ast.Return) and src(n.ast.value) == "self._comps[0]"]
    ctx.ob("C17.PICK", fc, "a single-component zone always uses that component", len(one) == 1 and ("len(self._comps) == 1", True) in ff.at(one[0]), construct="single component")
    naive = [n for n in fcfg.live_nodes() if n.kind == "stmt" and src(n.ast) == "dt = dt.replace(tzinfo=None)"]
    ctx.ob("C17.PICK", fc, "components are compared on naive wall time", len(naive) == 1, construct="dt = dt.replace(tzinfo=None)")

    # ---------------------------------------------------------------- C17.COMP
    ci = prog.method(comp.qualname, "__init__", "C17.COMP")
    summ.check_ref(ctx, "C17.COMP", ci, "the component record stores from/to as timedeltas of the given seconds, diff = to - from, and the remaining fields under their names", """
        self.tzoffsetfrom = datetime.timedelta(seconds=tzoffsetfrom)
        self.tzoffsetto = datetime.timedelta(seconds=tzoffsetto)
        self.tzoffsetdiff = self.tzoffsetto - self.tzoffsetfrom
        self.isdst = isdst
        self.tzname = tzname
        self.rrule = rrule
        """, construct="_tzicalvtzcomp fields", alpha="auto", outcome=_equiv.loose_outcome, analysis="FIELD same-field table (guarded normal form)")
    uo = prog.method(vtz.qualname, "utcoffset", "C17.COMP")
    ctx.ob("C17.COMP", uo, "utcoffset is the selected component's TZOFFSETTO", "return self._find_comp(dt).tzoffsetto" in src(uo.node), construct="utcoffset body")
    ds = prog.method(vtz.qualname, "dst", "C17.COMP")
    dcf = ctx.cfg(ds)
    dfx = ctx.facts(ds)
    rr_ = {src(n.ast.value): sorted(t for t, tv in dfx.at(n) if t == "comp.isdst" for _ in [0] if True) and [tv for t, tv in dfx.at(n) if t == "comp.isdst"] for n in dcf.live_nodes() if n.kind == "stmt" and isinstance(n.ast, ast.Return)}
    ctx.ob("C17.COMP", ds, "dst is TO - FROM for a DAYLIGHT component and zero for a STANDARD one", rr_ == {"comp.tzoffsetdiff": [True], "ZERO": [False]}, construct="dst body", detail=str(rr_))
    tn = prog.method(vtz.qualname, "tzname", "C17.COMP")
    ctx.ob("C17.COMP", tn, "the abbreviation is the selected component's TZNAME", "return self._find_comp(dt).tzname" in src(tn.node), construct="tzname body")

    # ---------------------------------------------------------------- C17.GET
    gt = prog.method(tzical.qualname, "get", "C17.GET")
    gcfg = ctx.cfg(gt)
    gf = ctx.facts(gt)
    rs = [n for n in gcfg.live_nodes() if n.kind == "stmt" and isinstance(n.ast, ast.Raise)]
    conds = set(t for r in rs for t, tv in gf.at(r) if tv and "len(self._vtz)" in t)
    none0 = any(("len(self._vtz) == 0", True) in gf.at(r) or ("self._vtz", False) in gf.at(r) for r in rs)
    many = any(("len(self._vtz) > 1", True) in gf.at(r) or ("len(self._vtz) >= 2", True) in gf.at(r) for r in rs)
    ctx.ob("C17.GET", gt, "get() without a name raises ValueError when no zone or more than one zone is defined", len(rs) == 2 and all(src(r.ast.exc).startswith("ValueError") for r in rs)
           and none0 and many and all(("tzid is None", True) in gf.at(r) for r in rs), construct="get() guards", detail=str(sorted(conds)))
    pick = [n for n in gcfg.live_nodes() if n.kind == "stmt" and src(n.ast) == "tzid = next(iter(self._vtz))"]
    ctx.ob("C17.GET", gt, "the single zone is returned without naming it", len(pick) == 1 and "return self._vtz.get(tzid)" in src(gt.node), construct="single zone")

    # ---------------------------------------------------------------- C17.EXC
    from ..exc import check_escape
    from .c14 import SUPPRESS as PARSER_SUPPRESS, USER as PARSER_USER
    ti = prog.method(tzical.qualname, "__init__", "C17.EXC")
    check_escape(ctx, "C17.EXC", ti, ("ValueError", "OSError", "OverflowError"), seeds={(ti.qualname, "fileobj"): ["str", "unknown"]},
                 suppress=PARSER_SUPPRESS, user=set(PARSER_USER), explicit_ok={("dateutil.parser._parser.parser._build_tzinfo", "TypeError")},
                 min_functions=60, label="tzical()")
    sup = {(gt.qualname, "next(iter(self._vtz))"): "CHECKED by C17.GET: reached only when len(self._vtz) is neither 0 nor > 1, i.e. exactly one zone"}
    check_escape(ctx, "C17.EXC", gt, ("ValueError",), suppress=sup, label="tzical.get()")

    # ---------------------------------------------------------------- C17.TERM
    whiles = [n for n in cfg.live_nodes() if n.kind == "branch" and isinstance(n.loop, ast.While)]
    if len(whiles) != 1:
        raise AnalysisError("C17.TERM", pr.qualname, "unfold loop not found")
    check_cursor_loop(ctx, "C17.TERM", pr, cfg, whiles[0])

    # ---------------------------------------------------------------- C17.ARGS
    from ..rules_common import check_call_arguments
    check_call_arguments(ctx, "C17.ARGS", "C17")
    from ..rules_common import check_effect_tables
    check_effect_tables(ctx, "C17")
    from ..rules_common import check_presence_tests, ARG_SCOPE
    check_presence_tests(ctx, "C17.PRESENCE", classes=ARG_SCOPE.get("C17", []))
    from ..rules_common import check_param_rebinding
    check_param_rebinding(ctx, "C17.PARAMS", classes=ARG_SCOPE.get("C17", []))


