"""C18 - zone factories return one shared object per key, safely under threads."""
import ast

from ..model import src, mangle, walk_local, AnalysisError, FuncInfo, ClassInfo
from .. import rules_lock
from ..rules_lock import stmt_text
from ..lock import find_locks

CLAIM = ("static analysis (lock typestate + who-may-touch + def-use on the CFG + sibling agreement): necessary "
         "conditions of C18 - every access to a factory's instance map / strong cache happens under that "
         "factory's lock, the key is built from the call's arguments without lossy conversion, the object returned is the one stored in the map, singletons are created at import, "
         "zone __eq__ methods answer NotImplemented for foreign types and have __ne__/__hash__/__reduce__ siblings")
TECHNIQUE = "lock typestate dataflow over CFG, who-may-touch on name-mangled attributes, reaching-definition path queries, method-family set comparison (ast only)"
EXPLANATION = (
    "For each lock-owning factory (metaclasses _TzOffsetFactory/_TzStrFactory, the GettzFunc closure class) the "
    "protected state is derived from the source: attributes created next to the lock in __init__ that some "
    "other method mutates. C18.LOCKED: every read or write of them outside __init__ is in lock state 'held' "
    "(CFG typestate). C18.PAIR: lock released on all exits. C18.RETURN: a freshly constructed zone reaches a "
    "`return` only after being stored into the instance map, except on the one return that is guarded by the "
    "documented no-cache condition (C18.NOCACHE). C18.KEYINJ: the key of every map / strong-cache access is built only from the "
    "call's parameters, <parameter>.total_seconds(), constants and conditionals of those (no lossy conversion), and every "
    "parameter takes part in it. C18.BYPASS: instance()/nocache() never touch the maps. "
    "C18.SINGLETON: every class with the singleton metaclass is instantiated by a module-level statement in "
    "its defining module (import lock), since the metaclass __call__ itself is unlocked. C18.EQ: every zone "
    "__eq__ returns NotImplemented on the foreign-type path, and the class resolves __ne__ (negation of ==), "
    "__hash__ = None and a __reduce__. Retention under GC and full linearizability are NOT decided.")
ASSUMPTIONS = [
    "WeakValueDictionary/OrderedDict operations are not atomic (pure Python); plain attribute rebinding is",
    "module-level statements run under the import lock",
    "behaviour of the returned zones (offset equality at every instant) is NOT decided here",
]

ZONE_CLASSES = ["tz.tz.tzutc", "tz.tz.tzoffset", "tz.tz.tzlocal", "tz.tz.tzfile", "tz.tz.tzrange"]


def derive_protected(prog, cls):
    """Attributes assigned in cls.__init__ (other than locks) that another method of cls mutates or rebinds."""
    init = cls.methods.get("__init__")
    if init is None:
        return set()
    locks = set(a for c, a, f, n in find_locks(prog) if c is cls)
    created = set()
    for n in walk_local(init.node):
        if isinstance(n, ast.Assign):
            for t in n.targets:
                if isinstance(t, ast.Attribute) and isinstance(t.value, ast.Name):
                    created.add(mangle(cls.name, t.attr))
    created -= locks
    mutated = set()
    for name, f in cls.methods.items():
        if name == "__init__":
            continue
        for n in walk_local(f.node):
            if isinstance(n, ast.Attribute):
                m = mangle(cls.name, n.attr)
                if m in created and isinstance(n.ctx, (ast.Store, ast.Del)):
                    mutated.add(m)
            if isinstance(n, ast.Call) and isinstance(n.func, ast.Attribute) and n.func.attr in rules_lock.MUTATORS \
                    and isinstance(n.func.value, ast.Attribute):
                m = mangle(cls.name, n.func.value.attr)
                if m in created:
                    mutated.add(m)
            if isinstance(n, ast.Subscript) and isinstance(n.ctx, (ast.Store, ast.Del)) and isinstance(n.value, ast.Attribute):
                m = mangle(cls.name, n.value.attr)
                if m in created:
                    mutated.add(m)
    # attributes read together with a mutated one under the same naming family stay protected too
    # (e.g. __strong_cache_size is rebound by set_cache_size)
    return mutated


def lock_owning_classes(prog, module_names):
    out = []
    for c, a, f, n in find_locks(prog):
        if c is not None and f.module.name in module_names and c not in out:
            out.append(c)
    return out


def check_return_is_stored(ctx, rule, nocache_rule, f, cls, protected, map_attr):
    """Reaching-definition rule on `return X` in a factory __call__."""
    cfg = ctx.cfg(f)
    facts = ctx.facts(f)
    returns = [n for n in cfg.live_nodes() if n.kind == "stmt" and isinstance(n.ast, ast.Return)]
    if not returns:
        raise AnalysisError(rule, f.qualname, "factory has no return statement")

    def is_map(e):
        return isinstance(e, ast.Attribute) and mangle(cls.name, e.attr) == map_attr

    for r in returns:
        v = r.ast.value
        if not isinstance(v, ast.Name):
            ctx.ob(rule, f, "factory returns a local bound to the mapped instance", False, construct=stmt_text(r),
                   detail="return value is not a plain local name: idiom not modelled as safe")
            continue
        x = v.id
        ctor_defs, map_defs, other_defs, stores = [], [], [], []
        for n in cfg.live_nodes():
            a = n.ast
            if n.kind != "stmt" or a is None:
                continue
            if isinstance(a, ast.Assign) and any(isinstance(t, ast.Name) and t.id == x for t in a.targets):
                val = a.value
                if isinstance(val, ast.Call) and isinstance(val.func, ast.Attribute) and is_map(val.func.value) \
                        and val.func.attr in ("get", "setdefault", "__getitem__"):
                    map_defs.append(n)
                elif isinstance(val, ast.Subscript) and is_map(val.value):
                    map_defs.append(n)
                elif isinstance(val, ast.Call):
                    ctor_defs.append(n)
                else:
                    other_defs.append(n)
            # stores of x into the map
            if isinstance(a, ast.Assign) and isinstance(a.value, ast.Name) and a.value.id == x and any(
                    isinstance(t, ast.Subscript) and is_map(t.value) for t in a.targets):
                stores.append(n)
            if isinstance(a, ast.Expr) and isinstance(a.value, ast.Call) and isinstance(a.value.func, ast.Attribute) \
                    and is_map(a.value.func.value) and a.value.func.attr in ("setdefault", "__setitem__") \
                    and any(isinstance(g, ast.Name) and g.id == x for g in a.value.args):
                stores.append(n)
        ctx.stat("factory_return_defs", len(ctor_defs) + len(map_defs) + len(other_defs))
        for d in other_defs:
            ctx.ob(rule, f, "every definition of the returned name is a map lookup or a construction", False,
                   construct="%s ; %s" % (stmt_text(d), stmt_text(r)), detail="definition kind not modelled")
        killers = stores + map_defs
        for d in ctor_defs:
            path = cfg.path_avoiding(d, [r], avoid_nodes=killers, include_start=True)
            if path is None:
                ctx.ob(rule, f, "a freshly constructed zone is stored into the instance map before it is returned",
                       True, construct="%s ; %s" % (stmt_text(d), stmt_text(r)), analysis="CFG path query on reaching definitions")
                continue
            # uncached return: must be the documented no-cache case
            fs = [t for t, v2 in facts.at(r)]
            guard = [t for t, v2 in facts.at(r) if v2 and "is None" in t and "isinstance" in t]
            ok = bool(guard)
            if ok:
                # exactly the documented exceptions: no name, a local-zone class (tzlocal_classes), nothing found
                from ..summ import dnf
                import re as _re
                atoms_ = set()
                for case in dnf(ast.parse(guard[0], mode="eval").body, True):
                    for a_, tv_ in case:
                        atoms_.add((_re.sub(r"\b%s\b" % _re.escape(x), "RV", str(a_)), tv_))
                want_ = {("name is None", True), ("name is None", False), ("isinstance(RV, tzlocal_classes)", True), ("isinstance(RV, tzlocal_classes)", False),
                         ("RV is None", True)}
                if not (atoms_ <= want_ and {a for a, _ in atoms_} == {"name is None", "isinstance(RV, tzlocal_classes)", "RV is None"}):
                    ok = False
                    guard = ["the uncached cases are %s, not {no name, local zone class, nothing found}" % sorted(set(a for a, _ in atoms_))]
            ctx.ob(nocache_rule, f, "the only return of an unstored zone is guarded by the documented no-cache "
                   "condition (no name / local zone class / nothing found)", ok,
                   construct="%s ; %s" % (stmt_text(d), stmt_text(r)),
                   detail=("guard: %s" % guard[0]) if ok else "unstored construction reaches return via %s; facts at return: %s" % (
                       " -> ".join("L%d" % p.lineno for p in path if p.lineno), sorted(fs)[:6]),
                   analysis="CFG path query + must-hold branch facts")
        if not ctor_defs and not map_defs:
            ctx.ob(rule, f, "returned name is defined from the instance map", False, construct=stmt_text(r),
                   detail="no definition found")
        elif not ctor_defs:
            ctx.ob(rule, f, "returned name is defined only from the instance map", True, construct=stmt_text(r))


def run(ctx):
    prog = ctx.prog
    mods = {"dateutil.tz._factories", "dateutil.tz.tz"}

    # ---- C18.PAIR / C18.FOREIGN -------------------------------------------------
    n = rules_lock.check_pairing(ctx, "C18", {"dateutil.tz._factories"}, foreign_rule="C18.FOREIGN")
    gettz_cls = prog.cls("tz.tz.__get_gettz.GettzFunc", "C18.LOCKED")
    for name in ("__call__", "set_cache_size", "cache_clear"):
        if name not in gettz_cls.methods:
            raise AnalysisError("C18.LOCKED", gettz_cls.qualname + "." + name, "anchor method not found")
    # pairing for the gettz closure class (tz.tz also contains _tzicalvtz, which belongs to C17)
    from ..lock import LockFlow, lock_attr_names
    before = len(ctx.obs)
    rules_lock.check_pairing(ctx, "C18", {"dateutil.tz.tz"}, foreign_rule="C18.FOREIGN")
    ctx.obs[before:] = [o for o in ctx.obs[before:] if "GettzFunc" in o.qualname]
    ctx.floor("C18.PAIR", len([o for o in ctx.obs if o.rule == "C18.PAIR"]), 10, "lock-exit obligations of the factories")

    # ---- C18.LOCKED -------------------------------------------------------------
    owners = [prog.cls("tz._factories._TzOffsetFactory", "C18.LOCKED"),
              prog.cls("tz._factories._TzStrFactory", "C18.LOCKED"), gettz_cls]
    n_acc = 0
    for c in owners:
        prot = derive_protected(prog, c)
        ctx.floor("C18.LOCKED", len(prot), 2, "protected attributes derived for %s" % c.qualname)
        ctx.note("protected(%s) = %s" % (c.qualname, sorted(prot)))
        # the size field is read inside the critical section and rebound by an admin method: protect it too
        init = c.methods["__init__"]
        for x in walk_local(init.node):
            if isinstance(x, ast.Attribute) and isinstance(x.ctx, ast.Store) and "cache_size" in x.attr:
                prot.add(mangle(c.name, x.attr))
        for name, f in sorted(c.methods.items()):
            if name == "__init__":
                continue
            if isinstance(f.node, ast.FunctionDef) and any(d in ("staticmethod",) for d in f.decorators):
                pass
            n_acc += rules_lock.check_touch(ctx, "C18.LOCKED", f, c.name, prot,
                                            why="WeakValueDictionary/OrderedDict are not thread-safe")
    ctx.floor("C18.LOCKED", n_acc, 20, "accesses to instance maps / strong caches outside __init__")

    # ---- C18.BYPASS: instance() and nocache() do not touch the maps --------------
    tzf = prog.cls("tz._factories._TzFactory", "C18.BYPASS")
    inst = tzf.methods.get("instance")
    if inst is None:
        raise AnalysisError("C18.BYPASS", tzf.qualname + ".instance", "anchor method not found")
    calls = [src(x.func) for x in walk_local(inst.node) if isinstance(x, ast.Call)]
    ctx.ob("C18.BYPASS", inst, "instance() constructs directly through type.__call__ (no map, no metaclass __call__ recursion)",
           "type.__call__" in calls and not any(isinstance(x, ast.Attribute) and "instances" in x.attr for x in walk_local(inst.node)),
           construct="return " + src([x for x in walk_local(inst.node) if isinstance(x, ast.Return)][0].value)
           if any(isinstance(x, ast.Return) for x in walk_local(inst.node)) else "no return")
    nocache = gettz_cls.methods.get("nocache")
    if nocache is None:
        raise AnalysisError("C18.BYPASS", gettz_cls.qualname + ".nocache", "anchor method not found")
    touched = [x.attr for x in walk_local(nocache.node) if isinstance(x, ast.Attribute)
               and ("instances" in x.attr or "strong_cache" in x.attr)]
    ctx.ob("C18.BYPASS", nocache, "nocache() never reads or writes the instance map or the strong cache",
           not touched and "staticmethod" in nocache.decorators, construct="@staticmethod nocache",
           detail="touches %s" % touched if touched else "")

    # ---- C18.RETURN / C18.NOCACHE ---------------------------------------------------
    for c in owners:
        f = c.methods["__call__"]
        prot = derive_protected(prog, c)
        maps = [a for a in prot if a.endswith("__instances")]
        if len(maps) != 1:
            raise AnalysisError("C18.RETURN", c.qualname, "cannot identify the instance map among %s" % sorted(prot))
        check_return_is_stored(ctx, "C18.RETURN", "C18.NOCACHE", f, c, prot, maps[0])

    # ---- C18.ATOMIC: lookup and store of one key happen in ONE critical section -------------
    from ..lock import LockFlow, lock_attr_names
    n_at = 0
    for c in owners:
        f = c.methods["__call__"]
        cfg = ctx.cfg(f)
        flow = LockFlow(cfg, f, lock_attr_names(prog))
        prot = derive_protected(prog, c)
        maps = [a for a in prot if a.endswith("__instances")]
        aliases = rules_lock.local_aliases(f, c.name, prot)
        lookups, stores = [], []
        for n in cfg.live_nodes():
            for attr, kind, text in rules_lock.accesses(n, c.name, set(maps), aliases):
                (stores if kind == "write" else lookups).append(n)
        releases = [r for le in flow.locks for r in flow.release_nodes(le)]
        for st in stores:
            n_at += 1
            doms = [g for g in lookups if g is not st and cfg.dominates([g], st)]
            same_node = st in lookups or "setdefault" in rules_lock.stmt_text(st)
            broken = None
            for g in doms:
                for r in releases:
                    if r in cfg.reach([g]) and st in cfg.reach([r]):
                        broken = (g, r)
            ok = (bool(doms) or same_node) and broken is None
            ctx.ob("C18.ATOMIC", f, "the instance-map lookup and the store of a new instance for the same key happen without "
                   "releasing the lock in between (check-then-act is atomic)", ok,
                   construct="store: %s" % rules_lock.stmt_text(st),
                   detail="" if ok else ("lock released at L%d between lookup L%d and store L%d: two threads can both miss and both store" % (
                       broken[1].lineno, broken[0].lineno, st.lineno) if broken else "no dominating lookup of the map before the store"),
                   analysis="LOCK typestate + CFG path query")
    ctx.floor("C18.ATOMIC", n_at, 3, "instance-map stores in factory __call__")

    # ---- C18.KEYINJ: the cache key is the constructor arguments themselves ------------------
    # "one object per key" is only as good as the key: a key component that passed through a lossy conversion
    # (int(), round(), lower(), //) makes two different argument lists share one instance.  Accepted components:
    # a parameter, `<parameter>.total_seconds()` (exact for a timedelta), a constant, a conditional of those.
    from ..cfg import ReachingDefs
    n_key = 0
    for c in owners:
        f = c.methods["__call__"]
        cfg = ctx.cfg(f)
        rd = ReachingDefs(cfg, params=f.params)
        prot = derive_protected(prog, c)
        params = set(f.params)

        def comp_ok(e, at, depth=0):
            if isinstance(e, ast.Constant):
                return True
            if isinstance(e, ast.Name):
                ds = rd.at(at, e.id)
                if ds == frozenset([0]) and e.id in params:
                    return True
                if depth < 3 and ds and all(i and isinstance(cfg.nodes[i].ast, ast.Assign) and len(cfg.nodes[i].ast.targets) == 1
                                            and isinstance(cfg.nodes[i].ast.targets[0], ast.Name) for i in ds):
                    return all(comp_ok(cfg.nodes[i].ast.value, cfg.nodes[i], depth + 1) for i in ds)
                return False
            if isinstance(e, ast.Tuple):
                return all(comp_ok(x, at, depth) for x in e.elts)
            if isinstance(e, ast.IfExp):
                return comp_ok(e.body, at, depth) and comp_ok(e.orelse, at, depth)
            if isinstance(e, ast.Call) and isinstance(e.func, ast.Attribute) and e.func.attr == "total_seconds" and not e.args:
                return comp_ok(e.func.value, at, depth)
            return False
        mentioned = set()
        for n in cfg.live_nodes():
            if n.ast is None or n.kind not in ("stmt", "branch"):
                continue
            for x in ast.walk(n.ast):
                k = None
                if isinstance(x, ast.Call) and isinstance(x.func, ast.Attribute) and x.func.attr in ("get", "setdefault", "pop") \
                        and isinstance(x.func.value, ast.Attribute) and mangle(c.name, x.func.value.attr) in prot and x.args:
                    k = x.args[0]
                elif isinstance(x, ast.Subscript) and isinstance(x.value, ast.Attribute) and mangle(c.name, x.value.attr) in prot:
                    k = x.slice
                if k is None:
                    continue
                n_key += 1
                ok = comp_ok(k, n)
                # which parameters the key is built from
                stack, seen = [(k, n)], set()
                while stack:
                    e, at = stack.pop()
                    for y in ast.walk(e):
                        if isinstance(y, ast.Name):
                            ds = rd.at(at, y.id)
                            if 0 in ds and y.id in params:
                                mentioned.add(y.id)
                            for i in ds:
                                if i and i not in seen and isinstance(cfg.nodes[i].ast, ast.Assign):
                                    seen.add(i)
                                    stack.append((cfg.nodes[i].ast.value, cfg.nodes[i]))
                ctx.ob("C18.KEYINJ", f, "the key under which an instance is looked up / stored consists of the call's own arguments "
                       "(or timedelta.total_seconds() of one): no lossy conversion lets two different argument lists share an instance",
                       ok, construct="key of %s" % src(x)[:80],
                       detail="" if ok else "key `%s` has a component that is not a parameter, <parameter>.total_seconds() or a constant: %s" % (
                           src(k), "; ".join(rd.describe(rd.at(n, k.id))) if isinstance(k, ast.Name) else src(k)),
                       analysis="reaching definitions of the key expression")
        want = params - {"cls", "self"}
        ctx.ob("C18.KEYINJ", f, "every argument of the factory call takes part in the key (an argument left out makes calls that differ in it share an instance)",
               want <= mentioned, construct="parameters in the key of %s.__call__" % c.name,
               detail="" if want <= mentioned else "not in the key: %s" % sorted(want - mentioned), analysis="reaching definitions of the key expression")
    ctx.floor("C18.KEYINJ", n_key, 8, "key expressions at instance-map / strong-cache accesses")

    # ---- C18.WEAKONLY: only the strong (LRU) cache evicts; the weak instance map is never pruned by hand ----
    for c in owners:
        prot = derive_protected(prog, c)
        maps = set(a for a in prot if a.endswith("__instances"))
        for name, f in sorted(c.methods.items()):
            if name in ("__init__", "cache_clear"):
                continue
            bad = []
            for x in walk_local(f.node):
                if isinstance(x, ast.Call) and isinstance(x.func, ast.Attribute) and isinstance(x.func.value, ast.Attribute) \
                        and mangle(c.name, x.func.value.attr) in maps and x.func.attr in ("pop", "popitem", "clear", "__delitem__"):
                    bad.append(src(x))
                if isinstance(x, ast.Delete):
                    for t in x.targets:
                        if isinstance(t, ast.Subscript) and isinstance(t.value, ast.Attribute) and mangle(c.name, t.value.attr) in maps:
                            bad.append(src(x))
            if name == "__call__" or bad:
                ctx.ob("C18.WEAKONLY", f, "entries leave the weak instance map only when the zone is garbage collected "
                       "(eviction applies to the strong cache alone), so a still-referenced zone is returned again", not bad,
                       construct="%s: removals from the instance map" % name, detail="; ".join(bad))

    # ---- C18.REDUCE: pickling/copying reproduces the zone from unmodified state ----------------------
    for q in ZONE_CLASSES + ["tz.tz.tzstr", "tz.tz._tzicalvtz", "zoneinfo.tzfile"]:
        c = prog.cls(q, "C18.REDUCE")
        for rname in ("__reduce__", "__reduce_ex__"):
            r = prog.class_lookup(c, rname)
            if r is None:
                continue
            if not isinstance(r[0], FuncInfo):
                ok = src(r[0]) == "object.__reduce__"
                ctx.ob("C18.REDUCE", c, "%s is object.__reduce__ (state-preserving default)" % rname, ok, construct="%s.%s = %s" % (c.name, rname, src(r[0])))
                continue
            f = r[0]
            rets = [x for x in walk_local(f.node) if isinstance(x, ast.Return)]
            for rt in rets:
                v = rt.value
                if isinstance(v, ast.Call):       # delegation, e.g. self.__reduce_ex__(None)
                    ctx.ob("C18.REDUCE", f, "%s delegates to the sibling reducer" % rname, src(v.func) in ("self.__reduce_ex__", "self.__reduce__"),
                           construct="%s.%s: return %s" % (c.name, rname, src(v)))
                    continue
                if not isinstance(v, ast.Tuple) or len(v.elts) < 2 or not isinstance(v.elts[1], ast.Tuple):
                    ctx.ob("C18.REDUCE", f, "%s returns (callable, args[, state])" % rname, False, construct="%s.%s: return %s" % (c.name, rname, src(v)))
                    continue
                derived = [src(a) for a in v.elts[1].elts if not isinstance(a, (ast.Attribute, ast.Constant, ast.Name))]
                ctx.ob("C18.REDUCE", f, "the reconstruction arguments are stored attributes passed through unchanged "
                       "(no conversion that could lose information)", not derived,
                       construct="%s.%s: return %s" % (c.name, rname, src(v)), detail="derived arguments: %s" % derived if derived else "",
                       analysis="FIELD pass-through")

    # ---- C18.SINGLETON ------------------------------------------------------------------
    single = prog.cls("tz._factories._TzSingleton", "C18.SINGLETON")
    call = single.methods.get("__call__")
    locked_call = False
    if call is not None:
        from ..lock import LockFlow, lock_attr_names
        locked_call = bool(LockFlow(ctx.cfg(call), call, lock_attr_names(prog)).locks)
    users = [c for c in prog.classes.values() if c.metaclass is single and c.module.active]
    ctx.floor("C18.SINGLETON", len(users), 1, "classes using the singleton metaclass")
    for c in users:
        created = False
        for st in c.module.tree.body:
            if isinstance(st, ast.Assign) and isinstance(st.value, ast.Call) and isinstance(st.value.func, ast.Name) \
                    and st.value.func.id == c.name and not st.value.args:
                created = True
        ctx.ob("C18.SINGLETON", c, "singleton class is instantiated by a module-level statement of its defining "
               "module (or the metaclass __call__ is lock-protected)", created or locked_call,
               construct="module-level %s()" % c.name,
               detail="" if (created or locked_call) else "first call could race: _TzSingleton.__call__ is check-then-act without a lock")

    # ---- C18.EQ ----------------------------------------------------------------------------
    n_eq = 0
    for q in ZONE_CLASSES:
        c = prog.cls(q, "C18.EQ")
        r = prog.class_lookup(c, "__eq__")
        if r is None or not isinstance(r[0], FuncInfo):
            raise AnalysisError("C18.EQ", q + ".__eq__", "zone class no longer defines __eq__")
        eq, owner = r
        n_eq += 1
        other = eq.positional_params[1] if len(eq.positional_params) > 1 else "other"
        cfg = ctx.cfg(eq)
        facts = ctx.facts(eq)
        rets = [n for n in cfg.live_nodes() if n.kind == "stmt" and isinstance(n.ast, ast.Return)]
        ni = [n for n in rets if src(n.ast.value) == "NotImplemented"]
        # every return that is reached with NO positive isinstance(other, ...) fact must be NotImplemented
        bad = []
        for n in rets:
            pos = [t for t, v in facts.at(n) if v and t.startswith("isinstance(%s" % other)]
            if not pos and n not in ni:
                bad.append(n)
        ctx.ob("C18.EQ", eq, "__eq__ answers NotImplemented (not False) when `%s` is of no handled type" % other,
               bool(ni) and not bad, construct="foreign-type path of __eq__",
               detail="" if (ni and not bad) else "returns without a positive isinstance fact: %s" % [stmt_text(b) for b in bad] if bad else "no `return NotImplemented`",
               analysis="must-hold branch facts at each return")
        ne = prog.class_lookup(c, "__ne__")
        ok_ne = False
        if ne and isinstance(ne[0], FuncInfo):
            body = [s for s in ne[0].node.body if not (isinstance(s, ast.Expr) and isinstance(s.value, ast.Constant))]
            ok_ne = len(body) == 1 and isinstance(body[0], ast.Return) and src(body[0].value).replace(" ", "") in (
                "not(self==other)", "notself==other", "notself.__eq__(other)")
        ctx.ob("C18.EQ", c, "__ne__ is the negation of __eq__", ok_ne, construct="__ne__ of %s" % c.name,
               detail="" if ok_ne else "resolved __ne__: %s" % (src(ne[0].node.body[-1]) if ne and isinstance(ne[0], FuncInfo) else ne))
        h = prog.class_lookup(c, "__hash__")
        ok_h = h is not None and not isinstance(h[0], (FuncInfo, ClassInfo)) and src(h[0]) == "None"
        ctx.ob("C18.EQ", c, "a class defining __eq__ by content sets __hash__ = None (zones are unhashable, not identity-hashed)",
               ok_h, construct="__hash__ of %s" % c.name)
        red = prog.class_lookup(c, "__reduce__")
        ctx.ob("C18.EQ", c, "zone resolves an explicit __reduce__ (pickle/copy go through the constructor arguments or object state)",
               red is not None, construct="__reduce__ of %s" % c.name)
    ctx.floor("C18.EQ", n_eq, 5, "zone classes with __eq__")

    # ---------------------------------------------------------------- C18.ARGS
    from ..rules_common import check_call_arguments
    check_call_arguments(ctx, "C18.ARGS", "C18")
    from ..rules_common import check_effect_tables
    check_effect_tables(ctx, "C18")
    from ..rules_common import check_presence_tests, ARG_SCOPE
    check_presence_tests(ctx, "C18.PRESENCE", classes=ARG_SCOPE.get("C18", []))
    from ..rules_common import check_param_rebinding
    check_param_rebinding(ctx, "C18.PARAMS", classes=ARG_SCOPE.get("C18", []))


