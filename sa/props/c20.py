"""C20 - isoparse never misreads: accepted text is an ISO-8601 spelling of the result."""
from .. import iso_rules as R
from ..exc import check_escape

CLAIM = ("static analysis of dateutil.parser.isoparser (digit/width validation before every int(), slice coverage of "
         "the offset for each admissible length, boolean decision table of the dash-consistency test, dominance of "
         "leftover/separator/range guards, interval bounds of offset, week, weekday and ordinal day, ASCII gate): "
         "necessary conditions of C20; that the returned value is the one the text denotes is not decided")
TECHNIQUE = "must-hold branch facts, reaching definitions + regex AST, slice-coverage evaluation, boolean decision tables over CFG regions, interval abstract interpretation (ast only)"
EXPLANATION = (
    "C20.DIGITS: every numeric field goes through a converter that returns only under `len(field) == width` and "
    "`field.isdigit()` (bytes: ASCII digits only), with a literal width equal to the slice width; the one bare int() "
    "takes a slice of a regex group whose class is [0-9]+. C20.COVER: for offset lengths 3, 5 and 6 the slices read "
    "by _parse_tzstr cover every character position. C20.GUARDS: dash consistency of week dates holds in both "
    "directions (decision table over the two atoms), the calendar form requires its second dash, mixed colon use is "
    "rejected, trailing input is rejected by isoparse (configured separator), parse_isodate and the time scanner; "
    "offset length in {3,5,6}, sign required, hours <= 23 and minutes <= 59 at tzoffset (interval analysis); week, "
    "weekday and ordinal ranges (C20.RANGE); 24:00 only with zero rest (C20.MIDNIGHT). C20.ASCII: non-ASCII text "
    "becomes ValueError before the wrapped parser runs; the separator is validated before it is encoded. C20.EXC: the "
    "exception-escape analysis (sa/exc.py) from each of the four entry points finds nothing but ValueError subclasses "
    "escaping for text input (date arithmetic past the maximum date is converted to ValueError).")
ASSUMPTIONS = ["bytes.isdigit() is true only for non-empty ASCII digit strings", "the denotation of accepted text is NOT decided (week 53 in 52-week years is accepted today)"]


def run(ctx):
    R.check_digits(ctx, "C20.DIGITS")
    R.check_tzstr(ctx, "C20.COVER", "C20.GUARDS", None, None)
    R.check_separators(ctx, "C20.GUARDS")
    R.check_week(ctx, "C20.RANGE")
    R.check_midnight(ctx, "C20.MIDNIGHT")
    R.check_ascii(ctx, "C20.ASCII")
    I = "dateutil.parser.isoparser."
    seeds = {(I + "_takes_ascii.func", "str_in"): ["str", "bytes", "unknown"]}
    suppress = {
        (I + "isoparser._parse_isodate_uncommon", "date(year, 1, 1) + timedelta(days=ordinal_day - 1)"):
            "ordinal_day <= 365 + isleap(year) (proved by C20.RANGE), so the sum stays inside the parsed year",
        (I + "isoparser._calculate_weekdate", "jan_4 - timedelta(days=jan_4.isocalendar()[2] - 1)"):
            "at most 6 days (proved by C20.RANGE) before 4 January; for year 1, 4 January is a Thursday, so the Monday is 1 January 0001",
    }
    n_entries = 0
    for m in ("isoparse", "parse_isodate", "parse_isotime", "parse_tzstr"):
        f = ctx.prog.method(R.CLS, m, "C20.EXC")
        n_entries += 1
        check_escape(ctx, "C20.EXC", f, ("ValueError",), seeds=seeds, suppress=suppress, ctor_overflow=False, min_functions=5, label=m + "()")

    # ---------------------------------------------------------------- C20.ARGS
    from ..rules_common import check_call_arguments
    check_call_arguments(ctx, "C20.ARGS", "C20")
    from ..rules_common import check_effect_tables
    check_effect_tables(ctx, "C20")
    from ..rules_common import check_presence_tests, ARG_SCOPE
    check_presence_tests(ctx, "C20.PRESENCE", classes=ARG_SCOPE.get("C20", []))
    from ..rules_common import check_param_rebinding
    check_param_rebinding(ctx, "C20.PARAMS", classes=ARG_SCOPE.get("C20", []))
    # C20.STATELESS - the ISO parser keeps nothing between calls in a class object or a module-level container
    from ..rules_common import shared_state_writes
    w_ = shared_state_writes(ctx.prog, "parser.isoparser")
    iso_ = ctx.prog.method(ctx.prog.cls("parser.isoparser.isoparser", "C20.STATELESS").qualname, "isoparse", "C20.STATELESS")
    ctx.ob("C20.STATELESS", iso_ if not w_ else w_[0][0], "no function of the ISO parser module stores into a class object or a module-level container "
           "(what a string parses to does not depend on what was parsed before, with which options)", not w_,
           construct="shared-state writes in dateutil.parser.isoparser: %d" % len(w_),
           detail="" if not w_ else "; ".join("%s: %s" % (f_.qualname.split("dateutil.")[-1], t_) for f_, n_, t_ in w_[:4]),
           analysis="who-may-write: stores / mutator calls whose base is a class object or a module-level container")


