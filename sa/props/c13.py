"""C13 - rrulestr and str(rrule) are inverse; RFC text means the same as keywords."""
import ast
import re

from ..model import src, walk_local, AnalysisError, FuncInfo
from ..cfg import ReachingDefs
from ..rules_lock import stmt_text

CLAIM = ("static analysis (writer/reader name agreement between __str__, the _handle_* family and rrule.__init__; "
         "constant-table agreement; emission guards; fixed-width year of emitted date-times; scanner/consumer separator agreement for TZID names; token-slicing agreement in the BYDAY handler; regex AST of the "
         "TZID scanner; set-selection branches; loop progress of the unfolder): necessary conditions of C13; equality "
         "of occurrences for all rules and spellings is not decided")
TECHNIQUE = "FIELD writer/reader set comparison, CONST table folding, must-hold branch facts, regex-AST inspection, loop-progress check (ast only)"
EXPLANATION = (
    "C13.NAMES: every part name emitted by rrule.__str__ resolves to a _handle_<NAME> method of _rrulestr; every "
    "handler stores a key that is a parameter of rrule.__init__; the (label,key) list of __str__ covers every key "
    "that __init__ records in _original_rule; BYDAY and BYWEEKDAY are the same handler. C13.MAPS: _freq_map maps "
    "FREQNAMES[i] to i, the frequency constants are 0..6 in FREQNAMES order, _weekday_map maps the two-letter names "
    "of weekday.__repr__ to 0..6. C13.EMIT: FREQ always; INTERVAL iff != 1; COUNT iff `is not None` (0 is a valid "
    "count, sibling sites test identity); UNTIL iff set; BY-parts iff the recorded value is non-empty; nth weekdays "
    "as {n:+d}{WD}. C13.YEARPAD: no statement that writes DTSTART / UNTIL uses a %Y-family strftime directive (not "
    "zero-padded below year 1000 on glibc). C13.WDAY: in the '+1MO' form the ordinal and the weekday code are the complementary slices "
    "[:i] / [i:] at the index where the scan over the WHOLE token stopped, the 'MO(+1)' form splits at '('; the "
    "result goes through weekdays[_weekday_map[w]](n). C13.TZID: a TZID name scanned by the regex ends exactly at the separators at "
    "which _parse_rfc split()s a property line (':' and ';'), any other character is allowed (regex AST vs consumer). C13.SET: compatible implies forceset and unfold; the set branch is taken for "
    "forceset / several RRULEs / any RDATE, EXRULE, EXDATE; under compatible the start is added as an RDATE; unknown "
    "properties and parameters raise ValueError. C13.TERM: the unfold loop makes progress on every path. "
    "C13.FREQ: a rule text without FREQ is rejected with ValueError before the constructor is called. C13.EXC: the "
    "exception-escape analysis from rrulestr() (through the date parser it uses) finds only ValueError subclasses or "
    "OverflowError (numbers too large for the platform) escaping for text input; TypeError only for an ill-typed "
    "tzinfos value."
    ' C13.LAZY: every read of the lazily imported module global `parser` in a function that imported it itself in the confirmed tree is preceded on every path by that import or by the `not parser` guard.')
ASSUMPTIONS = ["parser.parse and tz.gettz resolve dates and TZIDs as documented (C02/C18)",
               "same occurrences for every rule and spelling: NOT decided"]


def const_str_list(node):
    if isinstance(node, (ast.List, ast.Tuple)) and all(isinstance(e, ast.Constant) and isinstance(e.value, str) for e in node.elts):
        return [e.value for e in node.elts]
    return None


def run(ctx):
    prog = ctx.prog
    mod = prog.module("rrule", "C13")
    rr = prog.cls("rrule.rrule", "C13")
    rs = prog.cls("rrule._rrulestr", "C13")
    init = prog.method(rr.qualname, "__init__", "C13")
    strm = prog.method(rr.qualname, "__str__", "C13")
    params = [p for p in init.params if p != "self"]

    # ---------------------------------------------------------------- C13.NAMES
    pairs = None
    for n in walk_local(strm.node):
        if isinstance(n, ast.For) and isinstance(n.iter, (ast.List, ast.Tuple)) and n.iter.elts and all(
                isinstance(e, ast.Tuple) and len(e.elts) == 2 and all(isinstance(x, ast.Constant) for x in e.elts) for e in n.iter.elts):
            pairs = [(e.elts[0].value, e.elts[1].value) for e in n.iter.elts]
    if not pairs:
        raise AnalysisError("C13.NAMES", strm.qualname, "(label, key) list not found in __str__")
    emitted = [p[0] for p in pairs]
    for n in walk_local(strm.node):
        if isinstance(n, ast.Constant) and isinstance(n.value, str):
            m = re.match(r"^([A-Z]+)=", n.value)
            if m:
                emitted.append(m.group(1))
            m = re.match(r"^(DTSTART):", n.value)
    emitted = sorted(set(emitted))
    ctx.floor("C13.NAMES", len(emitted), 15, "part names emitted by __str__")
    for name in emitted:
        r = prog.class_lookup(rs, "_handle_" + name)
        ctx.ob("C13.NAMES", strm, "part %s emitted by str(rule) has a parser handler" % name, bool(r and isinstance(r[0], FuncInfo)),
               construct="emit %s <-> _handle_%s" % (name, name), analysis="FIELD writer/reader")
    handlers = sorted(set(list(rs.methods) + list(rs.assigns)))
    handlers = [h for h in handlers if h.startswith("_handle_") and h[8:].isupper()]
    for h in handlers:
        f = prog.class_lookup(rs, h)[0]
        if not isinstance(f, FuncInfo):
            ctx.ob("C13.NAMES", rs, "%s resolves to a function" % h, False, construct=h)
            continue
        keys = set()
        dyn = False
        for n in walk_local(f.node):
            if isinstance(n, ast.Subscript) and isinstance(n.ctx, ast.Store) and src(n.value) == "rrkwargs":
                if isinstance(n.slice, ast.Constant):
                    keys.add(n.slice.value)
                elif src(n.slice) == "name.lower()":
                    dyn = True
                    keys.add(h[8:].lower())
        ok = bool(keys) and all(k in params for k in keys)
        ctx.ob("C13.NAMES", f, "%s stores a keyword that rrule.__init__ accepts" % h, ok, construct="%s -> %s" % (h, sorted(keys)),
               detail="" if ok else "keys %s not among constructor parameters" % sorted(keys), analysis="FIELD writer/reader")
    bd = prog.class_lookup(rs, "_handle_BYDAY")
    bw = prog.class_lookup(rs, "_handle_BYWEEKDAY")
    ctx.ob("C13.NAMES", rs, "BYDAY and BYWEEKDAY are one handler", bool(bd and bw and bd[0] is bw[0]), construct="_handle_BYDAY = _handle_BYWEEKDAY")
    recorded = set()
    for n in ast.walk(init.node):
        if isinstance(n, ast.Subscript) and isinstance(n.ctx, ast.Store) and src(n.value) == "self._original_rule" and isinstance(n.slice, ast.Constant):
            recorded.add(n.slice.value)
    keys_listed = set(k for _, k in pairs)
    ctx.ob("C13.NAMES", strm, "every key recorded in _original_rule is serialised by __str__", recorded <= keys_listed,
           construct="recorded keys vs __str__ list", detail="not serialised: %s" % sorted(recorded - keys_listed), analysis="FIELD coverage")
    label_ok = all((lab == "BYDAY" and key == "byweekday") or lab.lower() == key for lab, key in pairs)
    ctx.ob("C13.NAMES", strm, "each label is the upper-cased key (BYDAY for byweekday)", label_ok, construct="(label, key) pairs", detail=str(pairs))

    # ---------------------------------------------------------------- C13.MAPS
    fn = const_str_list(mod.assigns.get("FREQNAMES"))
    fm = rs.assigns.get("_freq_map")
    wm = rs.assigns.get("_weekday_map")
    okc = False
    for st in mod.tree.body:
        if isinstance(st, ast.Assign) and isinstance(st.targets[0], ast.Tuple) and src(st.value).replace(" ", "") == "list(range(7))":
            okc = [src(e) for e in st.targets[0].elts] == fn
    ctx.ob("C13.MAPS", mod, "the frequency constants are 0..6 in the order of FREQNAMES", bool(okc), construct="(YEARLY..SECONDLY) = list(range(7))", analysis="CONST")
    okf = isinstance(fm, ast.Dict) and fn is not None and [k.value for k in fm.keys] == fn and [src(v) for v in fm.values] == fn
    ctx.ob("C13.MAPS", rs, "_freq_map maps every frequency name to the constant of the same name", okf, construct="_freq_map", analysis="CONST")
    wrepr = prog.func("_common.weekday.__repr__", "C13.MAPS")
    names = None
    for n in walk_local(wrepr.node):
        if isinstance(n, ast.Tuple) and const_str_list(n) and len(n.elts) == 7:
            names = const_str_list(n)
    okw = isinstance(wm, ast.Dict) and names is not None and [k.value for k in wm.keys] == names and [getattr(v, "value", None) for v in wm.values] == list(range(7))
    ctx.ob("C13.MAPS", rs, "_weekday_map maps the two-letter names printed by weekday.__repr__ to 0..6 in order", okw, construct="_weekday_map",
           detail="" if okw else "repr names %s" % names, analysis="CONST")
    wd = mod.assigns.get("weekdays")
    ctx.ob("C13.MAPS", mod, "weekdays[k] is weekday(k) for k in 0..6", wd is not None and src(wd).replace(" ", "") == "tuple((weekday(x)forxinrange(7)))",
           construct="weekdays = %s" % (src(wd) if wd is not None else "?"))

    # ---------------------------------------------------------------- C13.EMIT
    cfg = ctx.cfg(strm)
    facts = ctx.facts(strm)

    def append_nodes(text):
        return [n for n in cfg.live_nodes() if n.kind == "stmt" and text in src(n.ast) and "append" in src(n.ast)]
    for label, text, want in (("INTERVAL", "'INTERVAL='", ("self._interval != 1", True)),
                              ("COUNT", "'COUNT='", ("self._count is not None", True)),
                              ("UNTIL", "UNTIL=", ("self._until", True))):
        ns = append_nodes(text)
        ok = len(ns) == 1 and want in facts.at(ns[0])
        ctx.ob("C13.EMIT", strm, "%s is emitted iff `%s`" % (label, want[0]), ok, construct="emit %s" % label,
               detail="" if ok else "guard facts: %s" % (sorted(t for t, tv in facts.at(ns[0]) if tv) if ns else "not emitted"),
               analysis="must-hold branch facts")
    # C13.YEARPAD - the RFC date-time form is fixed width (four-digit year).  strftime's %Y does not zero-pad years
    # below 1000 on glibc, so a DTSTART / UNTIL written through it is read back as a different (out-of-range) year.
    def year_directives(node, depth=0):
        bad = []
        for x in ast.walk(node):
            if isinstance(x, ast.Call) and isinstance(x.func, ast.Attribute) and x.func.attr == "strftime":
                for a in x.args:
                    for c in ast.walk(a):
                        if isinstance(c, ast.Constant) and isinstance(c.value, str) and any(d in c.value for d in ("%Y", "%G", "%c", "%x")):
                            bad.append(src(x))
            elif isinstance(x, ast.Call) and isinstance(x.func, ast.Name) and depth < 2:
                h = mod.functions.get(x.func.id) if hasattr(mod, "functions") else None
                if h is not None:
                    bad += year_directives(h.node, depth + 1)
        return bad
    stamp = [n for n in cfg.live_nodes() if n.kind == "stmt" and n.ast is not None and ("DTSTART:" in src(n.ast) or "UNTIL=" in src(n.ast))]
    ctx.floor("C13.YEARPAD", len(stamp), 2, "statements of rrule.__str__ that write DTSTART / UNTIL")
    for n in stamp:
        bad = year_directives(n.ast)
        ctx.ob("C13.YEARPAD", strm, "a date-time written by str(rrule) has a fixed-width year (no strftime %Y, which glibc does not zero-pad below 1000: "
               "the text would be read back as another year)", not bad, construct="emit " + ("DTSTART" if "DTSTART:" in src(n.ast) else "UNTIL"),
               detail="" if not bad else "year written by %s" % bad[0], analysis="format-directive scan of the emitting statement (ast)")
    fr = [n for n in cfg.live_nodes() if n.kind == "stmt" and "'FREQ='" in src(n.ast)]
    ctx.ob("C13.EMIT", strm, "FREQ is always emitted, from FREQNAMES[self._freq]", len(fr) == 1 and "FREQNAMES[self._freq]" in src(fr[0].ast)
           and cfg.path_avoiding(cfg.entry, [cfg.exit], avoid_nodes=fr) is None, construct="emit FREQ")
    # the nth-weekday text: a signed decimal ordinal immediately followed by the day code, whatever the fields are called
    import string
    fmt = []
    for n in walk_local(strm.node):
        if isinstance(n, ast.Constant) and isinstance(n.value, str) and "+d" in n.value:
            try:
                fields = [(lit, spec) for lit, name_, spec, conv in string.Formatter().parse(n.value)]
            except ValueError:
                fields = None
            fmt.append(fields)
        if isinstance(n, ast.BinOp) and isinstance(n.op, ast.Mod) and isinstance(n.left, ast.Constant) and isinstance(n.left.value, str) and "%+d" in n.left.value:
            fmt.append([("", "+d"), ("", "")] if n.left.value == "%+d%s" else None)
    okf = len(fmt) == 1 and fmt[0] == [("", "+d"), ("", "")]
    ctx.ob("C13.EMIT", strm, "nth weekdays are written with an explicit sign followed by the two-letter day ({n:+d}{wday})", okf, construct="nth weekday format", detail=str(fmt))
    # the loop over the (label, key) pairs: whatever it appends is guarded by the truthiness of the value fetched for the key
    ploop = [n for n in walk_local(strm.node) if isinstance(n, ast.For) and isinstance(n.iter, (ast.List, ast.Tuple)) and n.iter.elts and all(
        isinstance(e, ast.Tuple) and len(e.elts) == 2 and all(isinstance(x, ast.Constant) for x in e.elts) for e in n.iter.elts)]
    okb = False
    det = "pair loop not found"
    if len(ploop) == 1 and isinstance(ploop[0].target, ast.Tuple) and len(ploop[0].target.elts) == 2:
        keyvar = src(ploop[0].target.elts[1])
        inside = set(id(x) for st_ in ploop[0].body for x in ast.walk(st_))
        fetched = [src(t) for n in walk_local(strm.node) if isinstance(n, ast.Assign) and id(n) in inside and isinstance(n.value, ast.Call)
                   and isinstance(n.value.func, ast.Attribute) and n.value.func.attr == "get" and [src(a) for a in n.value.args] == [keyvar] for t in n.targets]
        emits = [n for n in cfg.live_nodes() if n.kind == "stmt" and id(n.ast) in inside and isinstance(n.ast, ast.Expr) and isinstance(n.ast.value, ast.Call)
                 and isinstance(n.ast.value.func, ast.Attribute) and n.ast.value.func.attr == "append"]
        okb = len(fetched) == 1 and len(emits) == 1 and (fetched[0], True) in facts.at(emits[0])
        det = "fetched=%s emits=%d" % (fetched, len(emits))
        if okb:
            # "iff": nothing else decided inside the loop may stand between the fetched value and its emission
            from ..summ import atom_of
            heads = [n for n in cfg.live_nodes() if n.kind == "for" and n.ast is ploop[0]]
            base = set(facts.at(heads[0])) if heads else set()
            want_atom = atom_of(fetched[0], True)
            same = {want_atom}
            for n_ in walk_local(strm.node):
                if isinstance(n_, ast.Assign) and id(n_) in inside and [src(t_) for t_ in n_.targets] == fetched:
                    same.add(atom_of(src(n_.value), True))      # the same test spelled through the fetch itself
            extra = set()
            for t, tv in set(facts.at(emits[0])) - base:
                try:
                    a_ = atom_of(t, tv)
                except SyntaxError:
                    continue
                if a_ not in same:
                    extra.add("%s%s" % ("" if tv else "not ", t))
            if extra:
                okb = False
                det = "the emission is additionally guarded by: %s" % sorted(extra)[:3]
    ctx.ob("C13.EMIT", strm, "a BY-part is emitted iff its recorded value is non-empty (derived defaults are recorded as None)",
           okb, construct="emit BYxxx", detail="" if okb else det, analysis="must-hold branch facts in the (label, key) loop")
    # the sibling consumer of count tests identity too
    it = prog.method(rr.qualname, "_iter", "C13.EMIT")
    cnt_tests = [src(n.ast) for n in ctx.cfg(it).live_nodes() if n.kind == "branch" and "count" in src(n.ast) and "None" in src(n.ast)]
    ctx.ob("C13.EMIT", it, "the iterator also treats COUNT as present iff it is not None (0 is a valid count)",
           bool(cnt_tests) and all(t.replace(" ", "") == "countisnotNone" for t in cnt_tests), construct="count tests in _iter", detail=str(cnt_tests), analysis="sibling agreement")

    # ---------------------------------------------------------------- C13.WDAY
    hb = prog.method(rs.qualname, "_handle_BYWEEKDAY", "C13.WDAY")
    hcfg = ctx.cfg(hb)
    hfacts = ctx.facts(hb)
    loops = [n for n in hcfg.live_nodes() if n.kind == "for" and isinstance(n.ast.iter, ast.Call) and src(n.ast.iter.func) == "range"]
    if len(loops) != 1:
        raise AnalysisError("C13.WDAY", hb.qualname, "scan loop `for i in range(...)` not found")
    lp = loops[0]
    tok = None
    m = re.match(r"^range\(len\((\w+)\)\)$", src(lp.ast.iter))
    if m:
        tok = m.group(1)
    ctx.ob("C13.WDAY", hb, "the ordinal scan runs over the whole token", tok is not None, construct="scan bound: %s" % src(lp.ast.iter),
           detail="" if tok else "the scan must be `range(len(<token>))`: a shorter bound truncates multi-digit ordinals")
    tok = tok or "wday"
    ivar = src(lp.ast.target)
    from ..rules_common import value_set
    brk = [n for n in hcfg.live_nodes() if n.kind == "branch" and any(isinstance(o, (ast.NotIn, ast.In)) for x in ast.walk(n.ast) if isinstance(x, ast.Compare) for o in x.ops)
           and "0123456789" in src(n.ast)]
    ctx.ob("C13.WDAY", hb, "the scan stops at the first character that is not a sign or digit", len(brk) == 1 and
           src(brk[0].ast).replace(" ", "") in ("%s[%s]notin'+-0123456789'" % (tok, ivar), "not%s[%s]in'+-0123456789'" % (tok, ivar)),
           construct="scan stop test: %s" % (src(brk[0].ast) if brk else "?"))
    # the value appended for each item: weekdays[self._weekday_map[<code>]](<ordinal>)
    ap = []
    for n in hcfg.live_nodes():
        if n.kind == "stmt" and isinstance(n.ast, ast.Expr) and isinstance(n.ast.value, ast.Call) and isinstance(n.ast.value.func, ast.Attribute) \
                and n.ast.value.func.attr == "append" and len(n.ast.value.args) == 1:
            a0 = n.ast.value.args[0]
            if isinstance(a0, ast.Call) and isinstance(a0.func, ast.Subscript) and src(a0.func.value) == "weekdays" and len(a0.args) == 1 \
                    and isinstance(a0.func.slice, ast.Subscript) and src(a0.func.slice.value) == "self._weekday_map":
                ap.append((n, a0.func.slice.slice, a0.args[0]))
    ctx.ob("C13.WDAY", hb, "the day is built as weekdays[_weekday_map[w]](n)", len(ap) == 1, construct="append(weekdays[self._weekday_map[w]](n))")
    if len(ap) == 1:
        n_ap, code_e, ord_e = ap[0]

        def canon_(t):
            return re.sub(r"\b%s\b" % re.escape(ivar), "I", re.sub(r"\b%s\b" % re.escape(tok), "T", t)).replace(" ", "").replace('"', "'")
        codes = set(canon_(t) for t in value_set(ctx, hb, n_ap, code_e))
        ords = set(canon_(t) for t in value_set(ctx, hb, n_ap, ord_e))
        okw = codes == {"T[I:]", "T.split('(')[0]"}
        ctx.ob("C13.WDAY", hb, "the weekday code is the suffix T[i:] at the index where the scan stopped (+1MO form) or the text before '(' (MO(+1) form)", okw,
               construct="weekday code values", detail="" if okw else "code can be: %s" % sorted(codes), analysis="reaching definitions expanded to value sets")
        want_ord = {"int(T[:I]orNone)", "T[:I]orNone", "int(T.split('(')[1][:-1])"}
        oko = ords == want_ord
        ctx.ob("C13.WDAY", hb, "the ordinal is the complementary prefix T[:i] (as int when non-empty, else None) or the text between the parentheses", oko,
               construct="ordinal values", detail="" if oko else "ordinal can be: %s" % sorted(ords), analysis="reaching definitions expanded to value sets")
    emp = [n for n in hcfg.live_nodes() if n.kind == "stmt" and isinstance(n.ast, ast.Raise) and src(n.ast.exc).startswith("ValueError")]
    fl = [any((t.replace(" ", "") in ("len(%s)" % tok, tok) and not tv) for t, tv in hfacts.at(n)) for n in emp]
    ctx.ob("C13.WDAY", hb, "an empty BYDAY item is rejected with ValueError", len(emp) == 1 and all(fl), construct="empty item rejection")

    # ---------------------------------------------------------------- C13.TZID
    pr = prog.method(rs.qualname, "_parse_rfc", "C13.TZID")
    pats = [n.args[0].value for n in walk_local(pr.node) if isinstance(n, ast.Call) and src(n.func) == "re.findall" and n.args
            and isinstance(n.args[0], ast.Constant) and "TZID" in str(n.args[0].value)]
    if len(pats) != 1:
        raise AnalysisError("C13.TZID", pr.qualname, "TZID scanner regex not found")
    import re._parser as sre
    tree = sre.parse(pats[0])
    # the characters at which the consumer cuts a property line into name / parameters / value: a scanned name that can
    # run across one of them is a name the consumer never looks up (the lookup fails and the zone is silently dropped)
    seps = set()
    heads = set()     # the variable holding "NAME;param;param" after the cut at ':'
    for n in walk_local(pr.node):
        if isinstance(n, ast.Assign) and isinstance(n.value, ast.Call) and isinstance(n.value.func, ast.Attribute) and n.value.func.attr == "split" \
                and n.value.args and isinstance(n.value.args[0], ast.Constant) and n.value.args[0].value == ":" \
                and isinstance(n.targets[0], ast.Tuple) and n.targets[0].elts and isinstance(n.targets[0].elts[0], ast.Name):
            seps.add(ord(":"))
            heads.add(n.targets[0].elts[0].id)
    for n in walk_local(pr.node):
        if isinstance(n, ast.Call) and isinstance(n.func, ast.Attribute) and n.func.attr == "split" and n.args \
                and isinstance(n.func.value, ast.Name) and n.func.value.id in heads \
                and isinstance(n.args[0], ast.Constant) and isinstance(n.args[0].value, str) and len(n.args[0].value) == 1:
            seps.add(ord(n.args[0].value))
    if ord(":") not in seps:
        raise AnalysisError("C13.TZID", pr.qualname, "the split of a property line at ':' was not found")
    ok = False
    desc = ""
    items = list(tree)
    for k, (op, av) in enumerate(items):
        if str(op) == "SUBPATTERN":
            sub = av[3]
            if len(sub) == 1 and str(sub[0][0]) == "MAX_REPEAT":
                lo, hi, body = sub[0][1]
                if len(body) == 1:
                    bop, bav = body[0]
                    desc = "%s %s" % (bop, bav)
                    excl = None
                    if str(bop) == "NOT_LITERAL":
                        excl = {bav}
                    if str(bop) == "IN" and [str(x[0]) for x in bav][:1] == ["NEGATE"] and all(str(x[0]) == "LITERAL" for x in bav[1:]):
                        excl = set(x[1] for x in bav[1:])
                    # what must follow the name: one of the separators
                    after = None
                    if k + 1 < len(items):
                        aop, aav = items[k + 1]
                        if str(aop) == "LITERAL":
                            after = {aav}
                        elif str(aop) == "IN" and all(str(x[0]) == "LITERAL" for x in aav):
                            after = set(x[1] for x in aav)
                    ok = excl is not None and excl == seps and lo >= 1 and after is not None and after == seps
    ctx.ob("C13.TZID", pr, "a TZID name scanned from the text ends exactly where the consumer cuts the property line (at %s) and may contain "
           "any other character" % ", ".join(repr(chr(c)) for c in sorted(seps)), ok, construct="TZID name scanner",
           detail="" if ok else "pattern %r: name class is %s, consumer separators are %s - a name can run across a separator (zone silently dropped) "
           "or other characters are excluded" % (pats[0], desc, sorted(chr(c) for c in seps)), analysis="regex AST vs the consumer's split() separators")
    pdv = prog.method(rs.qualname, "_parse_date_value", "C13.TZID")
    lookups = [src(n) for n in walk_local(pdv.node) if isinstance(n, ast.Assign) and src(n.targets[0]) == "tzlookup"]
    ctx.ob("C13.TZID", pdv, "TZIDs resolve through tzids (callable or mapping .get) and default to tz.gettz", sorted(lookups) == sorted(
        ["tzlookup = tz.gettz", "tzlookup = tzids", "tzlookup = getattr(tzids, 'get', None)"]), construct="tzlookup selection", detail=str(lookups))

    # ---------------------------------------------------------------- C13.SET / C13.FREQ
    pcfg = ctx.cfg(pr)
    pfacts = ctx.facts(pr)
    comp = [n for n in pcfg.live_nodes() if n.kind == "stmt" and isinstance(n.ast, ast.Assign) and ("compatible", True) in pfacts.at(n)
            and src(n.ast) in ("forceset = True", "unfold = True")]
    ctx.ob("C13.SET", pr, "compatible implies forceset and unfold", len(comp) == 2, construct="compatible => forceset, unfold")
    # a property name in front of a single rule must be RRULE - checked by the callee and by the fast path's own guard
    prr = prog.method(rs.qualname, "_parse_rfc_rrule", "C13.SET")
    from .. import summ
    pre = []
    for st_ in prr.node.body:
        if isinstance(st_, (ast.For, ast.While, ast.Try)):
            break
        pre.append(st_)
    summ.check_ref(ctx, "C13.SET", pre, "a single rule line may carry a property name only if that name is RRULE (anything else raises ValueError); the "
                   "rule text is what follows the colon", """
        if line.find(':') != -1:
            name, value = line.split(':')
            if name != "RRULE":
                raise ValueError("unknown parameter name")
        else:
            value = line
        rrkwargs = {}
        """, construct="_parse_rfc_rrule: property name", where=prr, outcome=lambda p_: summ.result_text(p_) if p_.result[0] != "fall" else "value = %s" % src(p_.env.get("value") or p_.env.get("rule") or ast.Name(id="?", ctx=ast.Load())))
    fast = [n for n in pcfg.live_nodes() if n.kind == "stmt" and isinstance(n.ast, ast.Return) and "self._parse_rfc_rrule(" in src(n.ast)]
    guarded = [n for n in fast if ("forceset", False) in pfacts.at(n) and any(
        tv and "find(':')" in t.replace('"', "'") and "startswith('RRULE:')" in t.replace('"', "'") for t, tv in pfacts.at(n))]
    early = [n for n in fast if not any(m.kind == "for" and n in pcfg.reach([m]) for m in pcfg.live_nodes())]
    okfast = len(guarded) == 1 and early == guarded
    ctx.ob("C13.SET", pr, "the single-rule fast path is taken only without forceset and for a text that is a bare rule or starts with RRULE:", okfast,
           construct="single-rule fast path guard", detail="" if okfast else "returns before the line loop: %d, of which guarded: %d" % (len(early), len(guarded)),
           analysis="must-hold branch facts")
    setctor = [n for n in pcfg.live_nodes() if n.kind == "stmt" and isinstance(n.ast, ast.Assign) and src(n.ast.value).startswith("rruleset(")]
    okset = len(setctor) == 1 and any(tv and "forceset" in t and "len(rrulevals) > 1" in t and "rdatevals" in t and "exrulevals" in t and "exdatevals" in t
                                      for t, tv in pfacts.at(setctor[0]))
    ctx.ob("C13.SET", pr, "a set is built when forceset, more than one RRULE, or any RDATE/EXRULE/EXDATE is present", okset, construct="rruleset(...) guard",
           analysis="must-hold branch facts")
    ctx.ob("C13.SET", pr, "the cache option is passed to the set", bool(setctor) and "cache=cache" in src(setctor[0].ast), construct="rruleset(cache=cache)")
    rdstart = [n for n in pcfg.live_nodes() if n.kind == "stmt" and src(n.ast) == "rset.rdate(dtstart)"]
    ctx.ob("C13.SET", pr, "under compatible the start itself is added as an inclusion date", len(rdstart) == 1 and
           any(tv and "compatible" in t for t, tv in pfacts.at(rdstart[0])), construct="rset.rdate(dtstart)")
    adders = {"rrulevals": "rset.rrule(", "rdatevals": "rset.rdate(", "exrulevals": "rset.exrule(", "exdatevals": "rset.exdate("}
    for lst, call in adders.items():
        loops = [n for n in pcfg.live_nodes() if n.kind == "for" and src(n.ast.iter) == lst]
        ok = len(loops) == 1 and call in src(loops[0].ast.body)
        ctx.ob("C13.SET", pr, "values collected in %s are added with %s...)" % (lst, call), ok, construct="%s -> %s" % (lst, call), analysis="FIELD role")
    appends = {"RRULE": "rrulevals.append", "RDATE": "rdatevals.append", "EXRULE": "exrulevals.append", "EXDATE": "exdatevals.extend"}
    for prop_, call in appends.items():
        ns = [n for n in pcfg.live_nodes() if n.kind == "stmt" and call in src(n.ast)]
        ok = len(ns) == 1 and ("name == %r" % prop_, True) in pfacts.at(ns[0])
        ctx.ob("C13.SET", pr, "%s lines are collected into %s" % (prop_, call.split(".")[0]), ok, construct="%s -> %s" % (prop_, call), analysis="must-hold branch facts")
    unk = [n for n in pcfg.live_nodes() if n.kind == "stmt" and isinstance(n.ast, ast.Raise) and "unsupported property" in src(n.ast)]
    ctx.ob("C13.SET", pr, "an unknown property raises ValueError", len(unk) == 1 and src(unk[0].ast.exc).startswith("ValueError"), construct="raise on unknown property")
    allr = [n for n in pcfg.live_nodes() if n.kind == "stmt" and isinstance(n.ast, ast.Raise) and n.ast.exc is not None]
    ctx.ob("C13.SET", pr, "every explicit raise of the RFC parser is a ValueError", all(src(r.ast.exc).startswith("ValueError") for r in allr),
           construct="raise statements of _parse_rfc", detail=str(sorted(set(src(r.ast.exc).split("(")[0] for r in allr))))
    prr = prog.method(rs.qualname, "_parse_rfc_rrule", "C13.FREQ")
    rcfg = ctx.cfg(prr)
    rfacts = ctx.facts(prr)
    ctor = [n for n in rcfg.live_nodes() if n.kind == "stmt" and isinstance(n.ast, ast.Return) and isinstance(n.ast.value, ast.Call) and src(n.ast.value.func) == "rrule"]
    if len(ctor) != 1:
        raise AnalysisError("C13.FREQ", prr.qualname, "return rrule(...) not found")
    okf = ("'freq' not in rrkwargs", False) in rfacts.at(ctor[0]) or ("'freq' in rrkwargs", True) in rfacts.at(ctor[0])
    ctx.ob("C13.FREQ", prr, "the constructor is reached only when FREQ was given (a rule text without FREQ is a ValueError, not a TypeError from a missing argument)",
           okf, construct="return %s" % src(ctor[0].ast.value), detail="" if okf else "facts: %s" % sorted(t for t, tv in rfacts.at(ctor[0])), analysis="must-hold branch facts")
    kws = {k.arg: src(k.value) for k in ctor[0].ast.value.keywords}
    ctx.ob("C13.FREQ", prr, "dtstart and cache are forwarded and the parsed parts are splatted", kws.get("dtstart") == "dtstart" and kws.get("cache") == "cache" and kws.get(None) == "rrkwargs",
           construct="rrule(dtstart=dtstart, cache=cache, **rrkwargs)")
    hnd = [n for n in rcfg.live_nodes() if n.kind == "handler"]
    conv = {src(h.ast.type): [src(s.exc).split("(")[0] for s in h.ast.body if isinstance(s, ast.Raise)] for h in hnd}
    okh = conv.get("AttributeError") == ["ValueError"] and any("KeyError" in k and "ValueError" in k and v == ["ValueError"] for k, v in conv.items())
    ctx.ob("C13.FREQ", prr, "unknown part -> ValueError; bad value (KeyError/ValueError) -> ValueError", okh, construct="handlers of the part dispatch", detail=str(conv))
    up = [n for n in rcfg.live_nodes() if n.kind == "stmt" and isinstance(n.ast, ast.Assign) and ".upper()" in src(n.ast.value)]
    ctx.ob("C13.FREQ", prr, "part names and values are upper-cased before dispatch (any letter case is accepted)", len(up) >= 2, construct="name/value .upper()")

    # ---------------------------------------------------------------- C13.EXC
    from ..exc import check_escape
    from .c14 import SUPPRESS as PARSER_SUPPRESS, USER as PARSER_USER
    call = prog.method(rs.qualname, "__call__", "C13.EXC")
    check_escape(ctx, "C13.EXC", call, ("ValueError", "OverflowError"),
                 seeds={(call.qualname, "s"): ["str"]}, suppress=PARSER_SUPPRESS,
                 user=set(PARSER_USER) | {(rs.qualname + "._parse_date_value", "tzlookup"), (rs.qualname + "._parse_date_value", "tzids")},
                 explicit_ok={("dateutil.parser._parser.parser._build_tzinfo", "TypeError")}, min_functions=60, label="rrulestr()")

    # ---------------------------------------------------------------- C13.TERM
    from ..prog import check_cursor_loop
    whiles = [n for n in pcfg.live_nodes() if n.kind == "branch" and isinstance(n.loop, ast.While)]
    if len(whiles) != 1:
        raise AnalysisError("C13.TERM", pr.qualname, "unfold loop not found")
    check_cursor_loop(ctx, "C13.TERM", pr, pcfg, whiles[0])

    # ---------------------------------------------------------------- C13.ARGS
    from ..rules_common import check_call_arguments
    check_call_arguments(ctx, "C13.ARGS", "C13")
    from ..rules_common import check_effect_tables
    check_effect_tables(ctx, "C13")
    # C13.LAZY - dateutil.parser is imported lazily into the module global `parser`
    from ..rules_common import check_lazy_imports
    n_lazy = check_lazy_imports(ctx, "C13.LAZY", "rrule")
    ctx.floor("C13.LAZY", n_lazy, 3, "uses of the lazily imported parser module")
    from ..rules_common import check_presence_tests, ARG_SCOPE
    check_presence_tests(ctx, "C13.PRESENCE", classes=ARG_SCOPE.get("C13", []))
    from ..rules_common import check_param_rebinding
    check_param_rebinding(ctx, "C13.PARAMS", classes=ARG_SCOPE.get("C13", []))


