"""C09 - relativedelta(dt1, dt2) is the calendar difference that carries dt2 onto dt1."""
import ast

from ..model import src, walk_local, AnalysisError
from ..cfg import ReachingDefs
from ..fields import init_fields
from ..linform import poly, show
from ..ivl import Interp, Val
from ..rules_lock import stmt_text

CLAIM = ("static analysis (who-writes on the two-date path, polynomial normal forms for the unit arithmetic, direction "
         "table and recompute order of the overshoot loop, coercion guards, interval bounds after normalisation): "
         "necessary conditions of C09; the inverse law and maximality of the month shift for all pairs are not decided")
TECHNIQUE = "reaching definitions / who-writes, polynomial normalisation of arithmetic ASTs, must-hold branch facts, interval analysis (ast only)"
EXPLANATION = (
    "On the path guarded by `dt1 and dt2` in relativedelta.__init__: C09.RELONLY - every absolute field is assigned "
    "None and nothing else. C09.UNIT - the initial month count normalises to 12*dt1.year - 12*dt2.year + dt1.month - "
    "dt2.month and the residual seconds to delta.seconds + 86400*delta.days; microseconds come from "
    "delta.microseconds. C09.DIR - the only definitions of the month counter are that difference and `+= increment` "
    "inside the correction loop; (dt1 < dt2 -> operator.gt, +1; else operator.lt, -1); inside the loop the counter "
    "is stepped, _set_months(counter) is applied and the shifted date is recomputed from dt2 (never stepped from "
    "the previous clipped date), in that order; every definition of the shifted date is self.__radd__(dt2) (or "
    "dt2 + self); the residual is dt1 - shifted. C09.COERCE - non-dates raise TypeError before any arithmetic; a "
    "date mixed with a datetime is promoted by fromordinal before the month arithmetic. C09.NORM - _fix() is "
    "reached on every path and interval analysis bounds the normalised fields (shared with C16.FIX).")
ASSUMPTIONS = ["date/datetime subtraction and ordering behave as documented",
               "dt2 + relativedelta(dt1, dt2) == dt1 for all pairs, termination of the loop: NOT decided"]


def run(ctx):
    prog = ctx.prog
    cls = prog.cls("relativedelta.relativedelta", "C09")
    init = prog.method(cls.qualname, "__init__", "C09")
    cfg = ctx.cfg(init)
    facts = ctx.facts(init)
    rd = ReachingDefs(cfg, params=init.params)
    branch = [st for st in init.node.body if isinstance(st, ast.If) and sorted(x.id for x in ast.walk(st.test) if isinstance(x, ast.Name)) == ["dt1", "dt2"]]
    if len(branch) != 1:
        raise AnalysisError("C09", init.qualname, "two-date branch `if dt1 and dt2` not found")
    inside = set(id(x) for st in branch[0].body for x in ast.walk(st))
    two = [n for n in cfg.live_nodes() if n.ast is not None and id(n.ast) in inside]
    if len(two) < 20:
        raise AnalysisError("C09", init.qualname, "two-date branch has only %d CFG nodes" % len(two))
    twoset = set(n.id for n in two)

    # ---------------------------------------------------------------- C09.RELONLY
    absolute = ["year", "month", "day", "weekday", "hour", "minute", "second", "microsecond"]
    for a in absolute:
        ws = [n for n in two if n.kind == "stmt" and isinstance(n.ast, (ast.Assign, ast.AugAssign)) and any(
            isinstance(t, ast.Attribute) and src(t) == "self." + a and isinstance(t.ctx, ast.Store) for t in ast.walk(n.ast))]
        ok = len(ws) >= 1 and all(isinstance(w.ast, ast.Assign) and isinstance(w.ast.value, ast.Constant) and w.ast.value.value is None for w in ws)
        ctx.ob("C09.RELONLY", init, "the difference of two dates leaves absolute field %s unset" % a, ok,
               construct="two-date path: writes of self.%s" % a, detail=str([stmt_text(w) for w in ws]), analysis="who-writes")
    lw = [n for n in two if n.kind == "stmt" and isinstance(n.ast, (ast.Assign, ast.AugAssign)) and "self.leapdays" in [src(t) for t in ast.walk(n.ast) if isinstance(t, ast.Attribute) and isinstance(t.ctx, ast.Store)]]
    ctx.ob("C09.RELONLY", init, "leapdays stays 0 on the two-date path", bool(lw) and all(src(w.ast.value) == "0" for w in lw),
           construct="two-date path: writes of self.leapdays")

    # ---------------------------------------------------------------- C09.UNIT / C09.DIR
    sm_calls = [n for n in two if n.kind == "stmt" and isinstance(n.ast, ast.Expr) and isinstance(n.ast.value, ast.Call)
                and src(n.ast.value.func) == "self._set_months"]
    if not sm_calls or not isinstance(sm_calls[0].ast.value.args[0], ast.Name):
        raise AnalysisError("C09.DIR", init.qualname, "self._set_months(<counter>) not found on the two-date path")
    counter = sm_calls[0].ast.value.args[0].id
    cdefs = [n for n in two if n.kind == "stmt" and isinstance(n.ast, (ast.Assign, ast.AugAssign)) and any(
        isinstance(t, ast.Name) and t.id == counter for t in (n.ast.targets if isinstance(n.ast, ast.Assign) else [n.ast.target]))]
    initial = [n for n in cdefs if isinstance(n.ast, ast.Assign)]
    steps = [n for n in cdefs if isinstance(n.ast, ast.AugAssign)]
    want = {("dt1.year",): 12, ("dt2.year",): -12, ("dt1.month",): 1, ("dt2.month",): -1}
    p = poly(initial[0].ast.value) if len(initial) == 1 else None
    ctx.ob("C09.UNIT", init, "the initial month count is 12*(year difference) + (month difference), dt1 minus dt2", p == want,
           construct="%s = %s" % (counter, src(initial[0].ast.value) if initial else "?"), detail="normal form: %s" % (show(p) if p else "n/a"),
           analysis="polynomial normal form (UNIT year->month = 12)")
    loops = [n for n in two if n.kind == "branch" and isinstance(n.loop, ast.While)]
    if len(loops) != 1:
        raise AnalysisError("C09.DIR", init.qualname, "expected one correction loop, found %d" % len(loops))
    loop = loops[0]
    body_ids = set(id(x) for s in loop.loop.body for x in ast.walk(s))
    in_loop = lambda n: n.ast is not None and id(n.ast) in body_ids
    ok_defs = len(initial) == 1 and len(steps) == 1 and in_loop(steps[0]) and isinstance(steps[0].ast.op, ast.Add) \
        and isinstance(steps[0].ast.value, ast.Name)
    ctx.ob("C09.DIR", init, "the month counter is defined only by the initial difference and by `+= increment` inside the correction loop",
           ok_defs, construct="definitions of %s" % counter, detail=str([stmt_text(n) for n in cdefs]), analysis="who-writes / reaching definitions")
    # direction table
    incname = steps[0].ast.value.id if steps and isinstance(steps[0].ast.value, ast.Name) else None
    cmpname = loop.ast.func.id if isinstance(loop.ast, ast.Call) and isinstance(loop.ast.func, ast.Name) else None
    table = {}
    for n in two:
        if n.kind == "stmt" and isinstance(n.ast, ast.Assign) and len(n.ast.targets) == 1 and isinstance(n.ast.targets[0], ast.Name) \
                and n.ast.targets[0].id in (incname, cmpname):
            key = "lt" if ("dt1 < dt2", True) in facts.at(n) else ("ge" if ("dt1 < dt2", False) in facts.at(n) else "?")
            table.setdefault(key, {})[n.ast.targets[0].id] = src(n.ast.value)
    want_t = {"lt": {cmpname: "operator.gt", incname: "1"}, "ge": {cmpname: "operator.lt", incname: "-1"}}
    ctx.ob("C09.DIR", init, "overshoot correction direction: dt1 < dt2 -> step +1 while dt1 > shifted; otherwise step -1 while dt1 < shifted",
           table == want_t and cmpname is not None, construct="direction table", detail=str(table), analysis="CMP table from branch facts")
    la = [src(a) for a in loop.ast.args] if isinstance(loop.ast, ast.Call) else []
    shifted = la[1] if len(la) == 2 else None
    ctx.ob("C09.DIR", init, "the loop tests compare(dt1, shifted)", len(la) == 2 and la[0] == "dt1", construct="while %s" % src(loop.ast))
    # order inside the loop: step, _set_months(counter), recompute from dt2
    sdefs = [n for n in two if n.kind == "stmt" and isinstance(n.ast, ast.Assign) and any(isinstance(t, ast.Name) and t.id == shifted for t in n.ast.targets)]
    good_rhs = ("self.__radd__(dt2)", "self.__add__(dt2)", "dt2 + self", "self + dt2")
    ok_rhs = bool(sdefs) and all(src(n.ast.value) in good_rhs for n in sdefs)
    ctx.ob("C09.DIR", init, "every definition of the shifted date recomputes it from dt2 with the whole month shift "
           "(never by stepping the previously clipped date)", ok_rhs, construct="definitions of %s" % shifted,
           detail=str([stmt_text(n) for n in sdefs]), analysis="who-writes")
    inner_s = [n for n in sdefs if in_loop(n)]
    inner_sm = [n for n in sm_calls if in_loop(n)]
    ok_order = len(inner_s) == 1 and len(inner_sm) == 1 and steps and \
        cfg.path_avoiding(steps[0], inner_s, avoid_nodes=inner_sm) is None and \
        cfg.path_avoiding(loop, inner_sm, avoid_nodes=steps) is None and \
        cfg.path_avoiding(inner_s[0], [loop], avoid_nodes=[]) is not None
    ctx.ob("C09.DIR", init, "inside the loop: step the counter, apply _set_months(counter), then recompute the shifted date, then re-test",
           bool(ok_order), construct="loop body order", detail=str([stmt_text(n) for n in cfg.live_nodes() if in_loop(n)]), analysis="CFG must-pass-through")
    # _set_months before the first shifted-date computation
    outer_s = [n for n in sdefs if not in_loop(n)]
    outer_sm = [n for n in sm_calls if not in_loop(n)]
    ok0 = len(outer_s) == 1 and len(outer_sm) >= 1 and cfg.dominates(outer_sm, outer_s[0]) and cfg.dominates(initial, outer_sm[0])
    ctx.ob("C09.DIR", init, "the initial month count is installed with _set_months before the first shift", ok0, construct="initial _set_months ; shift")
    # residual
    dl = [n for n in two if n.kind == "stmt" and isinstance(n.ast, ast.Assign) and src(n.ast.value) == "dt1 - %s" % shifted]
    ctx.ob("C09.UNIT", init, "the residual is dt1 minus the month-shifted date", len(dl) == 1 and cfg.dominates([loop], dl[0]) if dl else False,
           construct="delta = dt1 - %s" % shifted)
    if dl:
        dname = dl[0].ast.targets[0].id
        sec = [n for n in two if n.kind == "stmt" and isinstance(n.ast, ast.Assign) and src(n.ast.targets[0]) == "self.seconds" and n.id > dl[0].id]
        us = [n for n in two if n.kind == "stmt" and isinstance(n.ast, ast.Assign) and src(n.ast.targets[0]) == "self.microseconds" and n.id > dl[0].id]
        p = poly(sec[0].ast.value) if sec else None
        ctx.ob("C09.UNIT", init, "residual seconds = delta.seconds + 86400 * delta.days", p == {(dname + ".seconds",): 1, (dname + ".days",): 86400},
               construct="self.seconds = %s" % (src(sec[0].ast.value) if sec else "?"), detail="normal form: %s" % (show(p) if p else "n/a"),
               analysis="polynomial normal form (UNIT day->second = 86400)")
        ctx.ob("C09.UNIT", init, "residual microseconds = delta.microseconds", bool(us) and src(us[0].ast.value) == dname + ".microseconds",
               construct="self.microseconds = %s" % (src(us[0].ast.value) if us else "?"))

    # ---------------------------------------------------------------- C09.COERCE
    # the prefix of the two-date branch (everything before the first field is stored) as a table: what raises, what dt1 / dt2 become
    from ..rules_common import check_region_table

    def coerce_prefix(fnode):
        for st in fnode.body:
            if isinstance(st, ast.If) and sorted(x.id for x in ast.walk(st.test) if isinstance(x, ast.Name)) == ["dt1", "dt2"]:
                out = []
                for b_ in st.body:
                    if any(isinstance(x, ast.Attribute) and isinstance(x.ctx, ast.Store) and isinstance(x.value, ast.Name) and x.value.id == "self" for x in ast.walk(b_)):
                        break
                    out.append(b_)
                return out
        return []
    check_region_table(ctx, "C09.COERCE", init, coerce_prefix, "operands that are not both dates raise TypeError before any arithmetic; a date mixed with a datetime is "
                       "promoted to a datetime (midnight) exactly when the two operands differ in kind, whichever side it is on", "two-date form: type check and promotion",
                       final_names=["dt1", "dt2"])
    tchk = [n for n in two if n.kind == "stmt" and isinstance(n.ast, ast.Raise) and src(n.ast.exc).startswith("TypeError")]
    ctx.ob("C09.COERCE", init, "the type check precedes the month arithmetic", bool(tchk) and bool(initial) and all(initial[0] not in cfg.reach([t_]) for t_ in tchk) and
           cfg.path_avoiding(cfg.entry, [initial[0]], avoid_nodes=[b_ for t_ in tchk for b_, lab in t_.pred]) is None,
           construct="type check dominates month difference")

    # ---------------------------------------------------------------- C09.NORM
    fixcalls = [n for n in cfg.live_nodes() if n.kind == "stmt" and isinstance(n.ast, ast.Expr) and isinstance(n.ast.value, ast.Call)
                and src(n.ast.value.func) == "self._fix"]
    path = cfg.path_avoiding(cfg.entry, [cfg.exit], avoid_nodes=fixcalls)
    ctx.ob("C09.NORM", init, "the two-date result is normalised: every normal path ends in self._fix()", path is None and bool(fixcalls),
           construct="self._fix() post-dominates", analysis="CFG must-pass-through")
    bounds = {"microseconds": 999999, "seconds": 59, "minutes": 59, "hours": 23, "months": 11}
    fix = prog.method(cls.qualname, "_fix", "C09.NORM")
    env = Interp(prog, fix).run().env_at_exit()
    for k, b in bounds.items():
        v = env.get("self." + k) if env is not None else None
        ctx.ob("C09.NORM", fix, "|%s| <= %d after normalisation" % (k, b), isinstance(v, Val) and v.within(-b, b),
               construct="exit range of self.%s" % k, detail="interval analysis gives %r" % (v,), analysis="IVL")
    sm = prog.method(cls.qualname, "_set_months", "C09.NORM")
    smcfg = ctx.cfg(sm)
    from ..rules_common import assigns_attr
    yw = [n for n in smcfg.live_nodes() if assigns_attr(n, "self.years")]
    path = smcfg.path_avoiding(smcfg.entry, [smcfg.exit], avoid_nodes=yw)
    ctx.ob("C09.NORM", sm, "_set_months defines years on every path (assignment, not accumulation: it is re-run by the loop)",
           path is None and all(isinstance(n.ast, ast.Assign) for n in yw), construct="self.years in _set_months")

    # ---------------------------------------------------------------- C09.ARGS / C09.PRESENCE
    from ..rules_common import check_call_arguments, check_presence_tests, ARG_SCOPE
    check_call_arguments(ctx, "C09.ARGS", "C09")
    from ..rules_common import check_effect_tables
    check_effect_tables(ctx, "C09")
    check_presence_tests(ctx, "C09.PRESENCE", classes=ARG_SCOPE.get("C09", []))
    from ..rules_common import check_param_rebinding
    check_param_rebinding(ctx, "C09.PARAMS", classes=ARG_SCOPE.get("C09", []))


