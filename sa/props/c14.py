"""C14 - parse() is total: a datetime, ParserError or OverflowError, always terminating."""
import ast

from ..model import src, walk_local, AnalysisError, FuncInfo, mangle
from ..exc import Analyzer, is_sub
from ..prog import check_cursor_loop
from ..rules_lock import stmt_text, MUTATORS

CLAIM = ("static analysis (exception-escape effect analysis over the resolved call graph with flow-sensitive light "
         "typing; purity/who-writes over the reachable functions; loop-progress checks; dominance of the TypeError "
         "gate): three of the four clauses of C14 are decided - which exception types can escape parse() for text "
         "input, statelessness between calls, and termination of the scanner loops; 'promptly' (cost bounds) is not")
TECHNIQUE = "may-raise effect system with handler subtraction over the call graph + reaching-definition typing; PURE who-writes; PROG; CFG dominance (ast only)"
EXPLANATION = (
    "C14.EXC: from parser.parse (and the module-level parse) every primitive raiser (explicit raise, assert, int/float "
    "of text, Decimal construction and division/remainder, sequence/dict subscripts, tuple unpacking, datetime "
    "construction/replace/arithmetic, monthrange, 2-argument getattr, next(), encode/decode, pop/remove/index, None "
    "arithmetic on call results and record slots) in the reachable functions is propagated through the resolved call "
    "graph, subtracting what each enclosing except clause catches. What escapes must be a ValueError subclass "
    "(ParserError, UnicodeError, IllegalMonthError) or OverflowError; TypeError may escape only from the two explicit "
    "raises for non-text input and an ill-typed tzinfos value. Named suppressions are each justified by a checked "
    "side condition (C14.JUSTIFY) or a stated reason. C14.PURE: no reachable function stores to an attribute of the "
    "shared parser/parserinfo objects, a module global or a class table, none is memoised, and the ambient reads are "
    "exactly the clock/time-zone ones. C14.TERM: the scan loop of _parse, the lexer loops and the recombination loop "
    "make progress on every path. C14.TYPE: non-text input reaches the explicit TypeError before any other use."
    ' C14.STATELESS: no function of dateutil.parser._parser stores into, or mutates, a class object or a module-level container (token lists are edited in place: a cached list would be edited twice).')
ASSUMPTIONS = [
    "sound with respect to the primitive-raiser table in sa/exc.py; user-supplied tzinfos callables/objects and tzinfo methods of foreign classes are opaque",
    "methods of stdlib objects (datetime.tzname(), warnings.warn, StringIO.read) do not raise",
    "'promptly' (run-time cost for very long digit runs) is NOT decided",
]

P = "dateutil.parser._parser."
ALLOWED = ("ValueError", "OverflowError")
TYPEERROR_OK = {
    (P + "_timelex.__init__", "non-text input"),
    (P + "parser._build_tzinfo", "ill-typed value in the tzinfos option"),
}
SEEDS = {
    (P + "parser.parse", "timestr"): ["str", "bytes", "unknown"],
    (P + "parser.parse", "default"): ["datetime", "none_default"],
    (P + "_timelex.__init__", "instream"): ["str", "bytes", "unknown"],
}
USER = {(P + "parser._build_tzinfo", "tzinfos")}

# (function, construct) -> reason.  Entries marked CHECKED have a static side condition verified in justify().
SUPPRESS = {
    (P + "_timelex.get_token", "token + nextchar"): "CHECKED: token is assigned in the very branch where state first becomes set; the additions happen only with state set",
    (P + "_timelex.get_token", "token[-1]"): "CHECKED: token is a non-empty string whenever state is set (same co-assignment)",
    (P + "parser._parse_hms", "info.hms(tokens[hms_idx]) + 1"): "CHECKED: hms_idx comes from _find_hms_idx, which returns an index only where info.hms(tokens[index]) is not None",
    (P + "_ymd._resolve_from_stridxs", "assert len(missing) == len(key) == 1"): "CHECKED: the only caller guards the call with len(self) == 3 and len(strids) == 2 (or all labelled)",
    (P + "_ymd._resolve_from_stridxs", "assert len(self) == len(strids)"): "CHECKED: same caller guard",
    (P + "parserinfo.convertyear", "assert year >= 0"): "the year is int() of a lexer digit run or of a non-negative Decimal; the lexer never produces a sign inside a number",
    (P + "parser._recombine_skipped", "skipped_tokens[-1]"): "taken only when idx-1 was the previous skipped index, i.e. after at least one append",
    (P + "parser._recombine_skipped", "skipped_tokens[-1] + tokens[idx]"): "same",
    (P + "parser._recombine_skipped", "tokens[idx]"): "CHECKED: every skipped index is the scan cursor i < len(tokens) at the time it was appended",
    ("dateutil.relativedelta.relativedelta.__add__", "assert 1 <= abs(self.months) <= 12"): "class invariant |months| <= 11 after _fix (proved by C16.FIX) under `if self.months`",
    ("dateutil.relativedelta.relativedelta.__init__", "weekdays[weekday]"): "index is parserinfo.weekday(): position in the 7-entry WEEKDAYS table (C02.NAMES)",
    (P + "_tzparser.parse", "l[n]"): "n ranges over set(range(len_l)) minus used indices",
}


def analyzer(prog):
    return Analyzer(prog, seeds=SEEDS, suppress=SUPPRESS, user_callables=USER)


def run(ctx):
    prog = ctx.prog
    entry = prog.func("parser._parser.parser.parse", "C14.EXC")
    an = analyzer(prog)
    res = an.escapes(entry)
    ctx.stat("functions_reached", an.stats["functions"])
    ctx.stat("call_sites", an.stats["calls"])
    ctx.stat("call_sites_resolved", an.stats["resolved"])
    ctx.stat("primitive_raise_sites", an.stats["primitive_sites"])
    ctx.floor("C14.EXC", an.stats["functions"], 45, "functions reachable from parser.parse")
    ctx.floor("C14.EXC", an.stats["primitive_sites"], 150, "primitive raiser sites examined")
    reached = sorted(an.summaries)
    ctx.note("reachable functions: %d; unresolved (opaque) calls: %d" % (len(reached), an.stats["unresolved"]))
    opaque = sorted(set(an.unresolved.get("opaque call", [])))
    ctx.note("opaque callee kinds (sample): %s" % sorted(set(o.split(": ")[1] for o in opaque))[:40])

    # ---------------------------------------------------------------- C14.EXC
    n_ok = 0
    for r in sorted(res, key=lambda r: r.key()):
        q = r.site.split(" ")[-1]
        ok = any(is_sub(r.exc, a) for a in ALLOWED)
        why = ""
        if not ok and r.exc == "TypeError" and r.kind == "explicit" and any(q == k[0] for k in TYPEERROR_OK):
            ok = True
            why = [k[1] for k in TYPEERROR_OK if k[0] == q][0]
        if ok:
            n_ok += 1
        ctx.ob("C14.EXC", entry, "only ValueError subclasses (ParserError) or OverflowError escape parse() for text input; TypeError only for "
               "non-text input / an ill-typed option", ok, construct="%s escapes from %s: %s" % (r.exc, q.split(".")[-2] + "." + q.split(".")[-1], r.construct.split(" [")[0]),
               detail=why if ok else "raised at %s; call path %s; not caught by any enclosing handler" % (r.site, " > ".join(c.split(".")[-1] for c in r.chain) or "(entry)"),
               analysis="EXC effect analysis")
    for q, c, exc, reason in sorted(set(an.used_suppressions)):
        ctx.suppress("C14.EXC", "%s: %s (%s)" % (q, c, exc), reason)
    mp = prog.func("parser._parser.parse", "C14.EXC")
    calls = [src(x) for x in walk_local(mp.node) if isinstance(x, ast.Call) and src(x.func).endswith(".parse")]
    ctx.ob("C14.EXC", mp, "the module-level parse() only forwards to parser.parse", sorted(calls) == ["DEFAULTPARSER.parse(timestr, **kwargs)", "parser(parserinfo).parse(timestr, **kwargs)"],
           construct="parse() forwards", detail=str(calls))
    # wrapping of construction errors
    pcfg = ctx.cfg(entry)
    hd = [n for n in pcfg.live_nodes() if n.kind == "handler"]
    okw = len(hd) == 1 and src(hd[0].ast.type) == "ValueError" and "ParserError(" in src(hd[0].ast.body)
    ctx.ob("C14.EXC", entry, "ValueError from building the datetime is re-raised as ParserError", okw, construct="_build_naive wrapping")
    pe = prog.cls("parser._parser.ParserError", "C14.EXC")
    ctx.ob("C14.EXC", pe, "ParserError is a ValueError subclass", pe.base_exprs == ["ValueError"], construct="class ParserError(ValueError)")
    justify(ctx)

    # ---------------------------------------------------------------- C14.PURE
    shared_classes = {P + "parser", P + "parserinfo"}
    allowed_cache_writers = {"dateutil.tz._factories._TzStrFactory.__call__", "dateutil.tz._factories._TzOffsetFactory.__call__",
                             "dateutil.tz._factories._TzSingleton.__call__"}
    n_funcs = 0
    ambient = set()
    for q in reached:
        f = prog.functions.get(q)
        if f is None:
            continue
        n_funcs += 1
        bad_dec = [d for d in f.decorators if any(k in d for k in ("lru_cache", "cache", "memo"))]
        ctx.ob("C14.PURE", f, "no function on parse()'s path is memoised (a cached token list or result would be shared between calls)", not bad_dec,
               construct="decorators of %s" % f.name, detail=str(bad_dec)) if (bad_dec or f.decorators) else None
        stores = []
        for n in walk_local(f.node):
            if isinstance(n, ast.Global):
                # a lazily imported module kept in a module global is not call-to-call state
                imported = set()
                for y in walk_local(f.node):
                    if isinstance(y, (ast.Import, ast.ImportFrom)):
                        imported |= set((al.asname or al.name).split(".")[0] for al in y.names)
                assigned = set(t.id for y in walk_local(f.node) if isinstance(y, (ast.Assign, ast.AugAssign))
                               for t in (y.targets if isinstance(y, ast.Assign) else [y.target]) if isinstance(t, ast.Name))
                bad = [g for g in n.names if g not in imported or g in assigned]
                if bad:
                    stores.append("global " + ", ".join(bad))
            tgts = []
            if isinstance(n, ast.Assign):
                tgts = n.targets
            elif isinstance(n, ast.AugAssign):
                tgts = [n.target]
            for t in tgts:
                for x in ast.walk(t):
                    if isinstance(x, ast.Attribute) and isinstance(x.ctx, ast.Store):
                        root = x
                        while isinstance(root, ast.Attribute):
                            root = root.value
                        if isinstance(root, ast.Name):
                            if root.id in ("self", "cls") and f.cls is not None and f.cls.qualname in shared_classes and f.name != "__init__":
                                stores.append(src(x))
                            elif root.id in ("info",) or src(x).startswith("self.info."):
                                stores.append(src(x))
                            elif root.id[:1].isupper() or root.id in ("parserinfo", "parser", "DEFAULTPARSER"):
                                stores.append(src(x))
                    if isinstance(x, ast.Subscript) and isinstance(x.ctx, ast.Store) and isinstance(x.value, ast.Attribute):
                        v = x.value
                        if isinstance(v.value, ast.Name) and v.value.id in ("self", "cls", "info") and (v.attr.isupper() or (f.cls is not None and f.cls.qualname in shared_classes and f.name != "__init__")):
                            stores.append(src(x))
            if isinstance(n, ast.Call) and isinstance(n.func, ast.Attribute) and n.func.attr in MUTATORS and isinstance(n.func.value, ast.Attribute):
                v = n.func.value
                if isinstance(v.value, ast.Name) and v.value.id in ("self", "cls", "info") and f.cls is not None and f.cls.qualname in shared_classes and f.name != "__init__":
                    stores.append(src(n))
                if v.attr.isupper():
                    stores.append(src(n))
            if isinstance(n, ast.Attribute) and isinstance(n.ctx, ast.Load):
                t = src(n)
                if t.startswith(("time.", "os.environ", "random.")) or t in ("datetime.datetime.now", "datetime.datetime.utcnow", "datetime.datetime.today"):
                    ambient.add(t)
        if q in allowed_cache_writers:
            continue
        if stores or f.cls is not None and f.cls.qualname in shared_classes:
            ctx.ob("C14.PURE", f, "a function reachable from parse() writes only to objects created by that call (never to the shared parser / parserinfo, a global or a class table)",
                   not stores, construct="shared-state writes in %s" % q.split("parser._parser.")[-1], detail="; ".join(stores), analysis="PURE who-writes")
    ctx.floor("C14.PURE", n_funcs, 45, "functions scanned for shared-state writes")
    want_amb = {"datetime.datetime.now", "time.tzname", "time.timezone", "time.altzone", "time.daylight", "time.localtime"}
    ctx.ob("C14.PURE", entry, "the only ambient inputs on the path are the clock (for the default) and the process time zone", ambient <= want_amb,
           construct="ambient reads", detail="found %s" % sorted(ambient), analysis="PURE ambient reads")
    dflt = [n for n in pcfg.live_nodes() if n.kind == "stmt" and "datetime.datetime.now()" in src(n.ast)]
    ctx.ob("C14.PURE", entry, "the clock is read only when no default was given", len(dflt) == 1 and ("default is None", True) in ctx.facts(entry).at(dflt[0]), construct="now() under `default is None`")
    mod = prog.module("parser._parser", "C14.PURE")
    ctx.ob("C14.PURE", mod, "the shared default parser is one module-level instance built without arguments", src(mod.assigns.get("DEFAULTPARSER")) == "parser()", construct="DEFAULTPARSER = parser()")
    tl = prog.func("parser._parser._timelex.split", "C14.PURE")
    ctx.ob("C14.PURE", tl, "the token list handed to the parser is a fresh list per call (the parser rewrites it in place)", any(
        isinstance(x, ast.Return) and src(x.value) == "list(cls(s))" for x in walk_local(tl.node)), construct="_timelex.split returns list(cls(s))")

    # ---------------------------------------------------------------- C14.TERM
    pp = prog.func("parser._parser.parser._parse", "C14.TERM")
    cfg = ctx.cfg(pp)
    heads = [n for n in cfg.live_nodes() if n.kind == "branch" and isinstance(n.loop, ast.While)]
    if len(heads) != 1:
        raise AnalysisError("C14.TERM", pp.qualname, "main scan loop not found")
    check_cursor_loop(ctx, "C14.TERM", pp, cfg, heads[0], monotone_calls=("self._parse_numeric_token",), label="scan loop of _parse")
    # the callee never returns less than the cursor it was given
    pnt = prog.func("parser._parser.parser._parse_numeric_token", "C14.TERM")
    ncfg = ctx.cfg(pnt)
    writes = [n for n in ncfg.live_nodes() if n.kind == "stmt" and isinstance(n.ast, (ast.Assign, ast.AugAssign)) and any(
        isinstance(t, ast.Name) and t.id == "idx" for t in ast.walk(n.ast.targets[0] if isinstance(n.ast, ast.Assign) else n.ast.target))]
    okm = all((isinstance(n.ast, ast.AugAssign) and isinstance(n.ast.op, ast.Add) and isinstance(n.ast.value, ast.Constant) and n.ast.value.value > 0) or
              (isinstance(n.ast, ast.Assign) and "self._parse_hms(" in src(n.ast.value)) for n in writes)
    rets = [x for x in walk_local(pnt.node) if isinstance(x, ast.Return)]
    ctx.ob("C14.TERM", pnt, "_parse_numeric_token returns a cursor not smaller than the one it was given (only += positive steps, or the result of _parse_hms)",
           okm and len(rets) == 1 and src(rets[0].value) == "idx", construct="cursor writes in _parse_numeric_token", detail=str([stmt_text(n) for n in writes]), analysis="PROG callee summary")
    ph = prog.func("parser._parser.parser._parse_hms", "C14.TERM")
    hcfg = ctx.cfg(ph)
    hf = ctx.facts(ph)
    na = [n for n in hcfg.live_nodes() if n.kind == "stmt" and isinstance(n.ast, ast.Assign) and src(n.ast.targets[0]) == "new_idx"]
    okh = all(src(n.ast.value) == "idx" or (src(n.ast.value) == "hms_idx" and ("hms_idx > idx", True) in hf.at(n)) for n in na) and len(na) == 3
    ctx.ob("C14.TERM", ph, "_parse_hms returns the given cursor or a later label position", okh, construct="new_idx in _parse_hms", detail=str([(stmt_text(n)) for n in na]), analysis="PROG callee summary")
    gt = prog.func("parser._parser._timelex.get_token", "C14.TERM")
    gcfg = ctx.cfg(gt)
    gl = [n for n in gcfg.live_nodes() if n.kind == "branch" and isinstance(n.loop, ast.While)]
    ctx.floor("C14.TERM", len(gl), 2, "lexer loops")
    main = [n for n in gl if "self.eof" in src(n.ast)]
    if len(main) != 1:
        raise AnalysisError("C14.TERM", gt.qualname, "lexer main loop not found")
    # each iteration consumes one character (from charstack or the stream) or ends; a push-back is followed by break
    consume = [n for n in gcfg.live_nodes() if n.kind == "stmt" and isinstance(n.ast, ast.Assign)
               and src(n.ast.value) in ("self.charstack.pop(0)", "self.instream.read(1)")]
    s0 = [s for s, lab in main[0].succ if lab == "true"]
    path = None
    for s_ in s0:
        path = path or gcfg.path_avoiding(s_, [main[0]], avoid_nodes=consume, include_start=True)
    ctx.ob("C14.TERM", gt, "every iteration of the lexer loop takes one character from the push-back stack or the stream", path is None and len(consume) >= 2,
           construct="lexer loop consumption", analysis="PROG: CFG must-pass-through")
    push = [n for n in gcfg.live_nodes() if n.kind == "stmt" and "self.charstack.append(nextchar)" in src(n.ast)]
    okb = bool(push) and all(all(isinstance(s.ast, ast.Break) for s, lab in p_.succ if lab == "next") for p_ in push)
    ctx.ob("C14.TERM", gt, "a character is pushed back only when the token ends (push-back is followed directly by break), and at most one per call", okb,
           construct="push-back then break", detail="%d push-back sites" % len(push), analysis="CFG successor")
    eof = [n for n in gcfg.live_nodes() if n.kind == "stmt" and src(n.ast) == "self.eof = True"]
    ctx.ob("C14.TERM", gt, "an empty read ends the lexer (eof set, loop left)", len(eof) == 1 and ("nextchar", False) in ctx.facts(gt).at(eof[0]), construct="eof handling")
    nul = [n for n in gl if "\\x00" in src(n.ast)]
    okn = len(nul) == 1 and all("self.instream.read(1)" in src(s.ast) for s, lab in nul[0].succ if lab == "true")
    ctx.ob("C14.TERM", gt, "the NUL-skipping loop reads a new character on every iteration", okn, construct="NUL skip loop")
    nx = prog.func("parser._parser._timelex.__next__", "C14.TERM")
    ctx.ob("C14.TERM", nx, "token iteration stops when get_token returns None", "if token is None:" in src(nx.node) and "raise StopIteration" in src(nx.node), construct="__next__ stop")
    rets_g = [n for n in gcfg.live_nodes() if n.kind == "stmt" and isinstance(n.ast, ast.Return)]
    ctx.ob("C14.TERM", gt, "at end of input with nothing read the token is None", any(src(n.ast.value) == "token" for n in rets_g) and
           any(src(n.ast) == "token = None" for n in gcfg.live_nodes() if n.kind == "stmt"), construct="token = None at eof")

    # ---------------------------------------------------------------- C14.TYPE
    ti = prog.func("parser._parser._timelex.__init__", "C14.TYPE")
    tcfg = ctx.cfg(ti)
    tf = ctx.facts(ti)
    rs = [n for n in tcfg.live_nodes() if n.kind == "stmt" and isinstance(n.ast, ast.Raise)]
    okt = len(rs) == 1 and src(rs[0].ast.exc).startswith("TypeError") and ("isinstance(instream, text_type)", False) in tf.at(rs[0]) and \
        any(tv and "getattr(instream, 'read', None) is None" in t for t, tv in tf.at(rs[0]))
    ctx.ob("C14.TYPE", ti, "input that is neither text, bytes nor a stream raises TypeError", okt, construct="TypeError gate", analysis="must-hold branch facts")
    st = [n for n in tcfg.live_nodes() if n.kind == "stmt" and src(n.ast) == "self.instream = instream"]
    ctx.ob("C14.TYPE", ti, "the input is stored only after the gate", len(st) == 1 and cfg is not None and tcfg.path_avoiding(tcfg.entry, st, avoid_nodes=[
        n for n in tcfg.live_nodes() if n.kind == "branch" and "getattr(instream, 'read', None)" in src(n.ast)] + [
        n for n in tcfg.live_nodes() if n.kind == "stmt" and "StringIO(instream)" in src(n.ast)]) is None, construct="self.instream = instream after the gate")
    dec = [n for n in tcfg.live_nodes() if n.kind == "stmt" and "instream.decode()" in src(n.ast)]
    ctx.ob("C14.TYPE", ti, "bytes input is decoded first", len(dec) == 1 and any(tv and "bytes" in t for t, tv in tf.at(dec[0])), construct="bytes decode")

    # ---------------------------------------------------------------- C14.ARGS / C14.PRESENCE
    from ..rules_common import check_call_arguments, check_presence_tests, ARG_SCOPE
    check_call_arguments(ctx, "C14.ARGS", "C14")
    from ..rules_common import check_effect_tables
    check_effect_tables(ctx, "C14")
    check_presence_tests(ctx, "C14.PRESENCE", classes=ARG_SCOPE.get("C14", []))
    from ..rules_common import check_param_rebinding
    check_param_rebinding(ctx, "C14.PARAMS", classes=ARG_SCOPE.get("C14", []))

    # ---------------------------------------------------------------- C14.STATELESS
    # parse() is a function of its arguments: nothing in the parser module keeps state between calls in a class
    # object or a module global (token lists are edited in place by _parse - a list handed out twice is edited twice)
    from ..rules_common import shared_state_writes
    w = shared_state_writes(prog, "parser._parser")
    pm = prog.method(prog.cls("parser._parser.parser", "C14.STATELESS").qualname, "parse", "C14.STATELESS")
    ctx.ob("C14.STATELESS", pm if not w else w[0][0], "no function of the parser module stores into a class object or a module-level container "
           "(the second parse of a string must see what the first saw)", not w,
           construct="shared-state writes in dateutil.parser._parser: %d" % len(w),
           detail="" if not w else "; ".join("%s: %s" % (f.qualname.split("dateutil.")[-1], t) for f, n, t in w[:4]),
           analysis="who-may-write: stores / mutator calls whose base is a class object or a module-level container")


def justify(ctx):
    """Static side conditions behind the CHECKED suppressions."""
    prog = ctx.prog
    # 1. lexer: token is assigned where state first becomes set; token additions only with state set
    gt = prog.func("parser._parser._timelex.get_token", "C14.JUSTIFY")
    cfg = ctx.cfg(gt)
    facts = ctx.facts(gt)
    first = [n for n in cfg.live_nodes() if n.kind == "stmt" and isinstance(n.ast, ast.Assign) and src(n.ast.targets[0]) == "state"
             and isinstance(n.ast.value, ast.Constant) and n.ast.value.value and ("state", False) in facts.at(n)]
    tok = [n for n in cfg.live_nodes() if n.kind == "stmt" and src(n.ast) == "token = nextchar"]
    ok = bool(first) and len(tok) == 1 and all(cfg.dominates(tok, n) and ("nextchar", True) in facts.at(tok[0]) for n in first)
    ctx.ob("C14.JUSTIFY", gt, "lexer invariant: `state` becomes set only after `token = nextchar` with a non-empty character", ok, construct="state/token co-assignment",
           detail="%d first-state assignments" % len(first), analysis="CFG dominance + facts")
    adds = [n for n in cfg.live_nodes() if n.kind == "stmt" and isinstance(n.ast, ast.AugAssign) and src(n.ast.target) == "token"]
    ok2 = bool(adds) and all(any(tv and t.startswith("state == ") for t, tv in facts.at(n)) for n in adds)
    ctx.ob("C14.JUSTIFY", gt, "lexer invariant: token is extended only in a state that is set", ok2, construct="token += nextchar under a set state", detail="%d extension sites" % len(adds))
    lasts = [n for n in cfg.live_nodes() if n.ast is not None and n.kind in ("branch", "stmt") and "token[-1]" in src(n.ast)]
    ok3 = all(any(tv and (t.startswith("state == ") or t.startswith("state in")) for t, tv in facts.at(n)) or "state in ('a.', '0.')" in src(n.ast) for n in lasts)
    ctx.ob("C14.JUSTIFY", gt, "lexer invariant: token[-1] is read only with a set state", ok3 and bool(lasts), construct="token[-1] under a set state", detail="%d sites" % len(lasts))
    # 2. _find_hms_idx returns an index only where hms() is not None
    fh = prog.func("parser._parser.parser._find_hms_idx", "C14.JUSTIFY")
    hcfg = ctx.cfg(fh)
    hf = ctx.facts(fh)
    asg = [n for n in hcfg.live_nodes() if n.kind == "stmt" and isinstance(n.ast, ast.Assign) and src(n.ast.targets[0]) == "hms_idx" and src(n.ast.value) != "None"]
    ok4 = len(asg) >= 4 and all((("info.hms(tokens[%s]) is not None" % src(n.ast.value).replace(" ", ""), True) in set((t.replace(" ", "").replace("isnotNone", " is not None"), tv) for t, tv in hf.at(n))) for n in asg)
    ctx.ob("C14.JUSTIFY", fh, "_find_hms_idx yields an index only under `info.hms(tokens[index]) is not None`", ok4, construct="hms_idx assignments", detail="%d assignments" % len(asg), analysis="must-hold branch facts")
    pnt = prog.func("parser._parser.parser._parse_numeric_token", "C14.JUSTIFY")
    calls = [x for x in walk_local(pnt.node) if isinstance(x, ast.Call) and src(x.func) == "self._parse_hms"]
    ok5 = len(calls) == 1 and src(calls[0].args[3]) == "hms_idx" and any(isinstance(n, ast.Assign) and src(n.targets[0]) == "hms_idx" and "self._find_hms_idx(" in src(n.value) for n in walk_local(pnt.node))
    ctx.ob("C14.JUSTIFY", pnt, "_parse_hms receives the index computed by _find_hms_idx", ok5, construct="self._parse_hms(..., hms_idx)")
    # 3. caller guard of _resolve_from_stridxs
    ry = prog.func("parser._parser._ymd.resolve_ymd", "C14.JUSTIFY")
    rcfg = ctx.cfg(ry)
    rf = ctx.facts(ry)
    cs = [n for n in rcfg.live_nodes() if n.kind == "stmt" and "self._resolve_from_stridxs(strids)" in src(n.ast)]
    want = "len(self) == len(strids) > 0 or (len(self) == 3 and len(strids) == 2)"
    ok6 = len(cs) == 1 and (want, True) in rf.at(cs[0])
    ctx.ob("C14.JUSTIFY", ry, "the assert-carrying helper is called only when all entries are labelled or exactly 3 values with 2 labels exist", ok6,
           construct="guard of self._resolve_from_stridxs(strids)", detail="" if ok6 else "facts: %s" % sorted(t for t, tv in rf.at(cs[0]) if tv) if cs else "call not found",
           analysis="must-hold branch facts")
    others = [f.qualname for f in prog.active_functions() if f is not ry for x in walk_local(f.node) if isinstance(x, ast.Call) and src(x.func).endswith("_resolve_from_stridxs")]
    ctx.ob("C14.JUSTIFY", ry, "resolve_ymd is the only caller of that helper", not others, construct="callers of _resolve_from_stridxs", detail=str(others))
    # 4. skipped indices are scan cursors
    pp = prog.func("parser._parser.parser._parse", "C14.JUSTIFY")
    aps = [x for x in walk_local(pp.node) if isinstance(x, ast.Call) and src(x.func) == "skipped_idxs.append"]
    loop = [n for n in walk_local(pp.node) if isinstance(n, ast.While) and src(n.test) == "i < len_l"]
    inside = set(id(x) for l_ in loop for x in ast.walk(l_))
    ok7 = len(aps) >= 2 and all(src(a.args[0]) == "i" and id(a) in inside for a in aps)
    ctx.ob("C14.JUSTIFY", pp, "every skipped index is the scan cursor i appended inside `while i < len_l`", ok7, construct="skipped_idxs.append(i)", detail="%d sites" % len(aps))
