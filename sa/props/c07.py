"""C07 - isoparse inverts every ISO-8601 rendering of a datetime."""
from .. import iso_rules as R

CLAIM = ("static analysis of dateutil.parser.isoparser (decorator coverage, constructor arity, polynomial normal forms "
         "of the offset and 24:00 arithmetic, interval analysis of the week/ordinal arithmetic, fraction width "
         "agreement, UTC normalisation paths): necessary conditions of C07; the round trip over all datetimes and "
         "forms is not decided")
TECHNIQUE = "FIELD decorator/arity coverage, polynomial normal forms (UNIT), interval abstract interpretation, must-hold branch facts, regex AST (ast only)"
EXPLANATION = (
    "C07.ENTRY: the four public entry points are wrapped by _takes_ascii (str/bytes/stream equivalence). C07.ARITY: "
    "3 date components + 5 time components feed datetime/date/time positionally, each field stored at its own "
    "index. C07.MIDNIGHT: the shared time scanner stores only parsed values (so hour 24 reaches the callers), 24 is "
    "accepted only when components 1..3 are zero, parse_isotime maps 24 to 0, isoparse returns datetime(hour 0) plus "
    "exactly one day on that path. C07.FRAC: fractions are truncated to 6 digits and scaled by 10**(6-k); dot or "
    "comma; the cursor skips every fraction digit. C07.UTC: Z/z and (under zero_as_utc) a zero offset give tz.UTC; "
    "the offset normalises to sign*hours*3600 + sign*minutes*60 with '-' -> -1, '+' -> +1. C07.WEEK: week in "
    "[1,53], day in [1,7] at the week arithmetic, week_offset = 7*(week-1) + (day-1), week 1 starts 0..6 days before "
    "4 January, ordinal day in [1,366] with a year-dependent upper bound.")
ASSUMPTIONS = ["datetime/date/time constructors validate their own ranges", "the round trip for all datetimes/forms is NOT decided"]


def run(ctx):
    R.check_entry(ctx, "C07.ENTRY")
    R.check_arity(ctx, "C07.ARITY")
    R.check_midnight(ctx, "C07.MIDNIGHT")
    R.check_fraction(ctx, "C07.FRAC")
    R.check_tzstr(ctx, None, None, "C07.UTC", "C07.UTC")
    R.check_week(ctx, "C07.WEEK")

    # ---------------------------------------------------------------- C07.ARGS
    from ..rules_common import check_call_arguments
    check_call_arguments(ctx, "C07.ARGS", "C07")
    from ..rules_common import check_effect_tables
    check_effect_tables(ctx, "C07")
    from ..rules_common import check_presence_tests, ARG_SCOPE
    check_presence_tests(ctx, "C07.PRESENCE", classes=ARG_SCOPE.get("C07", []))
    from ..rules_common import check_param_rebinding
    check_param_rebinding(ctx, "C07.PARAMS", classes=ARG_SCOPE.get("C07", []))
    # C07.STATELESS - the ISO parser keeps nothing between calls in a class object or a module-level container
    from ..rules_common import shared_state_writes
    w_ = shared_state_writes(ctx.prog, "parser.isoparser")
    iso_ = ctx.prog.method(ctx.prog.cls("parser.isoparser.isoparser", "C07.STATELESS").qualname, "isoparse", "C07.STATELESS")
    ctx.ob("C07.STATELESS", iso_ if not w_ else w_[0][0], "no function of the ISO parser module stores into a class object or a module-level container "
           "(what a string parses to does not depend on what was parsed before, with which options)", not w_,
           construct="shared-state writes in dateutil.parser.isoparser: %d" % len(w_),
           detail="" if not w_ else "; ".join("%s: %s" % (f_.qualname.split("dateutil.")[-1], t_) for f_, n_, t_ in w_[:4]),
           analysis="who-may-write: stores / mutator calls whose base is a class object or a module-level container")


