"""C06 - tzfile reports exactly what the TZif data says at every instant."""
from .. import tz_rules as R

CLAIM = ("static analysis (symbolic size agreement of every struct read, read order, ttinfo field wiring incl. the "
         "NUL-terminated abbreviation slice, bisect side and index->period mapping, equality/pickle field coverage, "
         "archive link coverage): necessary conditions of C06; agreement of offsets with the bytes at every instant and "
         "the wall-time transition heuristics are NOT decided")
TECHNIQUE = "symbolic struct-size agreement (polynomial normal form), CFG order of effects, FIELD wiring/coverage, CMP tables, must-hold branch facts (ast only)"
EXPLANATION = (
    "C06.STRUCT: for each struct.unpack(fmt, fileobj.read(n)) the byte size of fmt equals n symbolically; leap seconds "
    "are skipped with leapcnt*8; the reads happen in TZif-v1 order with the header counts of those names. C06.TTINFO: "
    "offset/delta/isdst/abbr/isstd/isgmt are wired from the record (the abbreviation is the string starting AT the "
    "index up to the next NUL); transitions refer to types by index; the 'before first transition' type is the first "
    "standard type. C06.LOOKUP: bisect_right(table, t) - 1, UTC vs wall table by in_utc, index->period mapping, dst() "
    "zero for standard types. C06.EQ: _ttinfo compares every slot; tzfile compares its three tables, NotImplemented "
    "for foreign types; both pickle their whole state. C06.ARCHIVE: archive files become zones, hard AND symbolic "
    "links map to the very object of their target, archive zones pickle by name.")
ASSUMPTIONS = ["TZif version-1 block only (as the code reads)", "the derivation of wall-time transition lists / dst offsets (tz.py 660-708) is NOT decided"]


def run(ctx):
    R.check_struct(ctx, "C06.STRUCT")
    R.check_ttinfo(ctx, "C06.TTINFO")
    R.check_lookup(ctx, "C06.LOOKUP")
    R.check_eq(ctx, "C06.EQ")
    R.check_archive(ctx, "C06.ARCHIVE")

    # ---------------------------------------------------------------- C06.WALL
    R.check_walltime_loop(ctx, "C06.WALL")

    # ---------------------------------------------------------------- C06.ARGS
    from ..rules_common import check_call_arguments
    check_call_arguments(ctx, "C06.ARGS", "C06")
    from ..rules_common import check_effect_tables
    check_effect_tables(ctx, "C06")
    from ..rules_common import check_presence_tests, ARG_SCOPE
    check_presence_tests(ctx, "C06.PRESENCE", classes=ARG_SCOPE.get("C06", []))
    from ..rules_common import check_param_rebinding
    check_param_rebinding(ctx, "C06.PARAMS", classes=ARG_SCOPE.get("C06", []))


