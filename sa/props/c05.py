"""C05 - wall times are classified as normal, ambiguous or imaginary per PEP 495."""
from .. import tz_rules as R

CLAIM = ("static analysis (fold-read dependence in every ambiguous branch, call-graph reachability of a fold read from "
         "each utcoffset, return coverage of the ambiguity tests, who-writes and unit normal forms of the public "
         "helpers, half-open window comparators): necessary conditions of C05; counting UTC pre-images per wall time "
         "per zone is NOT decided")
TECHNIQUE = "FIELD dependence, call-graph reachability, CFG return coverage with must-hold facts, polynomial/timedelta normal forms (ast only)"
EXPLANATION = (
    "C05.FOLDREAD: the ambiguous branch of tzrangebase._isdst, tzfile._resolve_ambiguous_time and tzlocal._isdst "
    "returns a value that depends on the datetime's fold, and a fold read is reachable from utcoffset of every "
    "variable-offset class. C05.AMBIG: all 8 classes answer is_ambiguous; tzfile declares 'unambiguous' outright only "
    "without an earlier period and otherwise by the window [transition, transition + offset decrease); generic and "
    "local definitions as documented. C05.HALFOPEN: range-zone intervals are half-open. C05.API: resolve_imaginary "
    "writes its argument only when aware and non-existent, moves it by (offset one day later) - (offset one day "
    "earlier), both sampled at exactly 86400 s; datetime_exists is the naive round trip; datetime_ambiguous prefers "
    "the zone's own test. C05.KEY: the VTIMEZONE cache key contains the fold (see C17.KEY) and its lists stay aligned.")
ASSUMPTIONS = ["the count of UTC pre-images for every wall time in every zone is NOT decided"]


def run(ctx):
    R.check_foldread(ctx, "C05.FOLDREAD")
    R.check_ambig(ctx, "C05.AMBIG")
    R.check_halfopen(ctx, "C05.HALFOPEN")
    R.check_api(ctx, "C05.API")
    R.check_parallel_eviction(ctx, "C05.KEY")
    fc = ctx.prog.func("tz.tz._tzicalvtz._find_comp", "C05.KEY")
    import ast
    from ..model import src, walk_local
    keys = [src(x.args[0]) for x in walk_local(fc.node) if isinstance(x, ast.Call) and src(x.func) == "self._cachedate.index"]
    ctx.ob("C05.KEY", fc, "the VTIMEZONE lookup cache is keyed by (wall time, fold)", keys == ["(dt, self._fold(dt))"], construct="cache lookup key", detail=str(keys))

    # ---------------------------------------------------------------- C05.ARGS / C05.PRESENCE
    from ..rules_common import check_call_arguments, check_presence_tests, ARG_SCOPE
    check_call_arguments(ctx, "C05.ARGS", "C05")
    from ..rules_common import check_effect_tables
    check_effect_tables(ctx, "C05")
    check_presence_tests(ctx, "C05.PRESENCE", classes=ARG_SCOPE.get("C05", []))
    from ..rules_common import check_param_rebinding
    check_param_rebinding(ctx, "C05.PARAMS", classes=ARG_SCOPE.get("C05", []))


