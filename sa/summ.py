"""E11 - guarded normal form of loop-free code (if-conversion + copy propagation).

For a function (or a statement region) this engine enumerates the structured paths of the syntax tree and keeps,
per path, the branch atoms that select it and the values of the local names as expressions over the region's
inputs.  The result is the textbook "gated single assignment" view: every outcome (returned expression, raised
exception, stored attribute, call made) is paired with the exact conjunction of atoms under which it happens.

Rules compare such tables *semantically*: two tables are the same when for every truth assignment of the atoms
they select the same outcome.  That makes the verdict independent of how the code spells the decision - if/else
or conditional expression, guard clauses or nesting, inverted tests, named temporaries, merged or split `or`
guards.  Nothing is executed and no solver is involved: atoms are opaque, the table is finite.

Atoms are canonical: `x is not None` is (x is None, False); `a != b` is (a == b, False); `a > b` is (b < a);
`a >= b` is (a < b, False); `a not in b` is (a in b, False).
"""
import ast
import copy
import itertools

from .model import src, AnalysisError

MAX_PATHS = 20000


# wall-clock budget for one proof attempt of the equivalence prover (sa/equiv.py sets it; None = no budget): running out of
# it means "not computable", which every caller already reads as "not proven"
DEADLINE = [None]


def check_deadline():
    if DEADLINE[0] is not None:
        import time
        if time.time() > DEADLINE[0]:
            raise Unsupported("time budget of the proof attempt used up")


class Unsupported(Exception):
    pass


def _swap(e):
    return e


class Atom(tuple):
    """Structured atom key: ('<', a, b) | ('==', a, b) (operands sorted) | ('is', a, b) | ('in', a, b) | ('t', text).
    Prints as the condition text."""
    __slots__ = ()

    def __str__(self):
        if self[0] == "t":
            return self[1]
        return "%s %s %s" % (self[1], self[0], self[2])
    __repr__ = __str__

    def startswith(self, x):
        return str(self).startswith(x)

    def __contains__(self, x):
        return isinstance(x, str) and x in str(self)


def _operand_text(e):
    """Arithmetic operands of a comparison in polynomial normal form (4 + 1 reads as 5, a - b + b as a)."""
    if isinstance(e, ast.BinOp) and isinstance(e.op, (ast.Add, ast.Sub, ast.Mult)):
        try:
            from .linform import poly, show
            return show(poly(e))
        except Exception:
            pass
    return src(e)


def _is_arith(e):
    return isinstance(e, ast.BinOp) and isinstance(e.op, (ast.Add, ast.Sub, ast.Mult))


def _difference(l, r):
    """(text of the normalised difference l - r, sign) with the leading coefficient made positive; None when neither side
    is arithmetic (then the operands are kept as they are: they may not be numbers)."""
    def is_int(x):
        return isinstance(x, ast.Constant) and isinstance(x.value, int) and not isinstance(x.value, bool)
    if not (_is_arith(l) or _is_arith(r) or is_int(l) or is_int(r)):
        return None
    try:
        from .linform import poly, show
        p = poly(ast.BinOp(left=l, op=ast.Sub(), right=r))
    except Exception:
        return None
    if not p:
        return ("0", 0)
    lead = sorted(p.items(), key=lambda kv: (len(kv[0]), kv[0]))[-1][1]
    sign = 1 if lead > 0 else -1
    q = dict((m, c * sign) for m, c in p.items())
    return (show(q), sign)


def atom(e, truth=True):
    """Canonical (Atom, truth) of an atomic condition."""
    if any(isinstance(x, (ast.List, ast.Dict)) for x in ast.walk(e)):
        e = _SortDict().visit(copy.deepcopy(e))
    while isinstance(e, ast.UnaryOp) and isinstance(e.op, ast.Not):
        e = e.operand
        truth = not truth
    if isinstance(e, ast.Compare) and len(e.ops) == 1:
        op = e.ops[0]
        # len(x) == 0 / len(x) != 0 / len(x) > 0 / len(x) >= 1 / len(x) < 1 are statements about the truthiness of x
        l0, r0 = e.left, e.comparators[0]

        def _len_arg(x):
            return x.args[0] if isinstance(x, ast.Call) and isinstance(x.func, ast.Name) and x.func.id == "len" and len(x.args) == 1 and not x.keywords else None

        def _int(x):
            return x.value if isinstance(x, ast.Constant) and isinstance(x.value, int) and not isinstance(x.value, bool) else None
        for a_, b_, o_ in ((l0, r0, type(op)), (r0, l0, {ast.Lt: ast.Gt, ast.Gt: ast.Lt, ast.LtE: ast.GtE, ast.GtE: ast.LtE}.get(type(op), type(op)))):
            la, cv = _len_arg(a_), _int(b_)
            if la is not None and cv is not None:
                empty = {(ast.Eq, 0): True, (ast.NotEq, 0): False, (ast.Gt, 0): False, (ast.GtE, 1): False, (ast.Lt, 1): True, (ast.LtE, 0): True}.get((o_, cv))
                if empty is not None:
                    return (Atom(("t", src(la))), (not truth) if empty else truth)
        if isinstance(op, (ast.Lt, ast.Gt, ast.LtE, ast.GtE, ast.Eq, ast.NotEq)):
            d = _difference(e.left, e.comparators[0])
            if d is not None:
                # l <op> r  ==  (l - r) <op> 0, with the difference in one orientation (len_str - pos < 2 and pos + 2 > len_str agree)
                text, sign = d
                zero = ast.Constant(value=0)
                P = ast.Name(id=text, ctx=ast.Load())
                if sign == 0:
                    val = {ast.Lt: False, ast.Gt: False, ast.LtE: True, ast.GtE: True, ast.Eq: True, ast.NotEq: False}[type(op)]
                    return (Atom(("t", "True")), truth if val else not truth)
                flip = {ast.Lt: ast.Gt, ast.Gt: ast.Lt, ast.LtE: ast.GtE, ast.GtE: ast.LtE, ast.Eq: ast.Eq, ast.NotEq: ast.NotEq}
                op2 = type(op) if sign > 0 else flip[type(op)]
                if op2 is ast.Lt:
                    return (Atom(("<", text, "0")), truth)
                if op2 is ast.Gt:
                    return (Atom(("<", "0", text)), truth)
                if op2 is ast.GtE:
                    return (Atom(("<", text, "0")), not truth)
                if op2 is ast.LtE:
                    return (Atom(("<", "0", text)), not truth)
                a_, b_ = sorted(["0", text])
                return (Atom(("==", a_, b_)), truth if op2 is ast.Eq else not truth)
        l, r = _operand_text(e.left), _operand_text(e.comparators[0])
        if isinstance(op, ast.IsNot):
            return (Atom(("is", l, r)), not truth)
        if isinstance(op, ast.Is):
            return (Atom(("is", l, r)), truth)
        if isinstance(op, (ast.NotEq, ast.Eq)):
            a, b = sorted([l, r])
            return (Atom(("==", a, b)), truth if isinstance(op, ast.Eq) else not truth)
        if isinstance(op, ast.NotIn):
            return (Atom(("in", l, r)), not truth)
        if isinstance(op, ast.In):
            return (Atom(("in", l, r)), truth)
        if isinstance(op, ast.Lt):
            return (Atom(("<", l, r)), truth)
        if isinstance(op, ast.Gt):
            return (Atom(("<", r, l)), truth)
        if isinstance(op, ast.GtE):
            return (Atom(("<", l, r)), not truth)
        if isinstance(op, ast.LtE):
            return (Atom(("<", r, l)), not truth)
    if isinstance(e, ast.Call) and isinstance(e.func, ast.Name) and e.func.id == "len" and len(e.args) == 1:
        return (Atom(("t", src(e.args[0]))), truth)      # truthiness of len(x) is truthiness of x for the containers used here
    if isinstance(e, ast.Call) and isinstance(e.func, ast.Name) and e.func.id == "bool" and len(e.args) == 1:
        return atom(e.args[0], truth)
    return (Atom(("t", src(e))), truth)


def _PlainCompare(left, op, right):
    """A comparison whose operands are already normalised (neither is arithmetic any more)."""
    return ast.Compare(left=left, ops=[op], comparators=[right])


def atom_of(text, truth=True):
    """Canonical atom from source text (for expected tables written in rules)."""
    return atom(ast.parse(text, mode="eval").body, truth)


def dnf(e, truth=True):
    """Disjoint cases [[(atom, truth), ...], ...] under which boolean expression `e` evaluates to `truth`
    (short-circuit order, so the cases are mutually exclusive)."""
    if isinstance(e, ast.UnaryOp) and isinstance(e.op, ast.Not):
        return dnf(e.operand, not truth)
    if isinstance(e, ast.BoolOp):
        is_and = isinstance(e.op, ast.And)
        vals = e.values
        # (a and b) true: a true, b true.  false: a false | a true, b false.     (or: dual)
        if is_and == truth:
            cases = [[]]
            for v in vals:
                cases = [c + d for c in cases for d in dnf(v, truth)]
            return cases
        out = []
        prefix = [[]]
        for v in vals:
            for c in prefix:
                for d in dnf(v, truth):
                    out.append(c + d)
            prefix = [c + d for c in prefix for d in dnf(v, not truth)]
        return out
    if isinstance(e, ast.Compare) and len(e.ops) > 1:
        # a < b < c  ==  a < b and b < c
        parts = []
        left = e.left
        for op, right in zip(e.ops, e.comparators):
            parts.append(ast.Compare(left=left, ops=[op], comparators=[right]))
            left = right
        return dnf(ast.BoolOp(op=ast.And(), values=parts), truth)
    if isinstance(e, ast.Constant):
        return [[]] if bool(e.value) == truth else []
    if isinstance(e, ast.Compare) and len(e.ops) == 1 and isinstance(e.left, ast.Constant) and isinstance(e.comparators[0], ast.Constant) \
            and isinstance(e.ops[0], (ast.Is, ast.IsNot, ast.Eq, ast.NotEq)):
        # two literals: `None is None`, `'text' is not None` are decided here (a flag substituted by its literal value)
        a_, b_ = e.left.value, e.comparators[0].value
        same = (a_ is b_) if (a_ is None or b_ is None or isinstance(a_, bool) or isinstance(b_, bool)) else (type(a_) is type(b_) and a_ == b_)
        val = same if isinstance(e.ops[0], (ast.Is, ast.Eq)) else not same
        return [[]] if val == truth else []
    if isinstance(e, (ast.Dict, ast.List, ast.Tuple, ast.Set)):
        n_ = len(e.keys) if isinstance(e, ast.Dict) else len(e.elts)
        return [[]] if bool(n_) == truth else []
    if isinstance(e, ast.IfExp):
        out = []
        for c in dnf(e.test, True):
            for d in dnf(e.body, truth):
                out.append(c + d)
        for c in dnf(e.test, False):
            for d in dnf(e.orelse, truth):
                out.append(c + d)
        return out
    return [[atom(e, truth)]]


import re as _re
_CONST_PLUS = _re.compile(r"^(-?\d+) \+ (.*)$")
# names that a rule declares integer-valued for the duration of one table comparison (see consistent())
INT_NAMES = set()


def consistent(conds):
    """No atom both true and false; for every operand pair at most one of a<b, b<a, a==b holds and not all three fail
    (the compared values are ints, datetimes, timedeltas or strings: totally ordered)."""
    seen = {}
    for a, t in conds:
        if a in seen and seen[a] != t:
            return False
        seen[a] = t
    pairs = {}
    for a, t in seen.items():
        if a[0] == "<":
            k = tuple(sorted([a[1], a[2]]))
            pairs.setdefault(k, {})["lt" if (a[1], a[2]) == k else "gt"] = t
        elif a[0] == "==":
            pairs.setdefault((a[1], a[2]), {})["eq"] = t
    for k, d in pairs.items():
        if sum(1 for v in d.values() if v) > 1:
            return False
        if len(d) == 3 and not any(d.values()):
            return False
    # a == b between two conditions whose own truth is known on this path
    for a, t in seen.items():
        if a[0] == "==":
            ta, tb = seen.get(Atom(("t", a[1]))), seen.get(Atom(("t", a[2])))
            if ta is not None and tb is not None and (ta == tb) != t:
                return False
    # K1 + X == 0 and K2 + X == 0 cannot both hold
    eqs = {}
    for a, t in seen.items():
        if t and a[0] == "==" and "0" in (a[1], a[2]):
            other = a[2] if a[1] == "0" else a[1]
            m = _CONST_PLUS.match(other)
            if m:
                eqs.setdefault(m.group(2), set()).add(int(m.group(1)))
    if any(len(v) > 1 for v in eqs.values()):
        return False
    # linear bounds: K1 + X < 0, 0 < K2 + X, K3 + X == 0 over the same linear form X leave X an empty range
    # (`year >= Y + 50` and `year < Y - 50` cannot both hold).  Over the reals; for forms made only of names listed in
    # INT_NAMES (set by a rule for integer-valued fields) a strict bound is tightened by one.
    bounds = {}
    for a, t in seen.items():
        form = None
        if a[0] == "<" and a[2] == "0":
            form, kind = a[1], ("lt" if t else "ge")        # A < 0  /  A >= 0
        elif a[0] == "<" and a[1] == "0":
            form, kind = a[2], ("gt" if t else "le")        # 0 < A  /  A <= 0
        elif a[0] == "==" and t and "0" in (a[1], a[2]):
            form, kind = (a[2] if a[1] == "0" else a[1]), "eq"
        if not isinstance(form, str):
            continue
        m = _CONST_PLUS.match(form)
        k, rest = (int(m.group(1)), m.group(2)) if m else (0, form)
        if not rest or _is_literal_text(rest):
            continue
        is_int = bool(INT_NAMES) and all(n_ in INT_NAMES for n_ in _re.findall(r"[A-Za-z_][A-Za-z_0-9.]*", rest))
        lo, hi = bounds.setdefault(rest, [None, None])      # each: (value, strict)
        v = -k

        def tighter_lo(new):
            cur = bounds[rest][0]
            if cur is None or new[0] > cur[0] or (new[0] == cur[0] and new[1] and not cur[1]):
                bounds[rest][0] = new

        def tighter_hi(new):
            cur = bounds[rest][1]
            if cur is None or new[0] < cur[0] or (new[0] == cur[0] and new[1] and not cur[1]):
                bounds[rest][1] = new
        if kind == "lt":
            tighter_hi((v - 1, False) if is_int else (v, True))
        elif kind == "ge":
            tighter_lo((v, False))
        elif kind == "gt":
            tighter_lo((v + 1, False) if is_int else (v, True))
        elif kind == "le":
            tighter_hi((v, False))
        else:
            tighter_lo((v, False))
            tighter_hi((v, False))
    for rest, (lo, hi) in bounds.items():
        if lo is not None and hi is not None and (lo[0] > hi[0] or (lo[0] == hi[0] and (lo[1] or hi[1]))):
            return False
    # X == 'a' and X == 'b' (two different literals) cannot both hold; X == 'a' decides X in ('a', 'b', ...)
    lits = {}
    for a, t in seen.items():
        if t and a[0] == "==":
            for x, k in ((a[1], a[2]), (a[2], a[1])):
                if _is_literal_text(k) and not _is_literal_text(x):
                    lits.setdefault(x, set()).add(k)
    if any(len(v) > 1 for v in lits.values()):
        return False
    for a, t in seen.items():
        if a[0] == "in" and t and len(a) > 2:
            members = _literal_members(a[2])
            # X in ('a', 'b') with X == 'a' and X == 'b' both known false
            if members and all(seen.get(Atom(("==",) + tuple(sorted([a[1], k])))) is False for k in members):
                return False
        if a[0] == "in" and a[1] in lits and len(a) > 2:
            members = _literal_members(a[2])
            if members is not None:
                k = next(iter(lits[a[1]]))
                if (k in members) != t:
                    return False
    return True


def _is_literal_text(x):
    if not isinstance(x, str):
        return False
    try:
        ast.literal_eval(x)
        return True
    except (ValueError, SyntaxError, MemoryError, RecursionError):
        return False


def _literal_members(x):
    """texts of the members of a literal tuple / list / set display given as text, else None"""
    if not isinstance(x, str):
        return None
    try:
        e = ast.parse(x, mode="eval").body
    except SyntaxError:
        return None
    if isinstance(e, (ast.Tuple, ast.List, ast.Set)) and all(isinstance(y, ast.Constant) for y in e.elts):
        return set(ast.unparse(y) for y in e.elts)
    return None


class Path(object):
    __slots__ = ("conds", "env", "effects", "result", "notes", "frozen")

    def __init__(self, conds=None, env=None, effects=None, result=None, notes=None, frozen=None):
        self.conds = conds or []
        self.env = env or {}
        self.effects = effects or []
        self.result = result
        self.notes = notes or []
        self.frozen = frozen or {}      # safe mode: heap-reading temporaries overtaken by a heap change (name -> expr)

    def fork(self):
        return Path(list(self.conds), dict(self.env), list(self.effects), self.result, list(self.notes), dict(self.frozen))

    def cond_key(self):
        return frozenset(self.conds)

    def stores(self, target):
        """Last value stored to `target` text on this path (None when never stored)."""
        v = None
        for k, t, e in self.effects:
            if k == "store" and t == target:
                v = e
        return v

    def calls(self, pred=None):
        return [e for k, t, e in self.effects if k == "call" and (pred is None or pred(e))]

    def __repr__(self):
        return "<path %s -> %s>" % (sorted(self.conds), self.result)


class _Sub(ast.NodeTransformer):
    def __init__(self, env):
        self.env = env

    def visit_Name(self, n):
        if isinstance(n.ctx, ast.Load) and n.id in self.env:
            return copy.deepcopy(self.env[n.id])
        return n

    def visit_Attribute(self, n):
        if isinstance(n.ctx, ast.Load):
            k = src(n)
            if k in self.env:
                return copy.deepcopy(self.env[k])
        self.generic_visit(n)
        return n

    def visit_Lambda(self, n):
        return n

    def _comp(self, n):
        # names bound by the comprehension shadow the environment (and are renamed canonically: they are not observable)
        from .nf import canon_bound
        n = canon_bound(n)
        bound = set()
        for g in n.generators:
            for x in ast.walk(g.target):
                if isinstance(x, ast.Name):
                    bound.add(x.id)
        saved = self.env
        self.env = dict((k, v) for k, v in saved.items() if k not in bound)
        self.generic_visit(n)
        self.env = saved
        return n
    visit_ListComp = visit_SetComp = visit_DictComp = visit_GeneratorExp = _comp


class _FoldDisplay(ast.NodeTransformer):
    """{'a': x}['a'] -> x ;  [p, q][1] -> q   (a display that was substituted for the name that owns it)"""

    def visit_Subscript(self, n):
        self.generic_visit(n)
        if isinstance(n.ctx, ast.Load) and isinstance(n.slice, ast.Constant):
            if isinstance(n.value, ast.Dict):
                for k, v in zip(n.value.keys, n.value.values):
                    if isinstance(k, ast.Constant) and k.value == n.slice.value:
                        return v
            if isinstance(n.value, (ast.List, ast.Tuple)) and isinstance(n.slice.value, int) and not isinstance(n.slice.value, bool) \
                    and -len(n.value.elts) <= n.slice.value < len(n.value.elts) and not any(isinstance(x, ast.Starred) for x in n.value.elts):
                return n.value.elts[n.slice.value]
        return n


class _DivmodNorm(ast.NodeTransformer):
    """divmod(a, b)[0] -> a // b ;  divmod(a, b)[1] -> a % b   (the definition of divmod for the numbers compared here)"""

    def visit_Subscript(self, n):
        self.generic_visit(n)
        v = n.value
        if isinstance(n.ctx, ast.Load) and isinstance(n.slice, ast.Constant) and n.slice.value in (0, 1) and not isinstance(n.slice.value, bool) \
                and isinstance(v, ast.Call) and isinstance(v.func, ast.Name) and v.func.id == "divmod" and len(v.args) == 2 and not v.keywords:
            return ast.copy_location(ast.BinOp(left=v.args[0], op=ast.FloorDiv() if n.slice.value == 0 else ast.Mod(), right=v.args[1]), n)
        return n


def subst(e, env):
    if e is None:
        return None
    r = _Sub(env).visit(copy.deepcopy(e))
    if any(isinstance(v, (ast.Dict, ast.List, ast.Tuple)) for v in env.values()):
        r = _FoldDisplay().visit(r)
    if any(isinstance(x, ast.Name) and x.id == "divmod" for x in ast.walk(r)):
        r = ast.fix_missing_locations(_DivmodNorm().visit(r))
    return r


BOOL_SHAPES = (ast.BoolOp, ast.Compare)
BOOL_CALLS = {"isinstance", "callable", "hasattr", "issubclass"}


def _is_boolish(e, bool_calls=()):
    if isinstance(e, BOOL_SHAPES):
        # `a or b` used as a value selector is not boolean; `x and y` of comparisons is
        if isinstance(e, ast.BoolOp):
            return all(_is_boolish(v, bool_calls) for v in e.values)
        return True
    if isinstance(e, ast.UnaryOp) and isinstance(e.op, ast.Not):
        return True
    if isinstance(e, ast.Constant) and isinstance(e.value, bool):
        return True
    if isinstance(e, ast.Call):
        f = e.func
        nm = f.id if isinstance(f, ast.Name) else (f.attr if isinstance(f, ast.Attribute) else None)
        return nm in BOOL_CALLS or nm in bool_calls
    return False


def _first_ifexp(e, bool_calls=()):
    """First conditional expression evaluated unconditionally inside `e` (not under another IfExp / lambda /
    comprehension).  int(<boolean>) / bool(<boolean>) count as conditionals (1 if b else 0)."""
    stack = [e]
    while stack:
        n = stack.pop(0)
        if isinstance(n, ast.IfExp):
            return n
        if isinstance(n, ast.Subscript) and isinstance(n.value, ast.Tuple) and len(n.value.elts) == 2 and _is_boolish(n.slice, bool_calls) \
                and not isinstance(n.slice, ast.Constant):
            return n        # (a, b)[cond]
        if isinstance(n, ast.Call) and isinstance(n.func, ast.Name) and n.func.id in ("int", "bool") and len(n.args) == 1 and not n.keywords \
                and _is_boolish(n.args[0], bool_calls) and not isinstance(n.args[0], ast.Constant):
            return n
        if isinstance(n, (ast.Lambda, ast.ListComp, ast.SetComp, ast.DictComp, ast.GeneratorExp)):
            continue
        if isinstance(n, ast.BoolOp):
            stack.insert(0, n.values[0])
            continue
        stack = list(ast.iter_child_nodes(n)) + stack
    return None


class _IntBool(ast.NodeTransformer):
    """int(A and Y) with boolean A  ->  int(Y) if A else 0   (dually for `or`; same for bool())."""

    def __init__(self, bool_calls):
        self.bool_calls = bool_calls

    def visit_Call(self, n):
        self.generic_visit(n)
        if isinstance(n.func, ast.Name) and n.func.id in ("int", "bool") and len(n.args) == 1 and not n.keywords \
                and isinstance(n.args[0], ast.BoolOp) and len(n.args[0].values) >= 2 and _is_boolish(n.args[0].values[0], self.bool_calls) \
                and not _is_boolish(n.args[0], self.bool_calls):
            b = n.args[0]
            rest = b.values[1] if len(b.values) == 2 else ast.BoolOp(op=b.op, values=b.values[1:])
            inner = self.visit_Call(ast.Call(func=n.func, args=[rest], keywords=[]))
            is_and = isinstance(b.op, ast.And)
            short = ast.Constant(value=(0 if is_and else 1) if n.func.id == "int" else (not is_and))
            return ast.IfExp(test=b.values[0], body=inner if is_and else short, orelse=short if is_and else inner)
        return n

    def visit_Lambda(self, n):
        return n


def _replace(e, old, new):
    class R(ast.NodeTransformer):
        def visit(self, n):
            if n is old:
                return new
            return self.generic_visit(n)
    return R().visit(e)


class Summariser(object):
    """paths = Summariser(stmts, track_attrs=True).run()"""

    def __init__(self, stmts, qualname="", loops="opaque", track_attrs=True, try_handlers=True, bool_calls=(), safe=False, final_names=(), max_paths=MAX_PATHS):
        self.max_paths = max_paths
        # safe=True is the mode of the equivalence prover (sa/equiv.py): a temporary that reads the heap (attribute,
        # item, call result) stands for its defining expression only until the next effect that can change the
        # heap; then it becomes an opaque let-bound symbol.  Structure that matters to exceptional control flow
        # (with / try / finally boundaries) is recorded as marker effects, nested definitions as their text.
        self.safe = safe
        self.final_names = list(final_names)
        if safe:
            track_attrs = False
        self.bool_calls = set(bool_calls)
        self.stmts = stmts
        self.qualname = qualname
        self.loops = loops
        self.track_attrs = track_attrs
        self.try_handlers = try_handlers
        self.done = []
        # ordinals (textual order) name try statements and loops in atoms, so that line numbers do not matter
        self.ordinal = {}
        k = {"try": 0, "loop": 0}
        for n in _walk_in_order(stmts):
            if isinstance(n, ast.Try) or type(n).__name__ == "TryStar":
                k["try"] += 1
                self.ordinal[id(n)] = k["try"]
            elif isinstance(n, (ast.For, ast.AsyncFor, ast.While)):
                k["loop"] += 1
                self.ordinal[id(n)] = k["loop"]

    def run(self):
        live = self.block(self.stmts, [Path()])
        for p in live:
            p.result = ("fall", None)
            self.done.append(p)
        if self.final_names:
            for p in self.done:
                if p.result and p.result[0] in ("fall", "jump"):
                    for nm in self.final_names:
                        if nm in p.frozen:
                            p.effects.append(("let", nm, p.frozen.pop(nm)))
                        v = p.env.get(nm)
                        p.effects.append(("final", nm, v if v is not None else ast.Name(id=nm, ctx=ast.Load())))
        return [p for p in self.done if consistent(p.conds)]

    # -------------------------------------------------------------- expressions
    def sub(self, p, e):
        """`e` with the path's temporaries replaced by their defining expressions; a frozen temporary that is read
        here is declared (once) by a let effect."""
        if e is None:
            return None
        r = subst(e, p.env)
        if p.frozen:
            for x in ast.walk(r):
                if isinstance(x, ast.Name) and isinstance(x.ctx, ast.Load) and x.id in p.frozen:
                    p.effects.append(("let", x.id, p.frozen.pop(x.id)))
        return r

    def split(self, p, e):
        """[(path, expr)] with every unconditionally evaluated conditional of `e` resolved by forking.  Conditionals are
        resolved on the expression as written, temporaries are substituted afterwards - so that whether a path's
        evaluation can change the heap is judged on what that path really evaluates."""
        e = _IntBool(self.bool_calls).visit(copy.deepcopy(e))
        out = []
        work = [(p, e)]
        while work:
            q, x = work.pop()
            ie = _first_ifexp(x, self.bool_calls)
            if ie is None:
                changes = self.safe and self.may_change_heap(x)
                r = self.sub(q, x)
                if changes:
                    self.bump(q)        # temporaries were read before the evaluation changed anything
                    self.forget_mutated(q, x, resolved=True)
                out.append((q, r))
                continue
            is_conv = isinstance(ie, ast.Call)
            is_tab = isinstance(ie, ast.Subscript)
            test = ie.args[0] if is_conv else (ie.slice if is_tab else ie.test)
            impure = self.impure_atoms(test, q) if self.safe else ()
            stest = self.sub(q, test)
            for truth in (True, False):
                for case in dnf(stest, truth):
                    q2 = q.fork()
                    q2.conds.extend(case)
                    if not consistent(q2.conds):
                        continue
                    if impure and any(a in impure for a, _ in case):
                        self.bump(q2)
                    x2 = copy.deepcopy(x)
                    # locate the same conditional in the copy by position
                    ie2 = _first_ifexp(x2, self.bool_calls)
                    if is_conv:
                        b2 = ast.Constant(value=(1 if truth else 0) if ie.func.id == "int" else truth)
                    elif is_tab:
                        b2 = ie2.value.elts[1 if truth else 0]
                    else:
                        b2 = ie2.body if truth else ie2.orelse
                    x2 = b2 if ie2 is x2 else _replace(x2, ie2, b2)
                    work.append((q2, x2))
            if len(out) + len(work) > self.max_paths:
                raise Unsupported("too many paths")
        return out

    # --------------------------------------------------------------- statements
    def block(self, stmts, paths):
        for st in stmts:
            if not paths:
                break
            nxt = []
            for p in paths:
                nxt.extend(self.stmt(st, p))
            paths = nxt
            if len(paths) + len(self.done) > self.max_paths:
                raise Unsupported("too many paths")
        return paths

    def kill(self, p, names):
        for nm in names:
            p.env.pop(nm, None)
            p.frozen.pop(nm, None)
            for k in list(p.env):
                if k.startswith(nm + "."):
                    p.env.pop(k, None)
        # values that mention a killed name are frozen copies: they stay valid (they were substituted at definition time)

    def assign(self, p, target, value, at):
        if isinstance(target, ast.Name):
            # earlier bindings that mention this name keep their (already substituted) value
            if self.safe and self.has_identity(value):
                p.effects.append(("let", target.id, value))
                p.env.pop(target.id, None)
                return
            p.env[target.id] = value
            p.frozen.pop(target.id, None)
            for k in list(p.env):
                if k.startswith(target.id + "."):
                    p.env.pop(k, None)
        elif isinstance(target, (ast.Tuple, ast.List)):
            if isinstance(value, (ast.Tuple, ast.List)) and len(value.elts) == len(target.elts):
                for t, v in zip(target.elts, value.elts):
                    self.assign(p, t, v, at)
            else:
                for i, t in enumerate(target.elts):
                    self.assign(p, t, ast.Subscript(value=value, slice=ast.Constant(value=i), ctx=ast.Load()), at)
        elif isinstance(target, ast.Attribute):
            t = src(subst_target(target, p.env))
            p.effects.append(("store", t, value))
            self.bump(p)
            if self.track_attrs:
                p.env[t] = value
        elif isinstance(target, ast.Subscript):
            t = src(subst_target(target, p.env))
            p.effects.append(("store", t, value))
            self.bump(p)
            b = target.value
            # a dict display still owned by this name: the item is set in the display
            if not self.safe and isinstance(b, ast.Name) and isinstance(p.env.get(b.id), ast.Dict):
                key = subst(target.slice, p.env)
                if isinstance(key, ast.Constant):
                    new = copy.deepcopy(p.env[b.id])
                    for i_, k_ in enumerate(new.keys):
                        if isinstance(k_, ast.Constant) and k_.value == key.value:
                            new.values[i_] = value
                            break
                    else:
                        new.keys.append(key)
                        new.values.append(value)
                    p.env[b.id] = new
                    return
            # a list display still owned by this name: the element is replaced in the display
            if not self.safe and isinstance(b, ast.Name) and isinstance(p.env.get(b.id), ast.List):
                idx = subst(target.slice, p.env)
                if isinstance(idx, ast.UnaryOp) and isinstance(idx.op, ast.USub) and isinstance(idx.operand, ast.Constant):
                    idx = ast.Constant(value=-idx.operand.value)
                lst = p.env[b.id]
                if isinstance(idx, ast.Constant) and isinstance(idx.value, int) and -len(lst.elts) <= idx.value < len(lst.elts):
                    new = copy.deepcopy(lst)
                    new.elts[idx.value] = value
                    p.env[b.id] = new
                    return
            # the container is no longer what it was bound to
            if isinstance(b, ast.Name):
                v = p.env.pop(b.id, None)
                if self.safe and v is not None:
                    p.frozen[b.id] = v
            elif isinstance(b, ast.Attribute):
                p.env.pop(src(b), None)
        elif isinstance(target, ast.Starred):
            self.assign(p, target.value, value, at)

    def note_calls(self, p, e):
        for x in ast.walk(e):
            if isinstance(x, ast.Call):
                p.effects.append(("call", src(x.func), x))
                # a call may change attributes of its receiver / arguments: forget tracked attribute values of those objects
                f = x.func
                from .cfg import NONMUTATING_METHODS, PURE_CALLS
                if isinstance(f, ast.Name) and f.id in PURE_CALLS:
                    continue
                if isinstance(f, ast.Attribute) and f.attr in NONMUTATING_METHODS:
                    continue
                objs = []
                if isinstance(f, ast.Attribute):
                    objs.append(src(f.value))
                for a in list(x.args) + [k.value for k in x.keywords]:
                    if isinstance(a, (ast.Name, ast.Attribute)):
                        objs.append(src(a))
                for o in objs:
                    for k in list(p.env):
                        if k.startswith(o + ".") and "." in k:
                            p.env.pop(k, None)

    @staticmethod
    def reads_heap(e):
        for x in ast.walk(e):
            if isinstance(x, (ast.Attribute, ast.Subscript, ast.Call, ast.Starred, ast.ListComp, ast.SetComp, ast.DictComp, ast.GeneratorExp,
                              ast.Lambda, ast.Yield, ast.YieldFrom, ast.Await, ast.List, ast.Dict, ast.Set, ast.JoinedStr)):
                return True
        return False

    @staticmethod
    def has_identity(e):
        return isinstance(e, (ast.List, ast.Dict, ast.Set, ast.ListComp, ast.SetComp, ast.DictComp, ast.GeneratorExp, ast.Lambda))

    def may_change_heap(self, node):
        """Evaluating this (unsubstituted) statement / expression can change the heap."""
        from .cfg import NONMUTATING_METHODS, PURE_CALLS
        for x in ast.walk(node):
            if isinstance(x, ast.Call):
                f = x.func
                if isinstance(f, ast.Name) and (f.id in PURE_CALLS or f.id in ("enumerate", "zip", "reversed", "set", "frozenset", "dict", "any", "all", "sum",
                                                                              "hasattr", "type", "repr", "ord", "chr", "text_type")):
                    continue
                if isinstance(f, ast.Attribute) and f.attr in NONMUTATING_METHODS:
                    continue
                return True
            if isinstance(x, (ast.Attribute, ast.Subscript)) and isinstance(x.ctx, (ast.Store, ast.Del)):
                return True
            if isinstance(x, (ast.Yield, ast.YieldFrom, ast.Await)):
                return True
        return False

    def impure_atoms(self, test, p):
        """Atoms (after substitution) of the operands of `test` whose own evaluation may change the heap - judged on
        the operand as written: a temporary standing for a call does not call again."""
        out = set()

        def rec(e):
            if isinstance(e, ast.UnaryOp) and isinstance(e.op, ast.Not):
                return rec(e.operand)
            if isinstance(e, ast.BoolOp):
                for v in e.values:
                    rec(v)
                return
            if isinstance(e, ast.Compare) and len(e.ops) > 1:
                left = e.left
                for op, right in zip(e.ops, e.comparators):
                    rec(ast.Compare(left=left, ops=[op], comparators=[right]))
                    left = right
                return
            if isinstance(e, ast.IfExp):
                rec(e.test)
                rec(e.body)
                rec(e.orelse)
                return
            if self.may_change_heap(e):
                out.add(atom(subst(e, p.env))[0])
        rec(test)
        return out

    def bump(self, p):
        """A heap-changing effect happened: heap-reading temporaries become opaque symbols (recorded as let effects)."""
        if not self.safe:
            return
        for nm in sorted(p.env):
            v = p.env[nm]
            if self.reads_heap(v):
                p.frozen[nm] = v        # becomes a let effect if (and where) it is used again
                del p.env[nm]

    def forget_mutated(self, p, node, resolved=False):
        """Locals bound to a container that `node` may mutate (method call on it, passed to a call, item store)
        stop standing for their defining expression.  In safe mode this is done per path on the expression that path
        really evaluates (split), and the binding is frozen (declared by a let when read again), not dropped."""
        if self.safe and not resolved:
            return
        from .cfg import NONMUTATING_METHODS, PURE_CALLS
        for x in ast.walk(node):
            if isinstance(x, ast.Call):
                f = x.func
                if isinstance(f, ast.Name) and (f.id in PURE_CALLS or f.id in ("enumerate", "zip", "reversed", "set", "frozenset", "dict", "any", "all", "sum")):
                    continue
                names = []
                if isinstance(f, ast.Attribute):
                    if f.attr in NONMUTATING_METHODS:
                        continue
                    if not self.safe and f.attr == "update" and isinstance(f.value, ast.Name) and isinstance(p.env.get(f.value.id), ast.Dict) \
                            and not x.args and all(k_.arg is not None for k_ in x.keywords):
                        continue        # items were set in the owned display (see _stmt)
                    if isinstance(f.value, ast.Name):
                        names.append(f.value.id)
                for a in list(x.args) + [k.value for k in x.keywords]:
                    if isinstance(a, ast.Name):
                        names.append(a.id)
                    elif isinstance(a, ast.Starred) and isinstance(a.value, ast.Name):
                        names.append(a.value.id)
                for nm in names:
                    v = p.env.get(nm)
                    if v is not None and not isinstance(v, (ast.Constant, ast.Name, ast.Attribute)):
                        p.env.pop(nm, None)
                        if self.safe:
                            p.frozen[nm] = v
            elif isinstance(x, ast.Subscript) and isinstance(x.ctx, (ast.Store, ast.Del)) and isinstance(x.value, ast.Name):
                if not self.safe and isinstance(x.ctx, ast.Store) and isinstance(p.env.get(x.value.id), (ast.List, ast.Dict)):
                    continue        # element replaced in the owned display (assign)
                v = p.env.pop(x.value.id, None)
                if self.safe and v is not None:
                    p.frozen[x.value.id] = v

    def stmt(self, st, p):
        check_deadline()
        if not isinstance(st, (ast.If, ast.For, ast.While, ast.Try, ast.With, ast.FunctionDef, ast.ClassDef, ast.AsyncFunctionDef)):
            out = self._stmt(st, p)
            for q in out:
                self.forget_mutated(q, st)
            return out
        if isinstance(st, ast.If):
            self.forget_mutated(p, st.test)
        return self._stmt(st, p)

    def _stmt(self, st, p):
        if isinstance(st, (ast.Pass, ast.Global, ast.Nonlocal, ast.FunctionDef, ast.AsyncFunctionDef, ast.ClassDef, ast.Import, ast.ImportFrom)):
            if isinstance(st, (ast.Import, ast.ImportFrom)):
                self.kill(p, [(a.asname or a.name).split(".")[0] for a in st.names])
                if self.safe:
                    p.effects.append(("import", src(st), st))
                    self.bump(p)
            elif self.safe and not isinstance(st, ast.Pass):
                # nested definitions are compared as text; global declarations as they are
                p.effects.append(("decl", src(st), st))
                if isinstance(st, (ast.FunctionDef, ast.AsyncFunctionDef, ast.ClassDef)):
                    self.kill(p, [st.name])
            return [p]
        if isinstance(st, ast.Expr):
            if isinstance(st.value, ast.Constant):
                return [p]
            c_ = st.value
            if not self.safe and isinstance(c_, ast.Call) and isinstance(c_.func, ast.Attribute) and c_.func.attr == "update" and isinstance(c_.func.value, ast.Name) \
                    and isinstance(p.env.get(c_.func.value.id), ast.Dict) and not c_.args and all(k_.arg is not None for k_ in c_.keywords) \
                    and not any(_first_ifexp(k_.value, self.bool_calls) is not None for k_ in c_.keywords):
                # d.update(k=v, ...) on a dict display owned by d: the items are set in the display
                for k_ in c_.keywords:
                    self.assign(p, ast.Subscript(value=ast.Name(id=c_.func.value.id, ctx=ast.Load()), slice=ast.Constant(value=k_.arg), ctx=ast.Store()),
                                self.sub(p, k_.value), st)
                return [p]
            out = []
            for q, e in self.split(p, st.value):
                self.note_calls(q, e)
                q.effects.append(("expr", src(e), e))
                out.append(q)
            return out
        if isinstance(st, ast.Assign):
            out = []
            for q, e in self.split(p, st.value):
                self.note_calls(q, e)
                for t in st.targets:
                    self.assign(q, t, e, st)
                out.append(q)
            return out
        if isinstance(st, ast.AnnAssign):
            if st.value is None:
                return [p]
            out = []
            for q, e in self.split(p, st.value):
                self.note_calls(q, e)
                self.assign(q, st.target, e, st)
                out.append(q)
            return out
        if isinstance(st, ast.AugAssign):
            out = []
            for q, e in self.split(p, st.value):
                self.note_calls(q, e)
                cur = self.sub(q, ast.copy_location(_load(st.target), st))
                val = ast.BinOp(left=cur, op=st.op, right=e)
                self.assign(q, st.target, val, st)
                out.append(q)
            return out
        if isinstance(st, ast.Return):
            if st.value is None:
                p.result = ("return", ast.Constant(value=None))
                self.done.append(p)
                return []
            for q, e in self.split(p, st.value):
                self.note_calls(q, e)
                q.result = ("return", e)
                self.done.append(q)
            return []
        if isinstance(st, ast.Raise):
            e = self.sub(p, st.exc) if st.exc is not None else None
            p.result = ("raise", e)
            self.done.append(p)
            return []
        if isinstance(st, ast.If):
            out = []
            impure = self.impure_atoms(st.test, p) if self.safe else ()
            test = self.sub(p, st.test)
            self.note_calls(p, test)
            for truth, body in ((True, st.body), (False, st.orelse)):
                for case in dnf(test, truth):
                    q = p.fork()
                    q.conds.extend(case)
                    if not consistent(q.conds):
                        continue
                    if impure and any(a in impure for a, _ in case):
                        self.bump(q)        # only the operands this case evaluated can have changed anything
                    out.extend(self.block(body, [q]))
            return out
        if isinstance(st, ast.Assert):
            out = []
            atest = self.sub(p, st.test)
            for case in dnf(atest, True):
                q = p.fork()
                q.conds.extend(case)
                if consistent(q.conds):
                    out.append(q)
            for case in dnf(atest, False):
                q = p.fork()
                q.conds.extend(case)
                if consistent(q.conds):
                    q.result = ("raise", ast.Name(id="AssertionError", ctx=ast.Load()))
                    self.done.append(q)
            return out
        if isinstance(st, (ast.With, ast.AsyncWith)):
            for it in st.items:
                e = self.sub(p, it.context_expr)
                self.note_calls(p, e)
                p.effects.append(("with", src(e), e))
                self.bump(p)
                if it.optional_vars is not None:
                    self.assign(p, it.optional_vars, ast.Call(func=ast.Attribute(value=e, attr="__enter__", ctx=ast.Load()), args=[], keywords=[]), st)
            if not self.safe:
                return self.block(st.body, [p])
            # the extent of the block matters (what runs under the context manager): mark its end on every way out
            saved = self.done
            self.done = []
            out = self.block(st.body, [p])
            inner = self.done
            self.done = saved
            for q in out + inner:
                q.effects.append(("endwith", "", st))
                self.bump(q)
            self.done.extend(inner)
            return out
        if isinstance(st, ast.Try) or type(st).__name__ == "TryStar":
            out = []
            entry = p.fork()
            k = self.ordinal.get(id(st), 0)
            if self.try_handlers and st.handlers:
                p.conds.append((Atom(("t", "try#%d raises" % k)), False))
            if self.safe:
                # what is inside the protected region matters: mark its extent
                p.effects.append(("try", "#%d %s" % (k, "; ".join(src(h.type) if h.type is not None else "*" for h in st.handlers)), st))
                saved_t = self.done
                self.done = []
            body_paths = self.block(st.body, [p])
            if self.safe:
                inner_t = self.done
                self.done = saved_t
                for q in body_paths + inner_t:
                    q.effects.append(("endtry", "#%d" % k, st))
                if st.finalbody:
                    # early exits run the finally block too
                    for q in inner_t:
                        res = q.result
                        q.result = None
                        for q2 in self.block(st.finalbody, [q]):
                            q2.result = res
                            self.done.append(q2)
                else:
                    self.done.extend(inner_t)
            if st.orelse:
                body_paths = self.block(st.orelse, body_paths)
            out.extend(body_paths)
            if self.try_handlers:
                earlier = []
                for h in st.handlers:
                    q = entry.fork()
                    tname = src(h.type) if h.type is not None else "BaseException"
                    q.conds.append((Atom(("t", "try#%d raises" % k)), True))
                    for e_ in earlier:
                        q.conds.append((Atom(("t", "try#%d raises %s" % (k, e_))), False))
                    q.conds.append((Atom(("t", "try#%d raises %s" % (k, tname))), True))
                    earlier.append(tname)
                    # anything the body assigns is unknown in the handler
                    self.kill(q, _assigned(st.body))
                    if h.name:
                        self.kill(q, [h.name])
                    if self.safe:
                        q.effects.append(("except", "#%d %s" % (k, tname), h))
                        self.bump(q)
                    out.extend(self.block(h.body, [q]))
            if st.finalbody:
                if self.safe:
                    for q in out:
                        q.effects.append(("finally", "#%d" % k, st))
                out = self.block(st.finalbody, out)
            return out
        if isinstance(st, (ast.For, ast.AsyncFor, ast.While)):
            if self.loops == "reject":
                raise Unsupported("loop at line %d" % st.lineno)
            # loops are numbered in the order the path meets them (not by their place in the text): swapping the branches
            # of an if that holds two alternative loops does not rename their symbols
            k = 1 + sum(1 for e_ in p.effects if e_[0] == "loop")
            is_while = isinstance(st, ast.While)
            head = self.sub(p, st.test if is_while else st.iter)
            self.note_calls(p, head)
            self.bump(p)        # iterations interleave with everything the body does
            names = sorted(_assigned([st]))
            self.forget_mutated(p, st)
            self.kill(p, names)
            for nm in names:
                p.env[nm] = ast.Name(id="%s@loop%d" % (nm, k), ctx=ast.Load())
            if self.loops != "body":
                # opaque: the loop's assigned names become unknown; a return inside the loop is recorded as a possible result
                p.effects.append(("loop", src(head), st))
                for x in _walk_stmts([st]):
                    if isinstance(x, ast.Return):
                        q = p.fork()
                        q.conds.append((Atom(("t", "returns inside loop#%d" % k)), True))
                        q.result = ("return", self.sub(q, x.value) if x.value is not None else ast.Constant(value=None))
                        self.done.append(q)
                        break
                return [p]
            # one symbolic iteration of the body: loop-carried names are the symbols name@loopK
            if is_while:
                head_txt = "while " + src(self.sub(p, st.test))
            else:
                head_txt = "for %s in %s" % (src(self.sub(p, _load(st.target))), src(head))
            p.effects.append(("loop", head_txt, st))
            if not is_while and not self.safe and isinstance(st.iter, ast.Call) and isinstance(st.iter.func, ast.Name) and not st.iter.keywords:
                # positional loops: the element of enumerate(Y) / zip(X, Y) at position $i is Y[$i] (the zipped sequences are
                # read as equally long), so `for i, y in enumerate(Y): ... X[i]` and `for x, y in zip(X, Y)` read the same
                fn_ = st.iter.func.id
                ix = ast.Name(id="$i%d" % k, ctx=ast.Load())
                args_ = [subst(a_, dict((kk, vv) for kk, vv in p.env.items() if "@loop" not in src(vv))) for a_ in st.iter.args]
                if fn_ == "enumerate" and len(args_) == 1 and isinstance(st.target, ast.Tuple) and len(st.target.elts) == 2:
                    self.assign(p, st.target.elts[0], ix, st)
                    self.assign(p, st.target.elts[1], ast.Subscript(value=args_[0], slice=ix, ctx=ast.Load()), st)
                elif fn_ == "zip" and isinstance(st.target, ast.Tuple) and len(st.target.elts) == len(args_):
                    for t_, a_ in zip(st.target.elts, args_):
                        self.assign(p, t_, ast.Subscript(value=a_, slice=ix, ctx=ast.Load()), st)
                elif fn_ == "range" and isinstance(st.target, ast.Name) and len(args_) == 1:
                    self.assign(p, st.target, ix, st)
                if fn_ in ("enumerate", "zip", "range"):
                    p.conds.append(atom(ast.Compare(left=ix, ops=[ast.Lt()], comparators=[ast.Constant(value=0)]), False))
            if not is_while and isinstance(st.iter, ast.Call) and isinstance(st.iter.func, ast.Name) and st.iter.func.id == "enumerate" \
                    and len(st.iter.args) == 1 and not st.iter.keywords and isinstance(st.target, ast.Tuple) and isinstance(st.target.elts[0], ast.Name):
                # the index of enumerate() is a non-negative int
                p.conds.append(atom(ast.Compare(left=ast.Name(id="%s@loop%d" % (st.target.elts[0].id, k), ctx=ast.Load()), ops=[ast.Lt()], comparators=[ast.Constant(value=0)]), False))
            zero = p.fork()
            zero.conds.append((Atom(("t", "loop#%d iterates" % k)), False))
            p.conds.append((Atom(("t", "loop#%d iterates" % k)), True))
            saved = self.done
            self.done = []
            body_out = self.block(st.body, [p])
            inner = self.done
            self.done = saved
            after = list(body_out)
            broke = []
            for q in inner:
                if q.result and q.result[0] == "jump":
                    q.effects.append(("jump", src(q.result[1]), q.result[1]))
                    (broke if src(q.result[1]) == "break" else after).append(q)
                    q.result = None
                else:
                    self.done.append(q)
            if True:
                from .nf import NF as _NF
                for q in after + broke:
                    for nm in names:
                        if not self.safe and not _NF._first_use_is_load(st, nm):
                            continue        # redefined before it is read in the next iteration: not carried
                        if nm in q.frozen:
                            q.effects.append(("carry", nm, q.frozen.pop(nm)))
                            continue
                        v = q.env.get(nm)
                        if v is not None and not (isinstance(v, ast.Name) and v.id == "%s@loop%d" % (nm, k)):
                            q.effects.append(("carry", nm, v))
            after.append(zero)
            for q in after + broke:
                q.effects.append(("endloop", "#%d" % k, st))
                if q in broke and not self.safe:
                    # a path that leaves the loop by `break` in this iteration leaves it with this iteration's values
                    continue
                self.kill(q, names)
                for nm in names:
                    q.env[nm] = ast.Name(id="%s@loop%d" % (nm, k), ctx=ast.Load())
            if st.orelse:
                after = self.block(st.orelse, after)
            return after + broke
        if isinstance(st, ast.Delete):
            for t in st.targets:
                p.effects.append(("del", src(subst_target(t, p.env)), t))
                self.bump(p)
                if isinstance(t, ast.Name):
                    self.kill(p, [t.id])
            return [p]
        if isinstance(st, (ast.Break, ast.Continue)):
            p.result = ("jump", ast.Name(id=type(st).__name__.lower(), ctx=ast.Load()))
            self.done.append(p)
            return []
        raise Unsupported("statement %s" % type(st).__name__)


def _parses(a):
    try:
        ast.parse(a, mode="eval")
        return True
    except SyntaxError:
        return False


def _load(t):
    t = copy.deepcopy(t)
    for x in ast.walk(t):
        if hasattr(x, "ctx"):
            x.ctx = ast.Load()
    return t


def subst_target(t, env):
    """Substitute inside a store target's sub-expressions (not the stored name itself)."""
    t = copy.deepcopy(t)
    if isinstance(t, ast.Attribute):
        t.value = subst(t.value, dict((k, v) for k, v in env.items() if isinstance(v, (ast.Name, ast.Attribute))))
    elif isinstance(t, ast.Subscript):
        t.value = subst(t.value, dict((k, v) for k, v in env.items() if isinstance(v, (ast.Name, ast.Attribute))))
        t.slice = subst(t.slice, env)
    return t


def _walk_stmts(stmts):
    stack = list(stmts)
    while stack:
        n = stack.pop()
        yield n
        if isinstance(n, (ast.FunctionDef, ast.AsyncFunctionDef, ast.ClassDef, ast.Lambda)):
            continue
        stack.extend(ast.iter_child_nodes(n))


def _walk_in_order(stmts):
    for st in stmts:
        yield st
        if isinstance(st, (ast.FunctionDef, ast.AsyncFunctionDef, ast.ClassDef)):
            continue
        for fld in ("body", "handlers", "orelse", "finalbody"):
            sub = getattr(st, fld, None)
            if isinstance(sub, list):
                for h in sub:
                    if isinstance(h, ast.ExceptHandler):
                        for x in _walk_in_order(h.body):
                            yield x
                    else:
                        for x in _walk_in_order([h]):
                            yield x


def _assigned(stmts):
    out = set()
    for n in _walk_stmts(stmts):
        if isinstance(n, ast.Name) and isinstance(n.ctx, (ast.Store, ast.Del)):
            out.add(n.id)
        if isinstance(n, ast.ExceptHandler) and n.name:
            out.add(n.name)
    return out


# ------------------------------------------------------------------- public API
def paths_of(func_or_stmts, qualname="", **kw):
    """Paths of a FuncInfo, FunctionDef or statement list."""
    node = getattr(func_or_stmts, "node", func_or_stmts)
    if isinstance(node, (ast.FunctionDef, ast.AsyncFunctionDef)):
        stmts = node.body
        qualname = qualname or getattr(func_or_stmts, "qualname", node.name)
    elif isinstance(node, ast.Lambda):
        stmts = [ast.Return(value=node.body)]
    else:
        stmts = list(node)
    try:
        return Summariser(stmts, qualname, **kw).run()
    except Unsupported as e:
        raise AnalysisError("E11", qualname, "guarded normal form not computable: %s" % e)


def paths_of_source(text, **kw):
    """Paths of a reference snippet (a def or a statement list given as source text)."""
    tree = ast.parse(text)
    body = tree.body
    if len(body) == 1 and isinstance(body[0], ast.FunctionDef):
        body = body[0].body
    return Summariser(body, "<reference>", **kw).run()


def boolify(paths, bool_calls=()):
    """Paths that return a boolean-shaped expression are split into paths returning True / False."""
    out = []
    for p in paths:
        if p.result and p.result[0] == "return" and _is_boolish(p.result[1], bool_calls) and not isinstance(p.result[1], ast.Constant):
            for truth in (True, False):
                for case in dnf(p.result[1], truth):
                    q = p.fork()
                    q.conds.extend(case)
                    if consistent(q.conds):
                        q.result = ("return", ast.Constant(value=truth))
                        out.append(q)
        else:
            out.append(p)
    return out


def simplify(e):
    """x - 0, x + 0, 0 + x -> x (after int(<boolean>) has been resolved)."""
    class S(ast.NodeTransformer):
        def visit_BinOp(self, n):
            self.generic_visit(n)
            if isinstance(n.op, ast.Add) and isinstance(n.left, ast.Constant) and isinstance(n.right, ast.Constant) \
                    and isinstance(n.left.value, str) and isinstance(n.right.value, str):
                return ast.copy_location(ast.Constant(value=n.left.value + n.right.value), n)
            if isinstance(n.op, (ast.Add, ast.Sub)) and isinstance(n.right, ast.Constant) and n.right.value == 0 and not isinstance(n.right.value, bool):
                return n.left
            if isinstance(n.op, ast.Add) and isinstance(n.left, ast.Constant) and n.left.value == 0 and not isinstance(n.left.value, bool):
                return n.right
            return n
    return S().visit(copy.deepcopy(e))


def table(paths, outcome):
    """[(frozenset(conds), outcome_text)]; an outcome of None is kept as the text 'nothing' so that the table stays total."""
    out = []
    for p in paths:
        o = outcome(p)
        out.append((frozenset(p.conds), "nothing" if o is None else o))
    return out


def expected(rows):
    """Expected (possibly partial) table from [({atom_text: truth, ...}, outcome_text)]."""
    out = []
    for conds, o in rows:
        out.append((frozenset(atom_of(a, t) for a, t in conds.items()), o))
    return out


def lookup(tab, asg):
    """Outcomes selected by total assignment `asg` ({atom: truth})."""
    res = set()
    for conds, o in tab:
        if all(asg.get(a) == t for a, t in conds):
            res.add(o)
    return res


def _feasible(asg):
    return consistent(list(asg.items()))


def _show(conds):
    return ", ".join("%s%s" % ("" if v else "not ", a) for a, v in sorted(conds, key=lambda c: str(c[0])))


def compare(tab_a, tab_b, partial=False, max_atoms=14):
    """(same, detail).  Both tables are functions from truth assignments of the atoms to outcomes.
    Total tables (every assignment selects exactly one row - what the summariser produces) are compared row against
    row: two rows that can hold together must give the same outcome.  With partial=True (hand-written expected rows)
    the assignments are enumerated and `tab_a` must give the expected outcome wherever `tab_b` gives one."""
    if not partial:
        for ca, oa in tab_a:
            check_deadline()
            for cb, ob in tab_b:
                if oa != ob and consistent(list(ca) + list(cb)):
                    return False, "when [%s]: %s   - expected: %s" % (_show(set(ca) | set(cb)), oa, ob)
        return True, ""
    atoms = sorted(set(a for conds, _ in tab_a + tab_b for a, _ in conds), key=str)
    if len(atoms) > max_atoms:
        raise AnalysisError("E11", "compare", "too many atoms (%d) for a partial table" % len(atoms))
    for vals in itertools.product([True, False], repeat=len(atoms)):
        asg = dict(zip(atoms, vals))
        if not _feasible(asg):
            continue
        rb = lookup(tab_b, asg)
        if not rb:
            continue
        ra = lookup(tab_a, asg)
        if ra != rb:
            return False, "when [%s]: %s   - expected: %s" % (_show(asg.items()), sorted(ra) or "nothing", sorted(rb))
    return True, ""


def norm(text):
    return "".join(text.split()).replace("(", "").replace(")", "")


class _SortDict(ast.NodeTransformer):
    def visit_List(self, n):
        self.generic_visit(n)
        if n.elts and isinstance(n.ctx, ast.Load) and all(isinstance(e, ast.Constant) for e in n.elts):
            return ast.Tuple(elts=n.elts, ctx=ast.Load())      # a literal table reads the same as list or tuple
        return n

    def visit_Dict(self, n):
        self.generic_visit(n)
        if n.keys and all(isinstance(k, ast.Constant) for k in n.keys):
            pairs = sorted(zip(n.keys, n.values), key=lambda kv: repr(kv[0].value))
            return ast.Dict(keys=[k for k, _ in pairs], values=[v for _, v in pairs])
        return n


def len_facts(p):
    """{text of X: N} for the path's facts len(X) == N."""
    out = {}
    for a, t in p.conds:
        if t and a[0] == "==" and "0" in (a[1], a[2]):
            other = a[2] if a[1] == "0" else a[1]
            m = _CONST_PLUS.match(other)
            if m and m.group(2).startswith("1*len(") and m.group(2).endswith(")"):
                out[m.group(2)[6:-1]] = -int(m.group(1))
    return out


class _SliceNorm(ast.NodeTransformer):
    """With len(X) == N known: X[a:N] is X[a:], X[0:b] is X[:b]."""

    def __init__(self, lens):
        self.lens = lens

    def visit_Subscript(self, n):
        self.generic_visit(n)
        if isinstance(n.slice, ast.Slice):
            sl = n.slice
            if isinstance(sl.lower, ast.Constant) and sl.lower.value == 0:
                sl.lower = None
            N = self.lens.get(src(n.value))
            if N is not None and isinstance(sl.upper, ast.Constant) and sl.upper.value == N:
                sl.upper = None
        return n


def arith_text(e, lens=None):
    if lens:
        e = _SliceNorm(lens).visit(copy.deepcopy(e))
    return _arith_text(e)


def _arith_text(e):
    """Polynomial normal form of an arithmetic expression (so a*(b+c) and b*a + a*c read the same); other
    expressions as they are.  Dict displays with constant keys are written with sorted keys."""
    e = _SortDict().visit(simplify(e))
    from .linform import poly, show

    class A(ast.NodeTransformer):
        def visit_BinOp(self, n):
            if isinstance(n.op, (ast.Add, ast.Sub, ast.Mult)):
                try:
                    return ast.copy_location(ast.Name(id="(%s)" % show(poly(n)), ctx=ast.Load()), n)
                except Exception:
                    pass
            self.generic_visit(n)
            return n

        def visit_UnaryOp(self, n):
            if isinstance(n.op, (ast.USub, ast.UAdd)):
                try:
                    return ast.copy_location(ast.Name(id="(%s)" % show(poly(n)), ctx=ast.Load()), n)
                except Exception:
                    pass
            self.generic_visit(n)
            return n
    if isinstance(e, (ast.BinOp, ast.UnaryOp)) and not (isinstance(e, ast.UnaryOp) and isinstance(e.op, ast.Not)):
        try:
            return show(poly(e))
        except Exception:
            pass
    return src(A().visit(copy.deepcopy(e)))


def result_text(p):
    k, e = p.result
    if k == "return":
        return "return " + arith_text(e, len_facts(p))
    if k == "raise":
        return "raise " + (src(e.func) if isinstance(e, ast.Call) else (src(e) if e is not None else ""))
    return k


def alpha_rename(fnode, keep=(), prefix="v"):
    """Copy of a function (or statement list wrapped in one) whose locals are renamed v1, v2, ... in order of first
    binding in the text - so that two versions that differ only in the names of their locals read the same.
    Names in `keep` are left as they are (differential renaming: only the locals the two versions do not share)."""
    fnode = copy.deepcopy(fnode)
    params = set()
    if isinstance(fnode, ast.FunctionDef):
        a = fnode.args
        params = set(x.arg for x in a.posonlyargs + a.args + a.kwonlyargs)
        if a.vararg:
            params.add(a.vararg.arg)
        if a.kwarg:
            params.add(a.kwarg.arg)
        body = fnode.body
    else:
        body = fnode
    order = []
    glob = set()

    def bind(t):
        for x in ast.walk(t):
            if isinstance(x, ast.Name) and isinstance(x.ctx, (ast.Store, ast.Del)) and x.id not in params and x.id not in order:
                order.append(x.id)

    def visit(n):
        # source order: value before targets for assignments
        if isinstance(n, ast.Global):
            glob.update(n.names)
        if isinstance(n, ast.Assign):
            visit(n.value)
            for t in n.targets:
                bind(t)
            return
        if isinstance(n, (ast.For, ast.AsyncFor)):
            visit(n.iter)
            bind(n.target)
            for c in n.body + n.orelse:
                visit(c)
            return
        if isinstance(n, ast.comprehension):
            visit(n.iter)
            bind(n.target)
            for c in n.ifs:
                visit(c)
            return
        if isinstance(n, (ast.ListComp, ast.SetComp, ast.GeneratorExp, ast.DictComp)):
            for g in n.generators:
                visit(g)
            for c in ([n.key, n.value] if isinstance(n, ast.DictComp) else [n.elt]):
                visit(c)
            return
        if isinstance(n, ast.ExceptHandler) and n.name and n.name not in order and n.name not in params:
            order.append(n.name)
        if isinstance(n, (ast.AugAssign, ast.AnnAssign)):
            bind(n.target)
        if isinstance(n, (ast.With, ast.AsyncWith)):
            for it in n.items:
                visit(it.context_expr)
                if it.optional_vars is not None:
                    bind(it.optional_vars)
            for c in n.body:
                visit(c)
            return
        if isinstance(n, ast.NamedExpr):
            bind(n.target)
        if isinstance(n, (ast.FunctionDef, ast.ClassDef, ast.Lambda)):
            return
        for c in ast.iter_child_nodes(n):
            visit(c)
    for st in body:
        visit(st)
    mapping = dict((nm, "%s%d" % (prefix, i + 1)) for i, nm in enumerate(x for x in order if x not in glob and x not in keep))

    class R(ast.NodeTransformer):
        def visit_Name(self, n):
            if n.id in mapping:
                return ast.copy_location(ast.Name(id=mapping[n.id], ctx=n.ctx), n)
            return n

        def visit_ExceptHandler(self, n):
            if n.name in mapping:
                n.name = mapping[n.name]
            self.generic_visit(n)
            return n

        def visit_Lambda(self, n):
            return n
    if isinstance(fnode, ast.FunctionDef):
        fnode.body = [R().visit(st) for st in body]
        return fnode
    return [R().visit(st) for st in body]


def _bound_names(node):
    stmts = node.body if isinstance(node, (ast.FunctionDef, ast.AsyncFunctionDef)) else node
    out = set()
    for st in stmts:
        for x in ast.walk(st):
            if isinstance(x, ast.Name) and isinstance(x.ctx, (ast.Store, ast.Del)):
                out.add(x.id)
    return out


def check_ref(ctx, rule, func, what, reference, construct, outcome=None, bool_calls=(), as_bool=False, analysis=None, alpha=False, where=None, **kw):
    """Obligation: `func` (a FuncInfo, FunctionDef or statement list) selects the same outcome as the reference snippet for
    every truth assignment of the branch atoms.  `reference` is source text in the function's own vocabulary; both sides
    go through the same normal form, so only a semantic difference (some assignment selecting a different outcome) fails.
    alpha=True renames locals by first binding on both sides; alpha="auto" tries the names as written first."""
    outcome = outcome or result_text
    node0 = getattr(func, "node", func)
    ref0 = _ref_body(reference)
    ok, detail = False, ""
    for use_alpha in ([False, "diff", True] if alpha == "auto" else [bool(alpha)]):
        node, ref = node0, ref0
        if use_alpha == "diff":
            # only the locals the two sides do not share are renamed (a renamed local, a new or dropped temporary)
            na, nb = _bound_names(node), _bound_names(ref)
            common = na & nb
            if na == nb:
                continue
            node = alpha_rename(node, keep=common, prefix="u")
            ref = alpha_rename(ref, keep=common, prefix="u")
        elif use_alpha:
            node = alpha_rename(node)
            ref = alpha_rename(ref)
        pa = paths_of(node, qualname=getattr(where if where is not None else func, "qualname", ""), bool_calls=bool_calls, **kw)
        try:
            pb = Summariser(ref, "<reference>", bool_calls=bool_calls, **kw).run()
        except Unsupported as e:
            raise AnalysisError(rule, "<reference>", "reference table not computable: %s" % e)
        if as_bool:
            pa, pb = boolify(pa, bool_calls), boolify(pb, bool_calls)
        ta, tb = table(pa, outcome), table(pb, outcome)
        ok, d = compare(ta, tb)
        detail = detail or d
        if ok:
            detail = ""
            break
    where = where if where is not None else func
    ctx.ob(rule, where, what, ok, construct=construct, detail=detail,
           analysis=analysis or "guarded normal form (if-conversion + copy propagation) compared with the reference table over all atom assignments")
    return ok


def _ref_body(text):
    import textwrap
    tree = ast.parse(textwrap.dedent(text))
    body = tree.body
    if len(body) == 1 and isinstance(body[0], ast.FunctionDef):
        body = body[0].body
    return body


def outcome_with(stores=None, calls=None, result=True, carries=None):
    """Outcome projection: ordered stores whose target matches `stores`, calls whose callee text matches `calls`, values a
    loop body hands to its next iteration for the names matching `carries`, then the result.  The selectors are
    predicates on text (or None to leave that kind out)."""
    def f(p):
        parts = []
        for k, t, e in p.effects:
            if k == "store" and stores is not None and stores(t):
                parts.append("%s = %s" % (t, arith_text(e, len_facts(p))))
            elif k == "carry" and carries is not None and carries(t):
                parts.append("next %s = %s" % (t, arith_text(e, len_facts(p))))
            elif k == "call" and calls is not None and calls(t):
                parts.append(src(e))
        if result:
            parts.append(result_text(p))
        return "; ".join(parts) if parts else None
    return f


def baseline_body(qualname):
    """Source of a function's body as confirmed on the baseline tree (sa/baseline_src.json), docstring dropped."""
    from . import canon
    store = canon.load_baseline_src() or {}
    for mod, funcs in store.items():
        if qualname in funcs:
            text = funcs[qualname][0]["text"]
            tree = ast.parse("if True:\n" + text if text[:1] in (" ", "\t") else text)
            f = tree.body[0].body[0] if text[:1] in (" ", "\t") else tree.body[0]
            body = f.body
            if body and isinstance(body[0], ast.Expr) and isinstance(body[0].value, ast.Constant) and isinstance(body[0].value.value, str):
                body = body[1:]
            return "\n".join(ast.unparse(x) for x in body)
    # a nested function: look it up inside its enclosing function's confirmed source
    if "." in qualname:
        outer, inner = qualname.rsplit(".", 1)
        for mod, funcs in store.items():
            if outer in funcs:
                text = funcs[outer][0]["text"]
                tree = ast.parse("if True:\n" + text if text[:1] in (" ", "\t") else text)
                for n in ast.walk(tree):
                    if isinstance(n, (ast.FunctionDef, ast.AsyncFunctionDef)) and n.name == inner and n is not tree.body[0]:
                        body = n.body
                        if body and isinstance(body[0], ast.Expr) and isinstance(body[0].value, ast.Constant) and isinstance(body[0].value.value, str):
                            body = body[1:]
                        return "\n".join(ast.unparse(x) for x in body)
    raise AnalysisError("E11", qualname, "no confirmed baseline source for this function")


def check_baseline(ctx, rule, func, what, construct=None, **kw):
    """The function's guarded table (projected by `outcome`) is the one confirmed on the baseline tree - the clause
    `what` was established by reading that table.  Spelling does not matter; a different outcome for some consistent
    atom assignment does."""
    return check_ref(ctx, rule, func, what, baseline_body(func.qualname), construct or ("%s table" % func.qualname.split("dateutil.")[-1]), **kw)
