"""E6 - time-unit / sign consistency of offset arithmetic, on polynomial normal forms.

A *site* is a maximal arithmetic expression whose normal form has a coefficient from the
conversion table.  Rules:
  SIGN   if the sign factor multiplies one term it multiplies every term;
  HMS    positional decoders (fields cut out of text) give the fields, in source order, the
         factors 3600, 60, 1;
  NAMED  a term whose field atom names a unit (.days, hours, minutes, ...) carries that unit's factor.
Nothing here depends on identifiers other than through the frozen tables below.
"""
import ast

from .model import src, walk_local
from .linform import poly, show

CONVERSIONS = {3600, 60, 86400}
SIGN_NAMES = {"signal", "mult", "sign", "s"}
NAMED_UNITS = {  # atom suffix -> seconds
    ".days": 86400, "days": 86400, ".seconds": 1, "hours": 3600, "hour": 3600, "hour_offset": 3600, "minutes": 60, "minute": 60,
    "min_offset": 60, "second": 1, "seconds": 1,
}


def maximal_arith(fnode):
    """Maximal BinOp(+,-,*) / timedelta-free arithmetic expressions in a function body."""
    out = []

    def rec(n, inside):
        is_ar = isinstance(n, ast.BinOp) and isinstance(n.op, (ast.Add, ast.Sub, ast.Mult))
        if is_ar and not inside:
            out.append(n)
        for c in ast.iter_child_nodes(n):
            if isinstance(c, (ast.FunctionDef, ast.Lambda, ast.ClassDef)):
                continue
            rec(c, inside and is_ar or is_ar)
    for st in fnode.body:
        rec(st, False)
    return out


class Site(object):
    def __init__(self, expr, sign_names=SIGN_NAMES):
        self.expr = expr
        self.poly = poly(expr)
        pos = {}
        for x in ast.walk(expr):
            t = src(x)
            if t not in pos and hasattr(x, "col_offset"):
                pos[t] = (x.lineno, x.col_offset)
        self.pos = pos
        atoms = set(a for m in self.poly for a in m)
        self.sign = None
        cands = [a for a in atoms if a in sign_names]
        if len(cands) == 1:
            self.sign = cands[0]
        self.terms = []     # (field atom, coefficient, has_sign)
        for m, c in self.poly.items():
            fields = [a for a in m if a != self.sign]
            if len(fields) == 1:
                self.terms.append((fields[0], c, self.sign in m if self.sign else False))
            elif len(fields) > 1:
                self.terms.append(("*".join(fields), c, self.sign in m if self.sign else False))
        self.terms.sort(key=lambda t: self.pos.get(t[0], (0, 0)))

    @property
    def is_unit_site(self):
        return any(abs(c) in CONVERSIONS for c in self.poly.values())

    def sign_distributes(self):
        if self.sign is None:
            return True
        withs = [t for t in self.terms if t[2]]
        return len(withs) == 0 or len(withs) == len(self.terms)

    def positional(self):
        """fields are cut out of text: int(...) calls or *_offset names"""
        return bool(self.terms) and all(t[0].startswith("int(") or t[0].endswith("_offset") for t in self.terms)

    def hms_ok(self):
        want = [3600, 60, 1]
        got = [abs(t[1]) for t in self.terms]
        return got == want[:len(got)]

    def named_ok(self):
        bad = []
        for f, c, _ in self.terms:
            for suf, u in NAMED_UNITS.items():
                if f == suf or f.endswith(suf if suf.startswith(".") else "." + suf) or f == suf:
                    if abs(c) != u:
                        bad.append((f, c, u))
                    break
        return bad


def unit_sites(func):
    # sign factors: local names only ever assigned +1 / -1 (whatever they are called)
    from .rules_common import sign_variables
    names = sign_variables(func.node) | (SIGN_NAMES & set(a.arg for a in func.node.args.args))
    return [s for s in (Site(e, names) for e in maximal_arith(func.node)) if s.is_unit_site]


def check_function(ctx, rule, func, min_sites=1, relative=False):
    """SIGN + HMS/NAMED on every unit site of `func`.  With relative=True only SIGN and HMS order are checked."""
    sites = unit_sites(func)
    for i, s in enumerate(sites):
        label = "%s: %s" % (func.name, src(s.expr))
        ctx.ob(rule, func, "the sign factor multiplies every term of the offset (a negative offset negates minutes and seconds too)",
               s.sign_distributes(), construct=label + " [sign]", detail="" if s.sign_distributes() else "normal form: %s" % show(s.poly),
               analysis="UNIT/SIGN on polynomial normal form")
        if s.positional():
            ctx.ob(rule, func, "fields cut out of the text carry, in order, the factors 3600, 60, 1", s.hms_ok(), construct=label + " [factors]",
                   detail="" if s.hms_ok() else "terms in source order: %s" % [(t[0], t[1]) for t in s.terms], analysis="UNIT positional HH/MM/SS")
        else:
            bad = s.named_ok()
            ctx.ob(rule, func, "each named field carries its unit's conversion factor to seconds", not bad, construct=label + " [factors]",
                   detail="" if not bad else "field %s has factor %s, unit needs %s" % bad[0], analysis="UNIT named fields")
    return len(sites)
