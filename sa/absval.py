"""A four-point abstract evaluator for "optional integer" operands: None / zero / negative / positive.

Used where a rule is about how a function treats an argument that may be absent (None), zero, negative or positive - slice
bounds, counts, offsets.  `evaluate(e, env)` computes the abstract value of an expression when the operands named in
`env` ({source text: class}) are of the given class and everything else is unknown; `refuted(facts, env)` says whether a
set of must-hold branch facts [(source text, truth)] cannot all hold for that class.  Three-valued: an unknown operand
makes a result unknown, never a guess - a path is only dropped when some fact is definitely contradicted.
"""
import ast

CLASSES = ("none", "zero", "neg", "pos")
BIG = 2 ** 63 - 1
UNKNOWN = ("unknown",)
NONE = ("none",)


def _sym(text, cls):
    if cls == "none":
        return NONE
    if cls == "zero":
        return ("int", 0)
    return ("sym", text, cls)


def truth(v):
    if v[0] == "none":
        return False
    if v[0] == "int":
        return v[1] != 0
    if v[0] == "bool":
        return v[1]
    if v[0] == "sym":
        return True         # negative or positive
    return None


def _interval(v):
    if v[0] == "int":
        return (v[1], v[1])
    if v[0] == "sym":
        return (None, -1) if v[2] == "neg" else (1, None)
    return None


def _cmp(op, a, b):
    ia, ib = _interval(a), _interval(b)
    if ia is None or ib is None:
        return None
    (al, ah), (bl, bh) = ia, ib

    def lt():           # a < b for all / for none
        if ah is not None and bl is not None and ah < bl:
            return True
        if al is not None and bh is not None and al >= bh:
            return False
        return None

    def le():
        if ah is not None and bl is not None and ah <= bl:
            return True
        if al is not None and bh is not None and al > bh:
            return False
        return None
    if isinstance(op, ast.Lt):
        return lt()
    if isinstance(op, ast.LtE):
        return le()
    if isinstance(op, ast.Gt):
        r = le()
        return None if r is None else not r
    if isinstance(op, ast.GtE):
        r = lt()
        return None if r is None else not r
    if isinstance(op, (ast.Eq, ast.NotEq)):
        if a[0] == "sym" and b[0] == "sym" and a[1] == b[1]:
            r = True
        elif al == ah == bl == bh and al is not None:
            r = True
        elif lt() is True or (le() is False):
            r = False
        else:
            r = None
        if r is None:
            return None
        return r if isinstance(op, ast.Eq) else not r
    return None


def evaluate(e, env):
    from .model import src
    t = src(e).replace(" ", "")
    for k, cls in env.items():
        if t == k.replace(" ", ""):
            return _sym(k, cls)
    if isinstance(e, ast.Constant):
        if e.value is None:
            return NONE
        if isinstance(e.value, bool):
            return ("bool", e.value)
        if isinstance(e.value, int):
            return ("int", e.value)
        return UNKNOWN
    if t == "sys.maxsize":
        return ("int", BIG)
    if isinstance(e, ast.UnaryOp):
        v = evaluate(e.operand, env)
        if isinstance(e.op, ast.Not):
            b = truth(v)
            return UNKNOWN if b is None else ("bool", not b)
        if isinstance(e.op, ast.USub) and v[0] == "int":
            return ("int", -v[1])
        return UNKNOWN
    if isinstance(e, ast.BoolOp):
        last = UNKNOWN
        for x in e.values:
            last = evaluate(x, env)
            b = truth(last)
            if b is None:
                return UNKNOWN
            if isinstance(e.op, ast.Or) and b:
                return last
            if isinstance(e.op, ast.And) and not b:
                return last
        return last
    if isinstance(e, ast.IfExp):
        b = truth(evaluate(e.test, env))
        if b is None:
            x, y = evaluate(e.body, env), evaluate(e.orelse, env)
            return x if x == y else UNKNOWN
        return evaluate(e.body if b else e.orelse, env)
    if isinstance(e, ast.Compare):
        left = evaluate(e.left, env)
        res = True
        for op, c in zip(e.ops, e.comparators):
            right = evaluate(c, env)
            if isinstance(op, (ast.Is, ast.IsNot)):
                if right[0] == "none" and left[0] != "unknown":
                    r = left[0] == "none"
                elif left[0] == "none" and right[0] != "unknown":
                    r = right[0] == "none"
                else:
                    r = None
                if r is not None and isinstance(op, ast.IsNot):
                    r = not r
            else:
                r = _cmp(op, left, right)
            if r is None:
                return UNKNOWN
            if not r:
                res = False
                break
            left = right
        return ("bool", res)
    return UNKNOWN


def refuted(facts, env):
    """some must-hold fact is definitely contradicted when the operands have the classes in env"""
    for text, tv in facts:
        try:
            e = ast.parse(text, mode="eval").body
        except SyntaxError:
            continue
        b = truth(evaluate(e, env))
        if b is not None and b != tv:
            return True
    return False


def show(v):
    if v[0] == "sym":
        return "%s (%s)" % (v[1], {"neg": "negative", "pos": "positive"}[v[2]])
    if v[0] == "int":
        return "sys.maxsize" if v[1] == BIG else str(v[1])
    if v[0] == "bool":
        return str(v[1])
    return v[0]
