"""E10 - loop progress (PROG): every path through a cursor loop's body back to its head makes progress."""
import ast

from .model import src, AnalysisError
from .rules_lock import stmt_text


def cursor_of(test):
    """(cursor name, bound expr) from `c < bound` possibly inside an `and`."""
    cands = [test]
    if isinstance(test, ast.BoolOp) and isinstance(test.op, ast.And):
        cands = test.values
    for c in cands:
        if isinstance(c, ast.Compare) and len(c.ops) == 1 and isinstance(c.ops[0], (ast.Lt, ast.LtE)) and isinstance(c.left, ast.Name):
            return c.left.id, c.comparators[0]
    return None, None


def check_cursor_loop(ctx, rule, func, cfg, head, monotone_calls=(), label=None):
    cur, bound = cursor_of(head.ast)
    if cur is None:
        raise AnalysisError(rule, func.qualname, "loop test `%s` is not a cursor comparison" % src(head.ast))
    blist = None
    if isinstance(bound, ast.Call) and src(bound.func) == "len" and bound.args:
        blist = src(bound.args[0])
    progress = []
    for n in cfg.live_nodes():
        a = n.ast
        if n.kind != "stmt" or a is None:
            continue
        if isinstance(a, ast.AugAssign) and isinstance(a.target, ast.Name) and a.target.id == cur and isinstance(a.op, ast.Add) \
                and isinstance(a.value, ast.Constant) and isinstance(a.value.value, int) and a.value.value > 0:
            progress.append(n)
        elif isinstance(a, ast.Delete) and blist is not None and any(isinstance(t, ast.Subscript) and src(t.value) == blist for t in a.targets):
            progress.append(n)
        elif isinstance(a, ast.Assign) and any(isinstance(t, ast.Name) and t.id == cur for t in a.targets) and isinstance(a.value, ast.Call) \
                and src(a.value.func) in monotone_calls:
            progress.append(n)
        elif isinstance(a, ast.Assign) and any(isinstance(t, ast.Name) and t.id == cur for t in a.targets) and isinstance(a.value, ast.Name) \
                and a.value.id in monotone_calls:
            progress.append(n)
    starts = [s for s, lab in head.succ if lab == "true"]
    bad = None
    for s in starts:
        if s in progress:
            continue
        p = cfg.path_avoiding(s, [head], avoid_nodes=progress, include_start=True)
        if p is not None:
            bad = [s] + p if p and p[0] is not s else p
            break
    # nothing in the body may move the cursor backwards or reset it
    resets = []
    body_ids = set(id(x) for st in head.loop.body for x in ast.walk(st)) if head.loop is not None else set()
    for n in cfg.live_nodes():
        a = n.ast
        if n.kind == "stmt" and a is not None and id(a) in body_ids and n not in progress:
            if isinstance(a, (ast.Assign, ast.AugAssign)):
                tg = a.targets if isinstance(a, ast.Assign) else [a.target]
                if any(isinstance(t, ast.Name) and t.id == cur for t in tg):
                    resets.append(n)
    ctx.ob(rule, func, "every path through the body of `while %s` advances the cursor `%s` (or shrinks the bound) before the next test" % (src(head.ast)[:40], cur),
           bad is None, construct=label or ("while %s" % src(head.ast)[:60]),
           detail="" if bad is None else "path without progress: %s" % " -> ".join("L%d" % x.lineno for x in bad if x.lineno), analysis="PROG: CFG must-pass-through")
    ctx.ob(rule, func, "nothing in the loop body moves the cursor `%s` other than forward steps" % cur, not resets,
           construct=(label or ("while %s" % src(head.ast)[:60])) + " : cursor writes", detail="; ".join(stmt_text(n) for n in resets))
    return progress
