"""Polynomial normal form of an arithmetic expression: {monomial: coefficient}.

A monomial is a sorted tuple of atom texts (with repetition).  Atoms are maximal
non-arithmetic sub-expressions (names, attributes, calls, subscripts).  Only
+, -, *, unary -, and integer literals are expanded; anything else is an atom.
Used by the unit/sign rules: "the sign factor multiplies every term", "hours
carry the factor 3600 and minutes 60", "12 * years + months".
"""
import ast

from .model import src


class NotPolynomial(Exception):
    pass


def poly(e, atomize=None, subst=None):
    """atomize(node)->text|None lets callers rename atoms (e.g. int(x[:2]) -> 'F0:2')."""
    if subst and isinstance(e, ast.Name) and e.id in subst:
        return poly(subst[e.id], atomize, subst)
    if atomize is not None:
        a = atomize(e)
        if a is not None:
            return {(a,): 1}
    if isinstance(e, ast.Constant) and isinstance(e.value, (int, float)) and not isinstance(e.value, bool):
        return {(): e.value} if e.value != 0 else {}
    if isinstance(e, ast.UnaryOp) and isinstance(e.op, ast.USub):
        return {m: -c for m, c in poly(e.operand, atomize, subst).items()}
    if isinstance(e, ast.UnaryOp) and isinstance(e.op, ast.UAdd):
        return poly(e.operand, atomize, subst)
    if isinstance(e, ast.BinOp) and isinstance(e.op, (ast.Add, ast.Sub)):
        a = dict(poly(e.left, atomize, subst))
        b = poly(e.right, atomize, subst)
        sgn = 1 if isinstance(e.op, ast.Add) else -1
        for m, c in b.items():
            a[m] = a.get(m, 0) + sgn * c
            if a[m] == 0:
                del a[m]
        return a
    if isinstance(e, ast.BinOp) and isinstance(e.op, ast.Mult):
        a = poly(e.left, atomize, subst)
        b = poly(e.right, atomize, subst)
        out = {}
        for m1, c1 in a.items():
            for m2, c2 in b.items():
                m = tuple(sorted(m1 + m2))
                out[m] = out.get(m, 0) + c1 * c2
                if out[m] == 0:
                    del out[m]
        return out
    return {(src(e),): 1}


def show(p):
    if not p:
        return "0"
    parts = []
    for m, c in sorted(p.items(), key=lambda kv: (len(kv[0]), kv[0])):
        parts.append("%s*%s" % (c, "*".join(m)) if m else str(c))
    return " + ".join(parts)
