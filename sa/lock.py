"""E3 - lock typestate over the CFG.

Locks are attributes assigned from `_thread.allocate_lock()` / `threading.Lock()`.
State per lock expression: 'U' unheld, 'H' held, 'T' unknown (join of both).
"""
import ast

from .model import src, mangle, walk_local, attr_chain
from .cfg import solve

LOCK_CTORS = ("allocate_lock", "Lock", "RLock")


def find_locks(prog):
    """[(ClassInfo|None, mangled attr name, FuncInfo, assign node)] for every lock attribute."""
    out = []
    for f in prog.functions.values():
        for n in walk_local(f.node):
            if isinstance(n, ast.Assign) and isinstance(n.value, ast.Call):
                cn = src(n.value.func)
                if cn.split(".")[-1] in LOCK_CTORS and ("thread" in cn or "Lock" in cn):
                    for t in n.targets:
                        if isinstance(t, ast.Attribute):
                            cls = f.cls
                            attr = mangle(cls.name, t.attr) if cls is not None else t.attr
                            out.append((cls, attr, f, n))
    return out


def lock_attr_names(prog):
    return set(a for _, a, _, _ in find_locks(prog))


class LockFlow(object):
    def __init__(self, cfg, func, lock_attrs):
        self.cfg = cfg
        self.func = func
        self.lock_attrs = lock_attrs
        self.clsname = func.cls.name if func.cls is not None else None
        if self.clsname is None and func.parent is not None and func.parent.cls is not None:
            self.clsname = func.parent.cls.name
        self.aliases = {}       # local name -> (lockexpr, 'acquire'|'release'|'locked')
        self.lock_names = {}    # local name -> lockexpr   (lock = self._cache_lock)
        for n in walk_local(func.node):
            if isinstance(n, ast.Assign) and isinstance(n.value, ast.Attribute) and len(n.targets) == 1 and isinstance(n.targets[0], ast.Name):
                attr = mangle(self.clsname, n.value.attr) if self.clsname else n.value.attr
                if attr in lock_attrs or n.value.attr in lock_attrs:
                    self.lock_names[n.targets[0].id] = src(n.value)
        for n in walk_local(func.node):
            if isinstance(n, ast.Assign) and isinstance(n.value, ast.Attribute) \
                    and n.value.attr in ("acquire", "release", "locked"):
                le = self.lock_expr(n.value.value)
                if le:
                    for t in n.targets:
                        if isinstance(t, ast.Name):
                            self.aliases[t.id] = (le, n.value.attr)
        self.events = {}        # node id -> [(op, lockexpr)]
        self.locks = set()
        for n in cfg.live_nodes():
            ev = self._events(n)
            if ev:
                self.events[n.id] = ev
                for _, le in ev:
                    self.locks.add(le)
        self.problems = []      # (kind, node, lockexpr, state)
        self._run()

    def lock_expr(self, e):
        """Normalised text of a lock expression, or None if `e` is not a known lock."""
        if isinstance(e, ast.Attribute):
            attr = mangle(self.clsname, e.attr) if self.clsname else e.attr
            if attr in self.lock_attrs or e.attr in self.lock_attrs:
                return src(e)
        if isinstance(e, ast.Name) and e.id in getattr(self, "lock_names", {}):
            return self.lock_names[e.id]
        return None

    def _call_op(self, call):
        f = call.func
        if isinstance(f, ast.Attribute) and f.attr in ("acquire", "release", "locked"):
            le = self.lock_expr(f.value)
            if le:
                return (f.attr, le)
        if isinstance(f, ast.Name) and f.id in self.aliases:
            le, op = self.aliases[f.id]
            return (op, le)
        return None

    def _events(self, n):
        ev = []
        if n.kind == "with_enter":
            for it in n.ast.items:
                le = self.lock_expr(it.context_expr)
                if le:
                    ev.append(("acquire", le))
        elif n.kind == "with_exit":
            for it in n.ast.items:
                le = self.lock_expr(it.context_expr)
                if le:
                    ev.append(("release", le))
        elif n.kind == "stmt" and n.ast is not None and not isinstance(n.ast, (ast.FunctionDef, ast.ClassDef)):
            for x in ast.walk(n.ast):
                if isinstance(x, ast.Call):
                    op = self._call_op(x)
                    if op and op[0] in ("acquire", "release"):
                        ev.append(op)
        return ev

    def is_locked_test(self, expr):
        """lock expr if `expr` is `<lock>.locked()` (possibly via alias)."""
        if isinstance(expr, ast.Call):
            op = self._call_op(expr)
            if op and op[0] == "locked":
                return op[1]
        return None

    def _run(self):
        locks = sorted(self.locks)
        init = tuple("U" for _ in locks)
        idx = {le: i for i, le in enumerate(locks)}
        self._idx = idx

        def transfer(n, s):
            ev = self.events.get(n.id)
            if not ev:
                return s
            s = list(s)
            for op, le in ev:
                i = idx[le]
                if op == "acquire":
                    s[i] = "H"
                else:
                    s[i] = "U"
            return tuple(s)

        def join(a, b):
            return tuple(x if x == y else "T" for x, y in zip(a, b))

        def exc_state(n, before, after):
            ev = self.events.get(n.id)
            if ev and n.kind == "stmt" and isinstance(n.ast, ast.Expr) and isinstance(n.ast.value, ast.Call) \
                    and self._call_op(n.ast.value):
                return None     # a bare acquire()/release() statement does not raise in a well-paired program
            if n.kind == "with_enter":
                return before   # acquisition failed: not held
            if n.kind == "with_exit":
                return after
            return before

        self.IN, self.OUT = solve(self.cfg, init, transfer, join=join, exc_state=exc_state)
        # mis-use events
        for n in self.cfg.live_nodes():
            ev = self.events.get(n.id)
            if not ev or n.id not in self.IN:
                continue
            s = list(self.IN[n.id])
            for op, le in ev:
                i = idx[le]
                if op == "acquire" and s[i] in ("H", "T"):
                    self.problems.append(("acquire-while-held", n, le, s[i]))
                if op == "release" and s[i] in ("U", "T"):
                    self.problems.append(("release-while-unheld", n, le, s[i]))
                s[i] = "H" if op == "acquire" else "U"

    def state(self, node, lockexpr, after=False):
        d = self.OUT if after else self.IN
        if node.id not in d or lockexpr not in self._idx:
            return None
        return d[node.id][self._idx[lockexpr]]

    def acquire_nodes(self, lockexpr):
        return [n for n in self.cfg.live_nodes()
                if any(op == "acquire" and le == lockexpr for op, le in self.events.get(n.id, []))]

    def release_nodes(self, lockexpr):
        return [n for n in self.cfg.live_nodes()
                if any(op == "release" and le == lockexpr for op, le in self.events.get(n.id, []))]


def has_yield(node):
    if node.kind != "stmt" or node.ast is None or isinstance(node.ast, (ast.FunctionDef, ast.ClassDef, ast.Lambda)):
        return False
    for x in ast.walk(node.ast):
        if isinstance(x, (ast.Yield, ast.YieldFrom)):
            return True
    return False


def describe_path(path):
    return " -> ".join("L%d" % n.lineno if n.lineno else n.kind for n in path)
