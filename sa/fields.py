"""E7 - field coverage, same-field and role rules for record-like classes."""
import ast

from .model import src, walk_local, AnalysisError, FuncInfo


def init_fields(init, exclude=()):
    """Attributes `self.X` assigned anywhere in __init__ (in source order, unique)."""
    out = []
    for n in ast.walk(init.node):
        if isinstance(n, ast.Attribute) and isinstance(n.ctx, ast.Store) and isinstance(n.value, ast.Name) \
                and n.value.id == "self" and n.attr not in exclude and n.attr not in out:
            out.append(n.attr)
    return out


def ctor_calls(func, names=("self.__class__", "relativedelta", "type(self)")):
    """Calls that construct an instance of the method's own class."""
    out = []
    for n in walk_local(func.node):
        if isinstance(n, ast.Call) and src(n.func) in names:
            out.append(n)
    out.sort(key=lambda c: (c.lineno, c.col_offset))
    return out


def attr_reads(e, roots=("self", "other")):
    """[(root, attr)] for every `<root>.<attr>` read inside expression e."""
    out = []
    for n in ast.walk(e):
        if isinstance(n, ast.Attribute) and isinstance(n.value, ast.Name) and n.value.id in roots:
            out.append((n.value.id, n.attr))
    return out


def is_attr(e, root, attr):
    return isinstance(e, ast.Attribute) and isinstance(e.value, ast.Name) and e.value.id == root and e.attr == attr


def match_role(e, role, k, a="self", b="other"):
    """Does expression `e` implement `role` for field k?  Returns (ok, why)."""
    if role == "pass":          # a.k unchanged
        return is_attr(e, a, k), "expected %s.%s" % (a, k)
    if role == "neg":
        ok = isinstance(e, ast.UnaryOp) and isinstance(e.op, ast.USub) and is_attr(e.operand, a, k)
        return ok, "expected -%s.%s" % (a, k)
    if role == "abs":
        ok = isinstance(e, ast.Call) and src(e.func) == "abs" and len(e.args) == 1 and is_attr(e.args[0], a, k)
        return ok, "expected abs(%s.%s)" % (a, k)
    if role == "scale":         # int(a.k * f)
        ok = (isinstance(e, ast.Call) and src(e.func) == "int" and len(e.args) == 1
              and isinstance(e.args[0], ast.BinOp) and isinstance(e.args[0].op, ast.Mult)
              and (is_attr(e.args[0].left, a, k) or is_attr(e.args[0].right, a, k))
              and sum(1 for r, x in attr_reads(e.args[0])) == 1)
        return ok, "expected int(%s.%s * factor)" % (a, k)
    if role == "sum":           # a.k + b.k in either order
        ok = isinstance(e, ast.BinOp) and isinstance(e.op, ast.Add) and (
            (is_attr(e.left, a, k) and is_attr(e.right, b, k)) or (is_attr(e.left, b, k) and is_attr(e.right, a, k)))
        return ok, "expected %s.%s + %s.%s" % (a, k, b, k)
    if role == "diff":          # a.k - b.k (order matters)
        ok = isinstance(e, ast.BinOp) and isinstance(e.op, ast.Sub) and is_attr(e.left, a, k) and is_attr(e.right, b, k)
        return ok, "expected %s.%s - %s.%s" % (a, k, b, k)
    if role == "first_or":      # x.k or y.k   (x preferred)
        ok = isinstance(e, ast.BoolOp) and isinstance(e.op, ast.Or) and len(e.values) == 2 \
            and is_attr(e.values[0], a, k) and is_attr(e.values[1], b, k)
        return ok, "expected %s.%s or %s.%s" % (a, k, b, k)
    if role == "first_not_none":    # x.k if x.k is not None else y.k   (x = a preferred)
        if isinstance(e, ast.IfExp) and isinstance(e.test, ast.Compare) and len(e.test.ops) == 1 \
                and isinstance(e.test.comparators[0], ast.Constant) and e.test.comparators[0].value is None:
            if isinstance(e.test.ops[0], ast.IsNot) and is_attr(e.test.left, a, k):
                return is_attr(e.body, a, k) and is_attr(e.orelse, b, k), "expected %s.%s if %s.%s is not None else %s.%s" % (a, k, a, k, b, k)
            if isinstance(e.test.ops[0], ast.Is) and is_attr(e.test.left, a, k):
                return is_attr(e.body, b, k) and is_attr(e.orelse, a, k), "expected %s.%s if %s.%s is None else %s.%s" % (b, k, a, k, a, k)
        return False, "expected %s.%s if %s.%s is not None else %s.%s" % (a, k, a, k, b, k)
    if role == "local":         # a local variable named like the field
        return isinstance(e, ast.Name) and e.id == k, "expected local `%s`" % k
    raise ValueError(role)
