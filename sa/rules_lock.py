"""Lock rules shared by C11, C17, C18 (pairing, foreign release, who-may-touch)."""
import ast

from .model import src, mangle, walk_local, AnalysisError
from .lock import LockFlow, lock_attr_names, has_yield, describe_path, find_locks

MUTATORS = {"append", "insert", "pop", "popitem", "clear", "update", "setdefault", "remove", "extend",
            "sort", "reverse", "add", "discard", "move_to_end", "__setitem__", "__delitem__"}


def stmt_text(node):
    a = node.ast
    if node.kind in ("with_enter", "with_exit"):
        return "with " + ", ".join(src(i.context_expr) for i in a.items)
    if node.kind == "for":
        return "for %s in %s" % (src(a.target), src(a.iter))
    if node.kind == "handler":
        return "except " + src(a.type)
    if node.kind == "dispatch":
        return "try"
    if a is None:
        return node.kind
    return src(a).split("\n")[0]


def functions_using_locks(ctx, module_names=None):
    attrs = lock_attr_names(ctx.prog)
    out = []
    for f in sorted(ctx.prog.functions.values(), key=lambda x: x.qualname):
        if not f.module.active:
            continue
        if module_names is not None and f.module.name not in module_names:
            continue
        flow = LockFlow(ctx.cfg(f), f, attrs)
        if flow.locks:
            out.append((f, flow))
    return out


def check_pairing(ctx, prefix, module_names, yield_rule=None, foreign_rule=None):
    """<prefix>.PAIR: lock unheld at every exit / exceptional exit / yield; no acquire while held.
       <foreign_rule>: no release of a lock this function does not hold."""
    pair = prefix + ".PAIR"
    n_funcs = 0
    for f, flow in functions_using_locks(ctx, module_names):
        n_funcs += 1
        cfg = flow.cfg
        for le in sorted(flow.locks):
            acq = flow.acquire_nodes(le)
            if not acq:
                continue
            terminals = [(cfg.exit, "normal-exit"), (cfg.raise_exit, "exceptional-exit")]
            yi = 0
            for n in sorted(cfg.live_nodes(), key=lambda x: (x.lineno, x.id)):
                if has_yield(n):
                    yi += 1
                    terminals.append((n, "yield#%d:%s" % (yi, stmt_text(n))))
            for t, label in terminals:
                st = flow.state(t, le)
                if st is None:
                    continue        # terminal unreachable
                ok = st == "U"
                detail = ""
                if not ok:
                    path = None
                    for a in acq:
                        path = cfg.path_avoiding(a, [t], avoid_nodes=flow.release_nodes(le),
                                                 avoid_edges=[(a, "exc")])
                        if path:
                            break
                    detail = "lock state %s at %s; witness path %s" % (
                        {"H": "held", "T": "maybe-held"}[st], label, describe_path(path) if path else "?")
                rule = yield_rule if (label.startswith("yield") and yield_rule) else pair
                ctx.ob(rule, f, "lock %s is unheld at %s" % (le, label.split(":")[0].split("#")[0]), ok,
                       construct="lock=%s exit=%s" % (le, label), detail=detail, analysis="LOCK typestate over CFG")
        for kind, n, le, st in flow.problems:
            if kind == "acquire-while-held":
                ctx.ob(pair, f, "no acquire of %s while it is (maybe) held" % le, False,
                       construct="lock=%s reacquire:%s" % (le, stmt_text(n)),
                       detail="state %s before L%d (non-reentrant lock: self-deadlock)" % (st, n.lineno))
            elif kind == "release-while-unheld":
                ctx.ob(foreign_rule or pair, f, "no release of %s by a function that does not hold it" % le, False,
                       construct="lock=%s foreign-release:%s" % (le, stmt_text(n)),
                       detail="state %s before L%d: releases a lock acquired elsewhere (or by another thread)" % (
                           {"U": "unheld", "T": "maybe-held"}[st], n.lineno))
        if not flow.problems and foreign_rule:
            ctx.ob(foreign_rule, f, "every release is preceded by this function's own acquire on all paths", True,
                   construct="locks=%s" % ",".join(sorted(flow.locks)))
    return n_funcs


def local_aliases(func, clsname, protected):
    """local name -> protected attr it aliases (name = self.<attr>), if assigned exactly that way."""
    out = {}
    for n in walk_local(func.node):
        if isinstance(n, ast.Assign) and isinstance(n.value, ast.Attribute):
            a = mangle(clsname, n.value.attr) if clsname else n.value.attr
            if a in protected:
                for t in n.targets:
                    if isinstance(t, ast.Name):
                        out[t.id] = a
    return out


def accesses(node, clsname, protected, aliases):
    """[(attr, 'read'|'write', expr_src)] for protected attributes touched by CFG node `node`."""
    a = node.ast
    if a is None or node.kind in ("handler", "dispatch", "with_exit", "join", "entry", "exit", "raise"):
        return []
    roots = []
    if node.kind == "for":
        roots = [a.target]      # the iterable is evaluated by the preceding synthetic stmt node
    elif node.kind == "with_enter":
        roots = [i.context_expr for i in a.items]
    elif node.kind in ("branch", "stmt"):
        if isinstance(a, (ast.FunctionDef, ast.ClassDef)):
            return []
        roots = [a]
    out = []
    for r in roots:
        parents = {}
        for x in ast.walk(r):
            for c in ast.iter_child_nodes(x):
                parents[id(c)] = x
        for x in ast.walk(r):
            attr = None
            if isinstance(x, ast.Attribute):
                m = mangle(clsname, x.attr) if clsname else x.attr
                if m in protected:
                    attr = m
            elif isinstance(x, ast.Name) and x.id in aliases and isinstance(x.ctx, ast.Load):
                attr = aliases[x.id]
            if attr is None:
                continue
            kind = "read"
            par = parents.get(id(x))
            if isinstance(x, ast.Attribute) and isinstance(x.ctx, (ast.Store, ast.Del)):
                kind = "write"
            elif isinstance(par, ast.Attribute) and par.attr in MUTATORS:
                gp = parents.get(id(par))
                if isinstance(gp, ast.Call) and gp.func is par:
                    kind = "write"
            elif isinstance(par, ast.Subscript) and par.value is x and isinstance(par.ctx, (ast.Store, ast.Del)):
                kind = "write"
            elif isinstance(par, ast.Assign) and isinstance(x, ast.Name):
                kind = "read"
            # plain aliasing statement `cache = self._cache` is a read of the reference
            out.append((attr, kind, src(par) if isinstance(par, (ast.Call, ast.Attribute, ast.Subscript)) else src(x)))
    return out


def check_touch(ctx, rule, func, clsname, protected, kinds=("read", "write"), why=""):
    """Every access (of the given kinds) to a protected attribute happens with the function's lock held."""
    attrs = lock_attr_names(ctx.prog)
    cfg = ctx.cfg(func)
    flow = LockFlow(cfg, func, attrs)
    aliases = local_aliases(func, clsname, protected)
    n_acc = 0
    seen = set()
    for n in cfg.live_nodes():
        for attr, kind, text in accesses(n, clsname, protected, aliases):
            if kind not in kinds:
                continue
            # an aliasing read `cache = self._cache` is not a data access
            if kind == "read" and n.kind == "stmt" and isinstance(n.ast, ast.Assign) \
                    and isinstance(n.ast.value, ast.Attribute) and src(n.ast.value) == text \
                    and all(isinstance(t, ast.Name) for t in n.ast.targets) and "read" in kinds and len(kinds) == 1:
                continue
            n_acc += 1
            if flow.locks:
                held = any(flow.state(n, le) == "H" for le in flow.locks)
                st = ",".join("%s=%s" % (le, flow.state(n, le)) for le in sorted(flow.locks))
            else:
                held, st = False, "function uses no lock"
            key = (attr, kind, stmt_text(n))
            if key in seen:
                continue
            seen.add(key)
            ctx.ob(rule, func, "%s of %s happens with the lock held%s" % (kind, attr, (" (" + why + ")") if why else ""),
                   held, construct="%s %s in: %s" % (kind, attr, stmt_text(n)),
                   detail="" if held else "lock state at L%d: %s" % (n.lineno, st),
                   analysis="LOCK typestate + who-may-touch")
    return n_acc
