"""E1 - statement-level control-flow graph, reachability, dominance and a generic
forward dataflow solver.  Built from ast only.

Node kinds
  entry / exit (normal return or fall off the end) / raise (exceptional exit)
  stmt      simple statement (ast = the statement)
  branch    test of if / while / assert / IfExp-free conditions (ast = test expr);
            edges 'true' / 'false'
  for       loop head (ast = the For node); edges 'iter' (bind target, enter
            body) / 'exhaust' (leave)
  with_enter / with_exit (ast = the With node; with_exit.exc tells which copy)
  dispatch  entry of a try's handler set (ast = the Try node); edges to handler
            nodes and, unless a catch-all handler exists, to the outer target
  handler   ast = ExceptHandler
  join      synthetic
Edge labels: 'next', 'true', 'false', 'iter', 'exhaust', 'exc'.
"""
import ast
from .model import src, AnalysisError, walk_stmts

NONRAISING_CALLS = {"len", "isinstance", "callable", "hasattr", "id", "bool", "type", "repr"}
NONMUTATING_METHODS = {"split", "rsplit", "splitlines", "strip", "rstrip", "lstrip", "lower", "upper", "find", "rfind", "startswith", "endswith",
                       "join", "get", "count", "index", "format", "encode", "decode", "isdigit", "isalpha", "isspace", "keys", "values", "items",
                       "copy", "replace", "ljust", "rjust", "total_seconds", "toordinal", "weekday", "isoweekday", "isocalendar", "timetuple",
                       "utcoffset", "dst", "tzname", "date", "time", "strftime", "locked", "issubset", "difference", "union", "group", "match"}


class Node(object):
    __slots__ = ("id", "kind", "ast", "succ", "pred", "exc", "stmt", "loop")

    def __init__(self, nid, kind, node=None):
        self.id = nid
        self.kind = kind
        self.ast = node
        self.succ = []      # [(Node, label)]
        self.pred = []      # [(Node, label)]
        self.exc = False
        self.stmt = None    # owning statement for branch/for nodes
        self.loop = None

    @property
    def lineno(self):
        return getattr(self.ast, "lineno", 0) if self.ast is not None else 0

    def __repr__(self):
        t = ""
        if self.ast is not None:
            try:
                t = src(self.ast).split("\n")[0][:60]
            except Exception:
                t = type(self.ast).__name__
        return "<%d %s L%d %s>" % (self.id, self.kind, self.lineno, t)


def expr_may_raise(e, nonraising=NONRAISING_CALLS):
    """Conservative: does evaluating this expression possibly raise?"""
    for n in ast.walk(e):
        if isinstance(n, ast.Call):
            f = n.func
            if isinstance(f, ast.Name) and f.id in nonraising:
                continue
            return True
        if isinstance(n, ast.Subscript) and isinstance(n.ctx, ast.Load):
            return True
        if isinstance(n, (ast.BinOp, ast.Yield, ast.YieldFrom, ast.Await)):
            return True
        if isinstance(n, ast.Compare):
            # ordering comparisons on unknown operands may raise TypeError; ==/is/in on
            # builtins do not in this code base
            if any(isinstance(o, (ast.Lt, ast.LtE, ast.Gt, ast.GtE)) for o in n.ops):
                if not all(isinstance(x, (ast.Name, ast.Constant, ast.Attribute, ast.Call, ast.UnaryOp, ast.BinOp))
                           for x in [n.left] + n.comparators):
                    return True
    return False


def stmt_may_raise(st):
    if isinstance(st, (ast.Pass, ast.Break, ast.Continue, ast.Global, ast.Nonlocal)):
        return False
    if isinstance(st, (ast.Raise, ast.Assert, ast.Import, ast.ImportFrom, ast.Delete)):
        return True
    if isinstance(st, (ast.FunctionDef, ast.AsyncFunctionDef, ast.ClassDef)):
        return bool(st.decorator_list)
    if isinstance(st, ast.Assign):
        if any(isinstance(t, (ast.Tuple, ast.List)) for t in st.targets) and not isinstance(st.value, (ast.Tuple, ast.List)):
            return True     # unpacking
        if any(isinstance(t, ast.Subscript) for t in st.targets):
            return True
        return expr_may_raise(st.value)
    if isinstance(st, ast.AugAssign):
        return True
    if isinstance(st, ast.Return):
        return st.value is not None and expr_may_raise(st.value)
    if isinstance(st, ast.Expr):
        return expr_may_raise(st.value)
    return True


class CFG(object):
    def __init__(self, fnode, qualname="", peel=False):
        self.fnode = fnode
        self.qualname = qualname
        self.peel = peel        # duplicate the first iteration of every for loop (used by the interval analysis)
        self.nodes = []
        self.entry = self._new("entry")
        self.exit = self._new("exit")
        self.raise_exit = self._new("raise")
        self._exc_stack = [self.raise_exit]   # current exception target
        self._frames = []       # finally / with frames (innermost last)
        self._loops = []        # (continue_target, break_pending, frame_depth)
        self.by_stmt = {}       # id(stmt) -> [nodes]
        body = fnode.body if hasattr(fnode, "body") and isinstance(fnode.body, list) else [ast.Return(value=fnode.body)]
        pend = self._block(body, [(self.entry, "next")])
        self._link(pend, self.exit)
        self._prune()

    # ------------------------------------------------------------ primitives
    def _new(self, kind, node=None):
        n = Node(len(self.nodes), kind, node)
        self.nodes.append(n)
        if node is not None:
            self.by_stmt.setdefault(id(node), []).append(n)
        return n

    def _edge(self, a, b, label):
        a.succ.append((b, label))
        b.pred.append((a, label))

    def _link(self, pend, target):
        for n, lab in pend:
            self._edge(n, target, lab)

    def _exc_target(self):
        return self._exc_stack[-1]

    # ---------------------------------------------------------------- blocks
    def _block(self, stmts, pend):
        for st in stmts:
            if not pend:
                # unreachable code after return/raise/break: still build it, detached
                pass
            pend = self._stmt(st, pend)
        return pend

    def _simple(self, st, pend, kind="stmt"):
        n = self._new(kind, st)
        self._link(pend, n)
        if stmt_may_raise(st):
            self._edge(n, self._exc_target(), "exc")
        return n

    def _unwind(self, pend, depth):
        """Run copies of the finally/with frames down to `depth` (innermost first)."""
        saved_frames = self._frames
        saved_exc = self._exc_stack
        for i in range(len(saved_frames) - 1, depth - 1, -1):
            kind, payload, exc_depth = saved_frames[i]
            self._frames = saved_frames[:i]
            self._exc_stack = saved_exc[:exc_depth]
            if kind == "finally":
                j = self._new("join")
                self._link(pend, j)
                pend = self._block(payload, [(j, "next")])
            else:
                w = self._new("with_exit", payload)
                self._link(pend, w)
                pend = [(w, "next")]
        self._frames = saved_frames
        self._exc_stack = saved_exc
        return pend

    def _stmt(self, st, pend):
        if isinstance(st, ast.If):
            b = self._new("branch", st.test)
            b.stmt = st
            self.by_stmt.setdefault(id(st), []).append(b)
            self._link(pend, b)
            if expr_may_raise(st.test):
                self._edge(b, self._exc_target(), "exc")
            t = self._block(st.body, [(b, "true")])
            f = self._block(st.orelse, [(b, "false")]) if st.orelse else [(b, "false")]
            return t + f
        if isinstance(st, ast.While):
            b = self._new("branch", st.test)
            b.stmt = st
            b.loop = st
            self.by_stmt.setdefault(id(st), []).append(b)
            self._link(pend, b)
            if expr_may_raise(st.test):
                self._edge(b, self._exc_target(), "exc")
            brk = []
            self._loops.append((b, brk, len(self._frames)))
            body_end = self._block(st.body, [(b, "true")])
            self._loops.pop()
            self._link(body_end, b)
            out = [(b, "false")]
            if isinstance(st.test, ast.Constant) and st.test.value:
                out = []        # while True: no normal exit
            if st.orelse:
                out = self._block(st.orelse, out)
            return out + brk
        if isinstance(st, (ast.For, ast.AsyncFor)):
            init = self._new("stmt", ast.Expr(value=st.iter, lineno=st.lineno, col_offset=st.col_offset))
            self._link(pend, init)
            if expr_may_raise(st.iter):
                self._edge(init, self._exc_target(), "exc")
            h = self._new("for", st)
            h.stmt = st
            h.loop = st
            brk = []
            out0 = []
            if self.peel:
                h0 = self._new("for", st)
                h0.stmt = st
                h0.loop = st
                h0.exc = True          # marks the peeled (first-iteration) head
                self._edge(init, h0, "next")
                self._edge(h0, self._exc_target(), "exc")
                self._loops.append((h, brk, len(self._frames)))
                first_end = self._block(st.body, [(h0, "iter")])
                self._loops.pop()
                self._link(first_end, h)
                out0 = [(h0, "exhaust")]
            else:
                self._edge(init, h, "next")
            self._edge(h, self._exc_target(), "exc")      # next() of the iterator may raise
            self._loops.append((h, brk, len(self._frames)))
            body_end = self._block(st.body, [(h, "iter")])
            self._loops.pop()
            self._link(body_end, h)
            out = [(h, "exhaust")] + out0
            if st.orelse:
                out = self._block(st.orelse, out)
            return out + brk
        if isinstance(st, ast.Break):
            n = self._new("stmt", st)
            self._link(pend, n)
            if not self._loops:
                raise AnalysisError("E1", self.qualname, "break outside loop")
            target, brk, depth = self._loops[-1]
            brk.extend(self._unwind([(n, "next")], depth))
            return []
        if isinstance(st, ast.Continue):
            n = self._new("stmt", st)
            self._link(pend, n)
            target, brk, depth = self._loops[-1]
            self._link(self._unwind([(n, "next")], depth), target)
            return []
        if isinstance(st, ast.Return):
            n = self._simple(st, pend)
            self._link(self._unwind([(n, "next")], 0), self.exit)
            return []
        if isinstance(st, ast.Raise):
            n = self._new("stmt", st)
            self._link(pend, n)
            self._edge(n, self._exc_target(), "exc")
            return []
        if isinstance(st, ast.Assert):
            b = self._new("branch", st.test)
            b.stmt = st
            self.by_stmt.setdefault(id(st), []).append(b)
            self._link(pend, b)
            fail = self._new("stmt", st)
            self._edge(b, fail, "false")
            self._edge(fail, self._exc_target(), "exc")
            return [(b, "true")]
        if isinstance(st, (ast.With, ast.AsyncWith)):
            enter = self._new("with_enter", st)
            self._link(pend, enter)
            self._edge(enter, self._exc_target(), "exc")
            # exceptional copy of __exit__
            wx = self._new("with_exit", st)
            wx.exc = True
            self._edge(wx, self._exc_target(), "exc")
            self._frames.append(("with", st, len(self._exc_stack)))
            self._exc_stack.append(wx)
            body_end = self._block(st.body, [(enter, "next")])
            self._exc_stack.pop()
            self._frames.pop()
            w = self._new("with_exit", st)
            self._link(body_end, w)
            return [(w, "next")]
        if isinstance(st, ast.Try) or type(st).__name__ == "TryStar":
            return self._try(st, pend)
        if isinstance(st, (ast.FunctionDef, ast.AsyncFunctionDef, ast.ClassDef)):
            n = self._simple(st, pend)
            return [(n, "next")]
        if isinstance(st, ast.Match) if hasattr(ast, "Match") else False:
            raise AnalysisError("E1", self.qualname, "match statement not modelled")
        n = self._simple(st, pend)
        return [(n, "next")]

    def _try(self, st, pend):
        has_finally = bool(st.finalbody)
        outer_exc = self._exc_target()
        if has_finally:
            # exceptional copy of the finally block
            fx = self._new("join")
            fx.exc = True
            fpend = self._block(st.finalbody, [(fx, "next")])
            for n, lab in fpend:
                self._edge(n, outer_exc, "exc")
            self._frames.append(("finally", st.finalbody, len(self._exc_stack)))
            self._exc_stack.append(fx)
        after_exc = self._exc_target()      # where exceptions from handlers/else go
        out = []
        if st.handlers:
            disp = self._new("dispatch", st)
            self._exc_stack.append(disp)
            body_end = self._block(st.body, pend)
            self._exc_stack.pop()
            catch_all = False
            for h in st.handlers:
                hn = self._new("handler", h)
                self._edge(disp, hn, "exc")
                if h.type is None or src(h.type) in ("Exception", "BaseException"):
                    catch_all = True
                out += self._block(h.body, [(hn, "next")])
            if not catch_all:
                self._edge(disp, after_exc, "exc")
        else:
            body_end = self._block(st.body, pend)
        if st.orelse:
            body_end = self._block(st.orelse, body_end)
        out = body_end + out
        if has_finally:
            self._exc_stack.pop()
            self._frames.pop()
            j = self._new("join")
            self._link(out, j)
            out = self._block(st.finalbody, [(j, "next")])
        return out

    def _prune(self):
        """Drop nodes unreachable from entry (dead code after return etc.)."""
        seen = set()
        stack = [self.entry]
        while stack:
            n = stack.pop()
            if n.id in seen:
                continue
            seen.add(n.id)
            for s, _ in n.succ:
                stack.append(s)
        self.reachable = seen
        for n in self.nodes:
            n.pred = [(p, l) for p, l in n.pred if p.id in seen]

    # -------------------------------------------------------------- queries
    def live_nodes(self):
        return [n for n in self.nodes if n.id in self.reachable]

    def nodes_of(self, stmt):
        return [n for n in self.by_stmt.get(id(stmt), []) if n.id in self.reachable]

    def reach(self, starts, avoid_nodes=(), avoid_edges=(), labels=None, include_start=False):
        """Nodes reachable from `starts` (via >=1 edge unless include_start) while never
        entering a node in avoid_nodes nor using an edge (node_id,label) in avoid_edges."""
        avoid = set(n.id for n in avoid_nodes)
        aedges = set((a.id if isinstance(a, Node) else a, l) for a, l in avoid_edges)
        seen = set()
        out = []
        stack = []
        for s in starts:
            if include_start and s.id not in avoid:
                stack.append(s)
            else:
                for t, lab in s.succ:
                    if (s.id, lab) in aedges or (labels is not None and lab not in labels):
                        continue
                    stack.append(t)
        while stack:
            n = stack.pop()
            if n.id in seen or n.id in avoid:
                continue
            seen.add(n.id)
            out.append(n)
            for t, lab in n.succ:
                if (n.id, lab) in aedges or (labels is not None and lab not in labels):
                    continue
                stack.append(t)
        return out

    def dominates(self, a_nodes, b):
        """Every path entry -> b passes through one of a_nodes."""
        if b in a_nodes:
            return True
        r = self.reach([self.entry], avoid_nodes=a_nodes, include_start=True)
        return b not in r

    def path_avoiding(self, start, targets, avoid_nodes=(), avoid_edges=(), include_start=True):
        """A witness path (list of nodes) from start to any target avoiding nodes/edges, else None."""
        avoid = set(n.id for n in avoid_nodes)
        aedges = set((a.id if isinstance(a, Node) else a, l) for a, l in avoid_edges)
        tids = set(t.id for t in targets)
        from collections import deque
        prev = {start.id: None}
        dq = deque([start])
        while dq:
            n = dq.popleft()
            for t, lab in n.succ:
                if (n.id, lab) in aedges or t.id in avoid or t.id in prev:
                    continue
                prev[t.id] = n
                if t.id in tids:
                    path = [t]
                    while path[-1] is not None and prev[path[-1].id] is not None:
                        path.append(prev[path[-1].id])
                    return list(reversed(path))
                dq.append(t)
        return None

    def stmt_nodes(self, pred=None, kinds=("stmt",)):
        return [n for n in self.live_nodes() if n.kind in kinds and (pred is None or pred(n))]


# ---------------------------------------------------------------- dataflow
def solve(cfg, init, transfer, edge=None, join=None, exc_state=None, max_iter=20000, widen=None):
    """Generic forward dataflow.
      init            state at entry
      transfer(n, s)  state after executing node n from state s
      edge(n, label, s_after, s_before) -> state flowing along that edge, or None (infeasible)
      join(a, b)      least upper bound
      widen(old, new, node) optional
    Returns (IN, OUT) dicts keyed by node id (missing = unreachable)."""
    IN = {cfg.entry.id: init}
    OUT = {}
    work = [cfg.entry]
    inwork = {cfg.entry.id}
    iters = 0
    visits = {}
    while work:
        n = work.pop(0)
        inwork.discard(n.id)
        iters += 1
        if iters > max_iter:
            raise AnalysisError("E1", cfg.qualname, "dataflow did not converge")
        s_in = IN[n.id]
        s_out = transfer(n, s_in)
        OUT[n.id] = s_out
        for t, lab in n.succ:
            if lab == "exc" and exc_state is not None:
                s = exc_state(n, s_in, s_out)
            else:
                s = s_out
            if edge is not None and s is not None:
                s = edge(n, lab, s, s_in)
            if s is None:
                continue
            if t.id in IN:
                new = join(IN[t.id], s)
                if widen is not None:
                    visits[t.id] = visits.get(t.id, 0) + 1
                    if visits[t.id] > 3:
                        new = widen(IN[t.id], new, t)
                if new == IN[t.id]:
                    continue
                IN[t.id] = new
            else:
                IN[t.id] = s
            if t.id not in inwork:
                inwork.add(t.id)
                work.append(t)
    return IN, OUT


# ------------------------------------------------- must-hold path facts
def _names_in(e):
    """Keys a fact depends on: plain names and dotted attribute chains."""
    keys = set()
    for n in ast.walk(e):
        if isinstance(n, ast.Name):
            keys.add(n.id)
        elif isinstance(n, ast.Attribute):
            keys.add(src(n))
    return keys


_COMPLEMENT = {ast.Is: ast.IsNot, ast.IsNot: ast.Is, ast.Eq: ast.NotEq, ast.NotEq: ast.Eq, ast.Lt: ast.GtE, ast.GtE: ast.Lt,
               ast.Gt: ast.LtE, ast.LtE: ast.Gt, ast.In: ast.NotIn, ast.NotIn: ast.In}
_MIRROR = {ast.Lt: ast.Gt, ast.Gt: ast.Lt, ast.LtE: ast.GtE, ast.GtE: ast.LtE, ast.Eq: ast.Eq, ast.NotEq: ast.NotEq}


def equivalents(e, truth):
    """Other spellings of the same atomic fact: complement operator with flipped truth, mirrored operands."""
    out = []
    if isinstance(e, ast.Compare) and len(e.ops) == 1:
        op = type(e.ops[0])
        l, r = e.left, e.comparators[0]
        if op in _COMPLEMENT:
            out.append((ast.Compare(left=l, ops=[_COMPLEMENT[op]()], comparators=[r]), not truth))
        if op in _MIRROR:
            out.append((ast.Compare(left=r, ops=[_MIRROR[op]()], comparators=[l]), truth))
            if op in _COMPLEMENT and _COMPLEMENT[op] in _MIRROR:
                out.append((ast.Compare(left=r, ops=[_MIRROR[_COMPLEMENT[op]]()], comparators=[l]), not truth))
    return out


def decompose(cond, truth):
    """Atomic facts implied by `cond` evaluating to `truth`: list of (expr_node, bool)."""
    base = _decompose(cond, truth)
    extra = []
    for e, t in base:
        extra += equivalents(e, t)
    return base + extra


def _decompose(cond, truth):
    if isinstance(cond, ast.UnaryOp) and isinstance(cond.op, ast.Not):
        return _decompose(cond.operand, not truth)
    if isinstance(cond, ast.BoolOp):
        if isinstance(cond.op, ast.And) and truth:
            out = []
            for v in cond.values:
                out += _decompose(v, True)
            return out + [(cond, True)]
        if isinstance(cond.op, ast.Or) and not truth:
            out = []
            for v in cond.values:
                out += _decompose(v, False)
            return out + [(cond, False)]
        return [(cond, truth)]
    if isinstance(cond, ast.Compare) and len(cond.ops) > 1 and truth:
        out = [(cond, True)]
        left = cond.left
        for op, right in zip(cond.ops, cond.comparators):
            out.append((ast.Compare(left=left, ops=[op], comparators=[right]), True))
            left = right
        return out
    return [(cond, truth)]


class Facts(object):
    """Must-hold branch facts at every node: set of (expr_src, truth)."""

    def __init__(self, cfg, params=()):
        self.cfg = cfg
        self._deps = {}
        self._inl = None
        try:
            self._inl = Inliner(cfg, params=params)
        except Exception:
            self._inl = None

        def fact(e, t):
            k = (src(e), t)
            if k not in self._deps:
                self._deps[k] = _names_in(e)
            return k

        def killed_keys(n):
            """names / attribute chains (re)bound or possibly mutated by node n"""
            ks = set()
            muts = set()
            items = set()
            self._items = items
            a = n.ast
            if n.kind == "for":
                for t in ast.walk(a.target):
                    if isinstance(t, ast.Name):
                        ks.add(t.id)
                    elif isinstance(t, ast.Attribute):
                        ks.add(src(t))
                return ks, muts
            if n.kind in ("with_enter",):
                for it in a.items:
                    if it.optional_vars is not None:
                        for t in ast.walk(it.optional_vars):
                            if isinstance(t, ast.Name):
                                ks.add(t.id)
                return ks, muts
            if n.kind == "handler":
                if a.name:
                    ks.add(a.name)
                return ks, muts
            if n.kind != "stmt" or a is None:
                return ks, muts
            targets = []
            if isinstance(a, ast.Assign):
                targets = a.targets
            elif isinstance(a, (ast.AugAssign, ast.AnnAssign)):
                targets = [a.target]
            elif isinstance(a, ast.Delete):
                targets = a.targets
            elif isinstance(a, (ast.FunctionDef, ast.ClassDef)):
                ks.add(a.name)
            elif isinstance(a, (ast.Import, ast.ImportFrom)):
                for al in a.names:
                    ks.add((al.asname or al.name).split(".")[0])
            for t in targets:
                for x in ast.walk(t):
                    if isinstance(x, ast.Name) and isinstance(x.ctx, (ast.Store, ast.Del)):
                        ks.add(x.id)
                    elif isinstance(x, ast.Attribute) and isinstance(x.ctx, (ast.Store, ast.Del)):
                        ks.add(src(x))
                    elif isinstance(x, ast.Subscript) and isinstance(x.ctx, ast.Del):
                        muts.add(src(x.value))
                    elif isinstance(x, ast.Subscript) and isinstance(x.ctx, ast.Store):
                        items.add(src(x.value))     # item assignment: length unchanged
            # named expressions
            for x in ast.walk(a):
                if isinstance(x, ast.NamedExpr):
                    ks.add(x.target.id)
                if isinstance(x, ast.Call):
                    f = x.func
                    if isinstance(f, ast.Name) and f.id in NONRAISING_CALLS | {"int", "float", "str", "abs", "min", "max", "divmod", "range", "sorted", "tuple", "set", "list", "sum", "any", "all", "ord"}:
                        continue
                    if isinstance(f, ast.Attribute):
                        if f.attr in NONMUTATING_METHODS:
                            continue
                        muts.add(src(f.value))      # receiver may be mutated
                    for arg in list(x.args) + [k.value for k in x.keywords]:
                        if isinstance(arg, (ast.Name, ast.Attribute)):
                            muts.add(src(arg))
            self._items_of[n.id] = items
            return ks, muts

        self._items_of = {}
        self._kill_cache = {}

        def transfer(n, s):
            if n.id not in self._kill_cache:
                self._kill_cache[n.id] = killed_keys(n)
            ks, muts = self._kill_cache[n.id]
            items = self._items_of.get(n.id, ())
            if not ks and not muts and not items:
                return s
            out = set()
            for f in s:
                deps = self._deps[f]
                if deps & ks:
                    continue
                dead = False
                for d in deps:
                    for k in ks:
                        if d.startswith(k + "."):
                            dead = True
                    for mk in muts:
                        # mutation of object mk invalidates facts about mk.attr / len(mk) / mk[...]
                        if d.startswith(mk + ".") or (d == mk and (("len(%s)" % mk) in f[0] or ("%s[" % mk) in f[0] or (" in %s" % mk) in f[0])):
                            dead = True
                    for mk in items:
                        if d == mk and (("%s[" % mk) in f[0] or (" in %s" % mk) in f[0]):
                            dead = True
                if not dead:
                    out.add(f)
            return frozenset(out)

        def edge(n, lab, s, s_in):
            if n.kind == "branch" and lab in ("true", "false"):
                add = [fact(e, t) for e, t in decompose(n.ast, lab == "true")]
                if self._inl is not None:
                    try:
                        e2 = self._inl.inline(n, n.ast)
                        if src(e2) != src(n.ast):
                            add += [fact(e, t) for e, t in decompose(e2, lab == "true")]
                    except Exception:
                        pass
                return frozenset(set(s) | set(add))
            return s

        def join(a, b):
            return a & b

        self.IN, self.OUT = solve(cfg, frozenset(), transfer, edge=edge, join=join,
                                  exc_state=lambda n, a, b: a & b)

    def at(self, node):
        return self.IN.get(node.id, frozenset())

    def holds(self, node, expr_src, truth=True):
        return (expr_src, truth) in self.at(node)


def build_cfg(func_info):
    return CFG(func_info.node, func_info.qualname)


# ------------------------------------------------------- reaching definitions
def node_defs(n):
    """Names (plain identifiers) bound by CFG node n."""
    a = n.ast
    out = set()
    if n.kind == "for":
        for x in ast.walk(a.target):
            if isinstance(x, ast.Name):
                out.add(x.id)
    elif n.kind == "with_enter":
        for it in a.items:
            if it.optional_vars is not None:
                for x in ast.walk(it.optional_vars):
                    if isinstance(x, ast.Name):
                        out.add(x.id)
    elif n.kind == "handler":
        if a.name:
            out.add(a.name)
    elif n.kind == "stmt" and a is not None:
        if isinstance(a, (ast.FunctionDef, ast.ClassDef)):
            out.add(a.name)
        elif isinstance(a, (ast.Import, ast.ImportFrom)):
            for al in a.names:
                out.add((al.asname or al.name).split(".")[0])
        else:
            targets = []
            if isinstance(a, ast.Assign):
                targets = a.targets
            elif isinstance(a, (ast.AugAssign, ast.AnnAssign)):
                targets = [a.target]
            for t in targets:
                for x in ast.walk(t):
                    if isinstance(x, ast.Name) and isinstance(x.ctx, ast.Store):
                        out.add(x.id)
            for x in ast.walk(a):
                if isinstance(x, ast.NamedExpr):
                    out.add(x.target.id)
    return out


class ReachingDefs(object):
    """IN[node] : name -> frozenset of defining node ids (0 = parameter / entry)."""

    def __init__(self, cfg, params=()):
        self.cfg = cfg
        init = {p: frozenset([0]) for p in params}

        def transfer(n, s):
            d = node_defs(n)
            if not d:
                return s
            s = dict(s)
            for name in d:
                s[name] = frozenset([n.id])
            return s

        def join(a, b):
            out = dict(a)
            for k, v in b.items():
                out[k] = out.get(k, frozenset()) | v
            return out

        self.IN, self.OUT = solve(cfg, init, transfer, join=join, exc_state=lambda n, a, b: join(a, b))

    def at(self, node, name):
        return self.IN.get(node.id, {}).get(name, frozenset())

    def describe(self, ids):
        out = []
        for i in sorted(ids):
            if i == 0:
                out.append("<param>")
            else:
                n = self.cfg.nodes[i]
                out.append("L%d:%s" % (n.lineno, src(n.ast).split("\n")[0][:50] if n.ast is not None else n.kind))
        return out


def expr_guards(root, target):
    """Conditions that must hold for sub-expression `target` of `root` to be evaluated:
    [(expr_src, truth)] from enclosing IfExp tests and short-circuit BoolOps."""
    out = []

    def rec(e, acc):
        if e is target:
            out.extend(acc)
            return True
        if isinstance(e, ast.IfExp):
            if rec(e.test, acc):
                return True
            if rec(e.body, acc + [(f, t) for x, t in decompose(e.test, True) for f in [src(x)]]):
                return True
            return rec(e.orelse, acc + [(f, t) for x, t in decompose(e.test, False) for f in [src(x)]])
        if isinstance(e, ast.BoolOp):
            cur = list(acc)
            for v in e.values:
                if rec(v, cur):
                    return True
                truth = isinstance(e.op, ast.And)
                cur = cur + [(src(x), t) for x, t in decompose(v, truth)]
            return False
        for c in ast.iter_child_nodes(e):
            if rec(c, acc):
                return True
        return False
    rec(root, [])
    return out


# ---------------------------------------------------- boolean decision tables
def _subst_eval(expr, assignment):
    """Evaluate boolean `expr` with sub-expressions whose source is a key of `assignment` replaced by that truth
    value.  Returns True/False, or None when something else remains."""
    class R(ast.NodeTransformer):
        def generic_visit(self, node):
            if isinstance(node, ast.expr):
                s_ = src(node)
                if s_ in assignment:
                    return ast.copy_location(ast.Constant(value=assignment[s_]), node)
            return ast.NodeTransformer.generic_visit(self, node)
    import copy
    e2 = R().visit(copy.deepcopy(expr))
    if isinstance(e2, ast.expr) and src(expr) in assignment:
        return assignment[src(expr)]
    for n in ast.walk(e2):
        if not isinstance(n, (ast.Constant, ast.BoolOp, ast.UnaryOp, ast.Compare, ast.And, ast.Or, ast.Not, ast.Eq, ast.NotEq,
                              ast.Is, ast.IsNot, ast.Load)):
            return None
        if isinstance(n, ast.Constant) and not isinstance(n.value, bool):
            return None
    try:
        return bool(eval(compile(ast.fix_missing_locations(ast.Expression(body=e2)), "<table>", "eval"), {"__builtins__": {}}, {}))
    except Exception:
        return None


def decision_table(cfg, starts, atoms, stops):
    """For every truth assignment of `atoms` (expression sources), the set of stop nodes reachable from `starts`
    when branches decidable from the assignment are followed only along the decided edge.
    Atoms are assumed not to change inside the region (caller checks that).  Returns {assignment tuple: set(node ids)}."""
    import itertools
    stop_ids = set(n.id for n in stops)
    out = {}
    for vals in itertools.product([True, False], repeat=len(atoms)):
        asg = dict(zip(atoms, vals))
        seen, reached = set(), set()
        stack = list(starts)
        while stack:
            n = stack.pop()
            if n.id in seen:
                continue
            seen.add(n.id)
            if n.id in stop_ids:
                reached.add(n.id)
                continue
            if n.kind == "branch":
                v = _subst_eval(n.ast, asg)
                for t, lab in n.succ:
                    if lab == "exc":
                        continue
                    if v is None or (v and lab == "true") or ((not v) and lab == "false"):
                        stack.append(t)
            else:
                for t, lab in n.succ:
                    if lab != "exc":
                        stack.append(t)
        out[vals] = reached
    return out


# ------------------------------------------------------ inlining of temporaries
PURE_CALLS = {"int", "len", "abs", "min", "max", "str", "float", "bool", "tuple", "divmod", "isinstance", "callable", "getattr", "sorted", "iter", "list", "range"}


def _pure(e):
    for x in ast.walk(e):
        if isinstance(x, ast.Call):
            f = x.func
            if isinstance(f, ast.Name) and f.id in PURE_CALLS:
                continue
            if isinstance(f, ast.Attribute) and f.attr in NONMUTATING_METHODS:
                continue
            return False
        if isinstance(x, (ast.Yield, ast.YieldFrom, ast.Await, ast.Lambda, ast.NamedExpr, ast.ListComp, ast.GeneratorExp, ast.SetComp, ast.DictComp)):
            return False
    return True


class Inliner(object):
    """Replace local temporaries by their (single, pure) reaching definition - so that a rule sees
    `item.step < 0` whether or not the code first wrote `step = item.step`."""

    def __init__(self, cfg, params=()):
        self.cfg = cfg
        self.rd = ReachingDefs(cfg, params=params)

    def definition(self, node, name):
        defs = self.rd.at(node, name)
        if len(defs) != 1:
            return None
        d = next(iter(defs))
        if not d:
            return None
        dn = self.cfg.nodes[d]
        a = dn.ast
        if dn.kind != "stmt" or not isinstance(a, ast.Assign) or len(a.targets) != 1:
            return None
        t = a.targets[0]
        val = None
        if isinstance(t, ast.Name) and t.id == name:
            val = a.value
        elif isinstance(t, (ast.Tuple, ast.List)) and isinstance(a.value, (ast.Tuple, ast.List)) and len(t.elts) == len(a.value.elts):
            for te, ve in zip(t.elts, a.value.elts):
                if isinstance(te, ast.Name) and te.id == name:
                    val = ve
        if val is None or not _pure(val):
            return None
        # the definition's own inputs must not have changed between the definition and the use
        for x in ast.walk(val):
            if isinstance(x, ast.Name) and isinstance(x.ctx, ast.Load):
                if self.rd.at(dn, x.id) != self.rd.at(node, x.id):
                    return None
            if isinstance(x, ast.Attribute) and isinstance(x.ctx, ast.Load):
                # attribute of an object: conservatively require no store to that attribute text between def and use
                txt = src(x)
                for m in self.cfg.reach([dn]):
                    if m is node:
                        continue
                    if m.kind == "stmt" and isinstance(m.ast, (ast.Assign, ast.AugAssign)):
                        tg = m.ast.targets if isinstance(m.ast, ast.Assign) else [m.ast.target]
                        if any(src(y) == txt for t_ in tg for y in ast.walk(t_) if isinstance(y, ast.Attribute)):
                            if node in self.cfg.reach([m]) or m is node:
                                return None
        return (val, dn)

    def inline(self, node, expr, depth=4):
        import copy
        if depth <= 0:
            return expr
        me = self

        class T(ast.NodeTransformer):
            def visit_Name(self, n):
                if isinstance(n.ctx, ast.Load):
                    r = me.definition(node, n.id)
                    if r is not None:
                        val, dn = r
                        return me.inline(dn, copy.deepcopy(val), depth - 1)
                return n

            def visit_Lambda(self, n):
                return n
        return ast.fix_missing_locations(T().visit(copy.deepcopy(expr)))

    def src(self, node, expr):
        return src(self.inline(node, expr))
