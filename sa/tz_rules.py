"""Rules over dateutil.tz shared by C04, C05 and C06."""
import ast
import re

from .model import src, walk_local, AnalysisError, FuncInfo, ClassInfo
from .cfg import ReachingDefs
from .linform import poly, show
from .iso_rules import timedelta_poly
from .rules_lock import stmt_text

ZONES = ["tz.tz.tzutc", "tz.tz.tzoffset", "tz.tz.tzlocal", "tz.tz.tzfile", "tz.tz.tzrange", "tz.tz.tzstr", "tz.tz._tzicalvtz", "zoneinfo.tzfile"]
FIXED = ["tz.tz.tzutc", "tz.tz.tzoffset"]
VARIABLE = ["tz.tz.tzlocal", "tz.tz.tzfile", "tz.tz.tzrange", "tz.tz.tzstr", "tz.tz._tzicalvtz", "zoneinfo.tzfile"]


def norm(t):
    return "".join(t.split()).replace("(", "").replace(")", "")


def body_stmts(f):
    return [s for s in f.node.body if not (isinstance(s, ast.Expr) and isinstance(s.value, ast.Constant))]


def calls_in(f):
    return [src(x.func) for x in walk_local(f.node) if isinstance(x, ast.Call)]


def check_halfopen(ctx, rule):
    prog = ctx.prog
    from . import summ
    nd = prog.func("tz._common.tzrangebase._naive_isdst", rule)
    summ.check_baseline(ctx, rule, nd, "daylight time is the half-open interval [start, end) in both hemisphere orders: the start instant is daylight, the end instant standard",
                        construct="_naive_isdst comparators", as_bool=True, analysis="guarded normal form: comparator table over the ordering atoms")
    ia = prog.func("tz._common.tzrangebase.is_ambiguous", rule)
    summ.check_baseline(ctx, rule, ia, "the repeated wall times of a range zone are [end, end + saving)", construct="tzrangebase.is_ambiguous window", as_bool=True)


def check_iface(ctx, rule):
    prog = ctx.prog
    n = 0
    for q in ZONES:
        c = prog.cls(q, rule)
        for m in ("utcoffset", "dst", "tzname", "fromutc", "is_ambiguous"):
            r = prog.class_lookup(c, m)
            n += 1
            ctx.ob(rule, c, "%s.%s resolves to a definition inside the package (never the datetime.tzinfo default)" % (c.name, m), bool(r and isinstance(r[0], FuncInfo)),
                   construct="%s.%s" % (c.name, m), detail="" if r else "not found in the in-package MRO", analysis="FIELD interface coverage over the MRO")
    ctx.floor(rule, n, 40, "zone class x method pairs")


def fromutc_defs(prog):
    out = []
    seen = set()
    for q in ZONES:
        c = prog.cls(q)
        r = prog.class_lookup(c, "fromutc")
        if r and isinstance(r[0], FuncInfo) and r[0].qualname not in seen:
            seen.add(r[0].qualname)
            out.append(r[0])
    return out


def check_valid(ctx, rule):
    prog = ctx.prog
    fs = fromutc_defs(prog)
    ctx.floor(rule, len(fs), 5, "distinct fromutc definitions")
    wrapper = prog.func("tz._common._validate_fromutc_inputs.fromutc", rule)
    for f in fs + [wrapper]:
        if f is not wrapper and any(d.endswith("_validate_fromutc_inputs") for d in f.decorators):
            ctx.ob(rule, f, "fromutc validates its argument through @_validate_fromutc_inputs", True, construct="%s: decorator" % f.qualname.split("dateutil.")[-1])
            continue
        cfg = ctx.cfg(f)
        facts = ctx.facts(f)
        rs = [n for n in cfg.live_nodes() if n.kind == "stmt" and isinstance(n.ast, ast.Raise)]
        t = [n for n in rs if src(n.ast.exc).startswith("TypeError") and any((not tv) and norm(tx) in ("isinstancedt,datetime", "isinstancedt,datetime.datetime") for tx, tv in facts.at(n))]
        v = [n for n in rs if src(n.ast.exc).startswith("ValueError") and ("dt.tzinfo is not self", True) in facts.at(n)]
        work = [n for n in cfg.live_nodes() if n.kind == "stmt" and isinstance(n.ast, (ast.Assign, ast.AugAssign, ast.Return))]
        guards = [n for n in cfg.live_nodes() if n.kind == "branch" and ("isinstance(dt" in src(n.ast) or "dt.tzinfo is not self" in src(n.ast))]
        ok = len(t) == 1 and len(v) == 1 and len(guards) == 2 and all(cfg.dominates([g], w) for g in guards for w in work)
        ctx.ob(rule, f, "fromutc rejects a non-datetime (TypeError) and a datetime attached to another zone (ValueError) before any arithmetic", ok,
               construct="%s: inline validation" % f.qualname.split("dateutil.")[-1], analysis="must-hold branch facts + CFG dominance")


def check_fold_on_return(ctx, rule):
    prog = ctx.prog
    for q in ("tz._common._tzinfo.fromutc", "tz._common.tzrangebase.fromutc", "tz.tz.tzfile.fromutc"):
        f = prog.func(q, rule)
        cfg = ctx.cfg(f)
        facts = ctx.facts(f)
        rets = [n for n in cfg.live_nodes() if n.kind == "stmt" and isinstance(n.ast, ast.Return)]
        for i, r in enumerate(rets):
            v = r.ast.value
            is_enfold = isinstance(v, ast.Call) and src(v.func) == "enfold" and any(k.arg == "fold" for k in v.keywords)
            fixed = ("transitions is None", True) in facts.at(r)
            ctx.ob(rule, f, "a variable-offset fromutc returns enfold(wall, fold=...) (or is the no-transition early exit)", is_enfold or fixed,
                   construct="%s: %s" % (f.qualname.split("dateutil.")[-1], stmt_text(r)), detail="" if (is_enfold or fixed) else "fold is not set on this return",
                   analysis="CFG return coverage")
        ctx.floor(rule, len(rets), 1, "returns of %s" % q)
    # the fold value itself: each function's guarded table against the confirmed one
    from . import summ
    for q, what in (
            ("tz._common._tzinfo.fromutc", "generic zones: fold is decided by _fold_status(utc, wall) after _fromutc"),
            ("tz._common._tzinfo._fold_status", "generic zones: the later occurrence is the one whose wall-minus-UTC equals the standard offset (utcoffset - dst), only for ambiguous wall times"),
            ("tz._common.tzrangebase.fromutc", "range zones: wall = utc + dst offset inside the UTC daylight interval (transitions shifted by the STANDARD offset), else utc + std offset; fold = standard time inside the repeated hour"),
            ("tz.tz.tzfile.fromutc", "zone files: the period is looked up in the UTC transition table, wall = utc + that period's offset, fold = ambiguity of the wall time in that period"),
            ("tz._common._tzinfo._fromutc", "generic zones: wall = utc + (utcoffset - dst) + dst-at-the-result (evaluated with fold=1); a None offset or saving is a ValueError")):
        f = prog.func(q, rule)
        summ.check_baseline(ctx, rule, f, what, bool_calls={"is_ambiguous", "_naive_isdst"})


def check_resolver(ctx, rule):
    prog = ctx.prog
    table = {"tz.tz.tzfile": "self._find_ttinfo", "tz._common.tzrangebase": "self._isdst", "tz.tz.tzlocal": "self._isdst", "tz.tz._tzicalvtz": "self._find_comp"}
    for q, res in table.items():
        c = prog.cls(q, rule)
        for m in ("utcoffset", "dst", "tzname"):
            f = prog.class_lookup(c, m)[0]
            used = [x for x in calls_in(f) if x == res]
            others = [x for x in calls_in(f) if x.startswith("self._") and x != res and x not in ("self._fold",)]
            ctx.ob(rule, f, "%s.%s obtains the period through %s, the same resolver as its siblings (offset, saving and abbreviation are those of one period)" % (c.name, m, res),
                   bool(used) and not others, construct="%s.%s -> %s" % (c.name, m, res), detail="" if (used and not others) else "calls %s" % calls_in(f), analysis="call-graph sibling agreement")
    from . import summ
    tzf = prog.cls("tz.tz.tzfile", rule)
    for m, what in (("_find_ttinfo", "tzfile: the wall-time resolver applies the fold-directed index shift and then the common index->period mapping"),
                    ("utcoffset", "tzfile.utcoffset is the period's delta (None without a datetime, zero without data)"),
                    ("tzname", "tzfile.tzname is the period's abbreviation")):
        summ.check_baseline(ctx, rule, prog.method(tzf.qualname, m, rule), what)
    rt = prog.method(tzf.qualname, "_read_tzfile", rule)
    a = {src(n.targets[0]): src(n.value) for n in walk_local(rt.node) if isinstance(n, ast.Assign) and src(n.targets[0]) in ("tti.offset", "tti.delta")}
    ctx.ob(rule, rt, "a period's integer offset and its timedelta are built from the same gmtoff (seconds)", a == {"tti.offset": "gmtoff", "tti.delta": "datetime.timedelta(seconds=gmtoff)"},
           construct="tti.offset / tti.delta", detail=str(a), analysis="FIELD same-field + UNIT")
    rb = prog.cls("tz._common.tzrangebase", rule)
    for m, what in (("utcoffset", "range zones report the daylight offset in daylight time and the standard offset otherwise (None when the daylight state is unknown)"),
                    ("dst", "range zones report the saving in daylight time and zero otherwise"),
                    ("tzname", "range zones report the daylight abbreviation in daylight time and the standard one otherwise")):
        summ.check_baseline(ctx, rule, prog.method(rb.qualname, m, rule), what)


def check_fixed(ctx, rule):
    prog = ctx.prog
    u = prog.cls("tz.tz.tzutc", rule)
    o = prog.cls("tz.tz.tzoffset", rule)

    def ret(c, m):
        f = prog.method(c.qualname, m, rule)
        b = [s for s in body_stmts(f) if isinstance(s, ast.Return)]
        return src(b[0].value) if len(b) == 1 and len(body_stmts(f)) == 1 else None
    want = {("tzutc", "utcoffset"): "ZERO", ("tzutc", "dst"): "ZERO", ("tzutc", "tzname"): "'UTC'", ("tzutc", "fromutc"): "dt", ("tzutc", "is_ambiguous"): "False",
            ("tzoffset", "utcoffset"): "self._offset", ("tzoffset", "dst"): "ZERO", ("tzoffset", "tzname"): "self._name", ("tzoffset", "fromutc"): "dt + self._offset", ("tzoffset", "is_ambiguous"): "False"}
    for (cn, m), w in want.items():
        c = u if cn == "tzutc" else o
        g = ret(c, m)
        ctx.ob(rule, c, "%s.%s returns %s" % (cn, m, w), g == w, construct="%s.%s" % (cn, m), detail="" if g == w else "returns %s" % g, analysis="FIELD role")
    oi = prog.method(o.qualname, "__init__", rule)
    ctx.ob(rule, oi, "a fixed offset is stored as timedelta(seconds=offset) (sub-minute offsets kept)", "self._offset = datetime.timedelta(seconds=_get_supported_offset(offset))" in src(oi.node), construct="tzoffset._offset")


def check_parallel_eviction(ctx, rule):
    prog = ctx.prog
    fc = prog.func("tz.tz._tzicalvtz._find_comp", rule)
    pops = [x for x in walk_local(fc.node) if isinstance(x, ast.Call) and isinstance(x.func, ast.Attribute) and x.func.attr == "pop" and "_cache" in src(x.func.value)]
    ins = [x for x in walk_local(fc.node) if isinstance(x, ast.Call) and isinstance(x.func, ast.Attribute) and x.func.attr == "insert" and "_cache" in src(x.func.value)]
    okp = len(pops) == 2 and [src(a) for a in pops[0].args] == [src(a) for a in pops[1].args] and {src(p.func.value) for p in pops} == {"self._cachedate", "self._cachecomp"}
    oki = len(ins) == 2 and src(ins[0].args[0]) == src(ins[1].args[0]) and {src(p.func.value) for p in ins} == {"self._cachedate", "self._cachecomp"}
    ctx.ob(rule, fc, "the two parallel cache lists are trimmed at the same end (same pop arguments), so keys and components stay aligned", okp, construct="parallel eviction",
           detail="" if okp else str([src(p) for p in pops]), analysis="FIELD sibling agreement")
    ctx.ob(rule, fc, "the two parallel cache lists are filled at the same position", oki, construct="parallel insertion", detail="" if oki else str([src(p) for p in ins]), analysis="FIELD sibling agreement")
    # what is cached is what is returned: no definition of the component intervenes between the insertion and the return
    cfg = ctx.cfg(fc)
    rd = ReachingDefs(cfg, params=fc.params)
    ins_nodes = [n for n in cfg.live_nodes() if n.kind == "stmt" and isinstance(n.ast, ast.Expr) and isinstance(n.ast.value, ast.Call) and isinstance(n.ast.value.func, ast.Attribute)
                 and n.ast.value.func.attr == "insert" and "_cachecomp" in src(n.ast.value.func.value) and len(n.ast.value.args) == 2 and isinstance(n.ast.value.args[1], ast.Name)]
    rets = [n for n in cfg.live_nodes() if n.kind == "stmt" and isinstance(n.ast, ast.Return) and isinstance(n.ast.value, ast.Name)]
    okc = bool(ins_nodes)
    det = ""
    for i_ in ins_nodes:
        v_ = i_.ast.value.args[1].id
        after = [r for r in rets if r in cfg.reach([i_]) and r.ast.value.id == v_]
        if not after:
            okc, det = False, "the cached name `%s` is not the one returned after the insertion" % v_
        for r in after:
            if rd.at(r, v_) != rd.at(i_, v_):
                okc, det = False, "`%s` is redefined between its insertion into the cache (L%d) and its return (L%d): a later lookup gets a different component" % (v_, i_.lineno, r.lineno)
    ctx.ob(rule, fc, "the component put into the cache for a wall time is the component returned for it", okc, construct="cached value == returned value", detail=det,
           analysis="reaching definitions at the insertion vs at the return")
    # eviction end must be opposite to the insertion end (oldest entry leaves)
    if okp and oki:
        at_front = src(ins[0].args[0]) == "0"
        pop_back = not pops[0].args
        ctx.ob(rule, fc, "entries are inserted at one end and evicted from the other (oldest first)", at_front == pop_back, construct="insert/evict ends")


# ---------------------------------------------------------------------------------- C05
def check_foldread(ctx, rule):
    prog = ctx.prog
    from . import summ
    for q, what in (
            ("tz._common.tzrangebase._isdst", "range zones: in the repeated hour the answer is the datetime's fold (fold=0 daylight, fold=1 standard); otherwise the half-open interval test"),
            ("tz.tz.tzfile._resolve_ambiguous_time", "zone files: fold=0 in the repeated interval selects the period BEFORE the transition (index - 1), fold=1 the one after; no shift without an earlier period"),
            ("tz.tz.tzlocal._isdst", "tzlocal: in the repeated hour the answer is the datetime's fold when it has one (daylight for fold=0)"),
            ("tz._common._tzinfo._fold", "fold is read from the datetime with default 0")):
        summ.check_baseline(ctx, rule, prog.func(q, rule), what, bool_calls={"is_ambiguous"})
    # call graph: utcoffset of each variable class reaches a fold read
    for q in VARIABLE:
        c = prog.cls(q, rule)
        uo = prog.class_lookup(c, "utcoffset")[0]
        seen, stack, found = set(), [uo], False
        while stack:
            f = stack.pop()
            if f.qualname in seen:
                continue
            seen.add(f.qualname)
            if "fold" in src(f.node) and ("getattr(dt, 'fold'" in src(f.node) or "self._fold(" in src(f.node)):
                found = True
            for x in walk_local(f.node):
                if isinstance(x, ast.Call) and isinstance(x.func, ast.Attribute) and isinstance(x.func.value, ast.Name) and x.func.value.id == "self":
                    r = prog.class_lookup(c, x.func.attr)
                    if r and isinstance(r[0], FuncInfo):
                        stack.append(r[0])
        ctx.ob(rule, c, "utcoffset of %s can reach a read of the datetime's fold" % c.name, found, construct="%s.utcoffset ~> fold" % c.name, analysis="call-graph reachability")


def check_ambig(ctx, rule):
    prog = ctx.prog
    for q in ZONES:
        c = prog.cls(q, rule)
        r = prog.class_lookup(c, "is_ambiguous")
        ok = bool(r and isinstance(r[0], FuncInfo))
        ctx.ob(rule, c, "%s answers is_ambiguous" % c.name, ok, construct="%s.is_ambiguous" % c.name)
    from . import summ
    for q, what in (
            ("tz.tz.tzfile.is_ambiguous", "zone files: a wall time is unambiguous outright only when there is no earlier period (idx is None or idx <= 0); otherwise it is "
                                         "ambiguous iff it lies in [transition, transition + (previous offset - new offset))"),
            ("tz._common._tzinfo.is_ambiguous", "generic zones: ambiguous iff fold=0 and fold=1 give the same wall time but different offsets"),
            ("tz.tz.tzlocal.is_ambiguous", "tzlocal: ambiguous iff standard now but daylight one saving earlier"),
            ("tz._common.tzrangebase.is_ambiguous", "range zones: the repeated wall times are [end, end + saving); never without daylight time")):
        summ.check_baseline(ctx, rule, prog.func(q, rule), what, as_bool=True)


def check_api(ctx, rule):
    prog = ctx.prog
    ri = prog.func("tz.tz.resolve_imaginary", rule)
    cfg = ctx.cfg(ri)
    facts = ctx.facts(ri)
    writes = [n for n in cfg.live_nodes() if n.kind == "stmt" and isinstance(n.ast, (ast.Assign, ast.AugAssign)) and
              any(isinstance(t, ast.Name) and t.id == "dt" for t in (n.ast.targets if isinstance(n.ast, ast.Assign) else [n.ast.target]))]
    okw = len(writes) == 1 and any(tv and norm(t) == "dt.tzinfoisnotNoneandnotdatetime_existsdt" for t, tv in facts.at(writes[0]))
    ctx.ob(rule, ri, "resolve_imaginary changes its argument only when it is aware and does not exist (otherwise the very same object is returned)", okw,
           construct="writes to dt in resolve_imaginary", detail=str([stmt_text(w) for w in writes]), analysis="who-writes + facts")
    rets = [n for n in cfg.live_nodes() if n.kind == "stmt" and isinstance(n.ast, ast.Return)]
    ctx.ob(rule, ri, "it returns dt", len(rets) == 1 and src(rets[0].ast.value) == "dt", construct="return dt")
    if writes:
        p = poly(writes[0].ast.value) if isinstance(writes[0].ast, ast.AugAssign) and isinstance(writes[0].ast.op, ast.Add) else None
        ctx.ob(rule, ri, "the gap width is (offset after) - (offset before)", p == {("curr_offset",): 1, ("old_offset",): -1}, construct="dt += curr_offset - old_offset",
               detail="normal form %s" % (show(p) if p else None), analysis="polynomial normal form")
    samples = {}
    for n in cfg.live_nodes():
        if n.kind == "stmt" and isinstance(n.ast, ast.Assign) and src(n.ast.targets[0]) in ("curr_offset", "old_offset"):
            v = n.ast.value
            ok = False
            sign = None
            if isinstance(v, ast.Call) and src(v.func).endswith(".utcoffset") and isinstance(v.func.value, ast.BinOp):
                b = v.func.value
                tp = timedelta_poly(b.right)
                sign = "+" if isinstance(b.op, ast.Add) else "-"
                ok = src(b.left) == "dt" and tp == {(): 86400}
            samples[src(n.ast.targets[0])] = (ok, sign)
    ctx.ob(rule, ri, "the offsets are sampled exactly one day (24 h = 86400 s) after and before the wall time", samples == {"curr_offset": (True, "+"), "old_offset": (True, "-")},
           construct="offset sampling distance", detail=str(samples), analysis="UNIT (timedelta normal form)")
    from . import summ
    de = prog.func("tz.tz.datetime_exists", rule)
    summ.check_ref(ctx, rule, de, "a wall time exists iff it survives the round trip wall -> UTC -> wall (compared as naive values); a naive datetime without an "
                   "explicit zone is a ValueError", """
        if tz is None:
            if dt.tzinfo is None:
                raise ValueError('Datetime is naive and no time zone provided.')
            tz = dt.tzinfo
        dt = dt.replace(tzinfo=None)
        dt_rt = dt.replace(tzinfo=tz).astimezone(UTC).astimezone(tz)
        dt_rt = dt_rt.replace(tzinfo=None)
        return dt == dt_rt
        """, construct="datetime_exists table", as_bool=True)
    da = prog.func("tz.tz.datetime_ambiguous", rule)
    summ.check_ref(ctx, rule, da, "datetime_ambiguous prefers the zone's own is_ambiguous and falls back to comparing the fold=0 / fold=1 offsets and savings", """
        if tz is None:
            if dt.tzinfo is None:
                raise ValueError('Datetime is naive and no time zone provided.')
            tz = dt.tzinfo
        is_ambiguous_fn = getattr(tz, 'is_ambiguous', None)
        if is_ambiguous_fn is not None:
            try:
                return tz.is_ambiguous(dt)
            except Exception:
                pass
        dt = dt.replace(tzinfo=tz)
        wall_0 = enfold(dt, fold=0)
        wall_1 = enfold(dt, fold=1)
        same_offset = wall_0.utcoffset() == wall_1.utcoffset()
        same_dst = wall_0.dst() == wall_1.dst()
        return not (same_offset and same_dst)
        """, construct="datetime_ambiguous table", as_bool=True)
    for f in (de, da):
        rs = [x for x in walk_local(f.node) if isinstance(x, ast.Raise)]
        ctx.ob(rule, f, "a naive datetime without an explicit zone is a ValueError", len(rs) == 1 and src(rs[0].exc).startswith("ValueError"), construct="%s: naive without tz" % f.name)


# ---------------------------------------------------------------------------------- C06
def fmt_size(fmt_node):
    """Symbolic byte size of a struct format expression: polynomial over the count names."""
    sizes = {"l": 4, "b": 1, "B": 1, "c": 1}
    if isinstance(fmt_node, ast.Constant) and isinstance(fmt_node.value, str):
        f = fmt_node.value.lstrip("><=!@")
        total = 0
        num = ""
        for ch in f:
            if ch.isdigit():
                num += ch
            else:
                if ch not in sizes:
                    return None
                total += (int(num) if num else 1) * sizes[ch]
                num = ""
        return {(): total} if total else {}
    if isinstance(fmt_node, ast.BinOp) and isinstance(fmt_node.op, ast.Mod) and isinstance(fmt_node.left, ast.Constant):
        f = fmt_node.left.value.lstrip("><=!@")
        if f.startswith("%d") and len(f) == 3 and f[2] in sizes:
            out = {}
            for m, c in poly(fmt_node.right).items():
                out[m] = c * sizes[f[2]]
            return out
    return None


def check_struct(ctx, rule):
    prog = ctx.prog
    rt = prog.func("tz.tz.tzfile._read_tzfile", rule)
    n = 0
    for x in walk_local(rt.node):
        if isinstance(x, ast.Call) and src(x.func) == "struct.unpack" and len(x.args) == 2:
            n += 1
            fs = fmt_size(x.args[0])
            rd = x.args[1]
            rs = poly(rd.args[0]) if isinstance(rd, ast.Call) and src(rd.func) == "fileobj.read" and rd.args else None
            ctx.ob(rule, rt, "the number of bytes read equals the size of the struct format", fs is not None and rs is not None and fs == rs, construct="struct.unpack(%s, %s)" % (src(x.args[0]), src(rd)),
                   detail="format size %s vs read %s" % (show(fs) if fs is not None else None, show(rs) if rs is not None else None), analysis="symbolic size agreement (polynomial normal form)")
    ctx.floor(rule, n, 6, "struct.unpack sites")
    sk = [x for x in walk_local(rt.node) if isinstance(x, ast.Call) and src(x.func) == "fileobj.seek"]
    ctx.ob(rule, rt, "leap-second records (8 bytes each in version-1 data) are skipped", len(sk) == 1 and poly(sk[0].args[0]) == {("leapcnt",): 8} and src(sk[0].args[1]) == "os.SEEK_CUR",
           construct="fileobj.seek(leapcnt * 8, os.SEEK_CUR)")
    # read order along the single path
    cfg = ctx.cfg(rt)
    reads = []
    for nnode in sorted(cfg.live_nodes(), key=lambda z: (z.lineno, z.id)):
        if nnode.ast is None or nnode.kind not in ("stmt", "branch"):
            continue
        for x in ast.walk(nnode.ast):
            if isinstance(x, ast.Call) and src(x.func) in ("fileobj.read", "fileobj.seek"):
                reads.append(norm(src(x.args[0])))
    want = ["4", "16", "24", "timecnt*4", "timecnt", "6", "charcnt", "leapcnt*8", "ttisstdcnt", "ttisgmtcnt"]
    ctx.ob(rule, rt, "the file is consumed in TZif version-1 order: magic, reserved, header, transition times, type indices, ttinfo entries, abbreviations, leap seconds, std/wall flags, UT/local flags",
           reads == want, construct="read order", detail="" if reads == want else str(reads), analysis="CFG order of effects")
    hdr = None
    for x in walk_local(rt.node):
        if isinstance(x, ast.Assign) and isinstance(x.targets[0], ast.Tuple) and isinstance(x.value, ast.Call) and "'>6l'" in src(x.value):
            hdr = [src(e) for e in x.targets[0].elts]
    ctx.ob(rule, rt, "the six header counts are unpacked in file order (isgmt, isstd, leap, time, type, char)", hdr == ["ttisgmtcnt", "ttisstdcnt", "leapcnt", "timecnt", "typecnt", "charcnt"], construct="header unpack", detail=str(hdr))
    mg = [x for x in walk_local(rt.node) if isinstance(x, ast.Raise)]
    ctx.ob(rule, rt, "a stream without the TZif magic is rejected with ValueError", len(mg) == 1 and src(mg[0].exc).startswith("ValueError") and "fileobj.read(4).decode() != 'TZif'" in src(rt.node), construct="magic check")


def _canon_value(text):
    """Value texts are compared without blanks / parentheses; boolean formulas by their canonical cases (so `i < n` and
    `n > i` agree)."""
    try:
        e = ast.parse(text, mode="eval").body
    except SyntaxError:
        return norm(text)
    if isinstance(e, (ast.BoolOp, ast.Compare)) or (isinstance(e, ast.UnaryOp) and isinstance(e.op, ast.Not)):
        from .summ import dnf
        return "bool:" + " | ".join(sorted(" & ".join(sorted("%s%s" % ("" if t else "not ", a) for a, t in case)) for case in dnf(e, True)))
    return norm(text)


def check_ttinfo(ctx, rule):
    prog = ctx.prog
    rt = prog.func("tz.tz.tzfile._read_tzfile", rule)
    from .rules_common import value_set
    cfg = ctx.cfg(rt)
    got = {}
    recs = set()
    for n in cfg.live_nodes():
        if n.kind == "stmt" and isinstance(n.ast, ast.Assign) and isinstance(n.ast.targets[0], ast.Attribute) and src(n.ast.targets[0].value) == "tti":
            vals = value_set(ctx, rt, n, n.ast.value, stop=lambda v: any(isinstance(y, ast.Call) and src(y.func) in ("struct.unpack", "fileobj.read") for y in ast.walk(v)))
            got.setdefault("tti." + n.ast.targets[0].attr, set()).update(_canon_value(v) for v in vals)
            for v in vals:
                for m_ in re.finditer(r"\b(\w+)\[i\]\[([012])\]", v):
                    recs.add(m_.group(1))
    R = sorted(recs)[0] if len(recs) == 1 else "ttinfo"
    want = {"tti.offset": "_get_supported_offset%s[i][0]" % R, "tti.delta": "datetime.timedeltaseconds=_get_supported_offset%s[i][0]" % R, "tti.isdst": "%s[i][1]" % R,
            "tti.abbr": norm("abbr[%s[i][2]:abbr.find('\\x00', %s[i][2])]" % (R, R)), "tti.isstd": _canon_value("ttisstdcnt > i and isstd[i] != 0"),
            "tti.isgmt": _canon_value("ttisgmtcnt > i and isgmt[i] != 0")}
    for k, w in want.items():
        ok = got.get(k) == {w}
        ctx.ob(rule, rt, "%s is taken from the record as the format prescribes (record = (utc offset, isdst, abbreviation index))" % k, ok, construct="%s = ..." % k,
               detail="" if ok else "found %s" % sorted(got.get(k, [])), analysis="FIELD wiring: reaching definitions expanded to value sets")
    # the records are the '>lbb' unpackings, one per type
    srcs_ = []
    for x in walk_local(rt.node):
        if isinstance(x, ast.Call) and src(x.func) == "struct.unpack" and x.args and isinstance(x.args[0], ast.Constant) and x.args[0].value == ">lbb":
            srcs_.append(x)
    holders = set()
    for x in walk_local(rt.node):
        if isinstance(x, ast.Call) and isinstance(x.func, ast.Attribute) and x.func.attr == "append" and x.args and any(y in srcs_ for y in ast.walk(x.args[0])):
            holders.add(src(x.func.value))
        if isinstance(x, ast.Assign) and isinstance(x.value, ast.ListComp) and any(y in srcs_ for y in ast.walk(x.value.elt)):
            holders.add(src(x.targets[0]))
    ctx.ob(rule, rt, "a ttinfo record is the 6-byte structure '>lbb' (utc offset, isdst, abbreviation index)", len(srcs_) == 1 and holders == {R}, construct="ttinfo record layout",
           detail="" if (len(srcs_) == 1 and holders == {R}) else "unpack sites=%d holders=%s records read from %s" % (len(srcs_), sorted(holders), R))
    ctx.ob(rule, rt, "each transition refers to its ttinfo by index", "out.trans_idx = [out.ttinfo_list[idx] for idx in out.trans_idx]" in src(rt.node), construct="trans_idx mapping")
    # the period before the first transition: the first standard type, else the first type
    facts = ctx.facts(rt)
    bstores = [n for n in cfg.live_nodes() if n.kind == "stmt" and isinstance(n.ast, ast.Assign) and any(
        isinstance(t_, ast.Attribute) and t_.attr == "ttinfo_before" for t_ in n.ast.targets) and not (isinstance(n.ast.value, ast.Constant) and n.ast.value.value is None)]
    std_pick = [n for n in bstores if isinstance(n.ast.value, ast.Name) and any(
        (not tv) and t.endswith(".isdst") and t.split(".")[0] == n.ast.value.id for t, tv in facts.at(n))]
    fallback = [n for n in bstores if n not in std_pick]
    ok_pick = len(std_pick) == 1 and all(isinstance(s_.ast, ast.Break) for s_, lab in std_pick[0].succ if lab == "next")
    ok_loop = ok_pick and any(m.kind == "for" and src(m.ast.iter).endswith(".ttinfo_list") and m.ast.target.id == std_pick[0].ast.value.id and std_pick[0] in cfg.reach([m])
                              for m in cfg.live_nodes() if m.kind == "for" and isinstance(m.ast.target, ast.Name))
    ok_fb = len(fallback) == 1 and src(fallback[0].ast.value).endswith(".ttinfo_list[0]") and \
        (std_pick and (std_pick[0] in cfg.reach([fallback[0]]) or fallback[0] not in cfg.reach(std_pick)))
    ctx.ob(rule, rt, "before the first transition the first standard-time type applies (the first type when all are daylight)",
           bool(ok_pick and ok_loop and ok_fb), construct="ttinfo_before selection",
           detail="" if (ok_pick and ok_loop and ok_fb) else "standard pick: %s; fallback: %s" % ([stmt_text(n) for n in std_pick], [stmt_text(n) for n in fallback]),
           analysis="must-hold branch facts + CFG successor (first match wins)")
    nz = [n for n in cfg.live_nodes() if n.kind == "stmt" and isinstance(n.ast, ast.Assign) and any(isinstance(t_, ast.Attribute) and t_.attr == "ttinfo_std" for t_ in n.ast.targets)
          and src(n.ast.value).endswith(".ttinfo_list[0]")]
    ok_nz = len(nz) == 1 and any((not tv) and t.endswith(".trans_list_utc") for t, tv in facts.at(nz[0])) and any(
        isinstance(t_, ast.Attribute) and t_.attr == "ttinfo_first" for t_ in nz[0].ast.targets)
    ctx.ob(rule, rt, "with no transitions the single first type is the zone's standard time", ok_nz, construct="no-transition zone", analysis="must-hold branch facts")


def check_lookup(ctx, rule):
    prog = ctx.prog
    fl = prog.func("tz.tz.tzfile._find_last_transition", rule)
    from . import summ

    def bis(p):
        return summ.result_text(p).replace("bisect.bisect(", "bisect.bisect_right(")
    summ.check_ref(ctx, rule, fl, "the containing period is found with bisect_right in the UTC table for UTC instants and in the wall-time table for wall "
                   "times (a transition instant belongs to the period it starts), minus one; None without transitions", """
        if not self._trans_list:
            return None
        if in_utc:
            return bisect.bisect_right(self._trans_list_utc, _datetime_to_timestamp(dt)) - 1
        return bisect.bisect_right(self._trans_list, _datetime_to_timestamp(dt)) - 1
        """, construct="_find_last_transition table", outcome=bis)
    gt = prog.func("tz.tz.tzfile._get_ttinfo", rule)
    summ.check_ref(ctx, rule, gt, "index -> period: before the first transition the 'before' type, inside the table the transition's own type, at/after the "
                   "last transition (or without transitions) the standard type", """
        if idx is None or idx + 1 >= len(self._trans_list):
            return self._ttinfo_std
        if idx < 0:
            return self._ttinfo_before
        return self._trans_idx[idx]
        """, construct="_get_ttinfo mapping")
    d = prog.func("tz.tz.tzfile.dst", rule)
    summ.check_ref(ctx, rule, d, "dst() is zero wherever the data marks standard time and the period's dstoffset otherwise", """
        if dt is None:
            return None
        if not self._ttinfo_dst:
            return ZERO
        if not self._find_ttinfo(dt).isdst:
            return ZERO
        return self._find_ttinfo(dt).dstoffset
        """, construct="tzfile.dst table")
    ts = prog.func("tz.tz._datetime_to_timestamp", rule)
    ctx.ob(rule, ts, "timestamps are seconds since the naive epoch 1970-01-01", "return (dt.replace(tzinfo=None) - EPOCH).total_seconds()" in src(ts.node), construct="_datetime_to_timestamp")


def check_eq(ctx, rule):
    prog = ctx.prog
    tt = prog.cls("tz.tz._ttinfo", rule)
    slots = [e.value for e in tt.assigns["__slots__"].elts]
    eq = prog.method(tt.qualname, "__eq__", rule)
    cmp_ = set()
    for x in walk_local(eq.node):
        if isinstance(x, ast.Compare) and len(x.ops) == 1 and isinstance(x.ops[0], ast.Eq) and isinstance(x.left, ast.Attribute) and isinstance(x.comparators[0], ast.Attribute) \
                and x.left.attr == x.comparators[0].attr and {src(x.left.value), src(x.comparators[0].value)} == {"self", "other"}:
            cmp_.add(x.left.attr)
    loop = any(isinstance(x, (ast.For, ast.GeneratorExp, ast.ListComp)) and "__slots__" in src(x) for x in walk_local(eq.node))
    for s_ in slots:
        ctx.ob(rule, eq, "_ttinfo equality compares slot %s" % s_, s_ in cmp_ or loop, construct="_ttinfo.__eq__: %s" % s_, analysis="FIELD coverage")
    ctx.floor(rule, len(slots), 7, "_ttinfo slots")
    tf = prog.cls("tz.tz.tzfile", rule)
    teq = prog.method(tf.qualname, "__eq__", rule)
    attrs = set()
    for x in walk_local(teq.node):
        if isinstance(x, ast.Compare) and len(x.ops) == 1 and isinstance(x.ops[0], ast.Eq) and isinstance(x.left, ast.Attribute) and x.left.attr == getattr(x.comparators[0], "attr", None):
            attrs.add(x.left.attr)
    ctx.ob(rule, teq, "tzfile equality is by content: transition list, per-transition types and the type list", attrs == {"_trans_list", "_trans_idx", "_ttinfo_list"}, construct="tzfile.__eq__ fields", detail=str(sorted(attrs)))
    ctx.ob(rule, teq, "foreign types get NotImplemented", norm("if not isinstance(other, tzfile): return NotImplemented") in norm(src(teq.node)), construct="tzfile.__eq__ foreign types")
    gs = prog.method(tt.qualname, "__getstate__", rule)
    ss = prog.method(tt.qualname, "__setstate__", rule)
    ctx.ob(rule, tt, "_ttinfo pickles every slot", "for name in self.__slots__" in src(gs.node) and "for name in self.__slots__" in src(ss.node), construct="_ttinfo pickling")
    st = prog.method(tf.qualname, "_set_tzdata", rule)
    ctx.ob(rule, st, "all parsed tables are copied onto the zone", "for attr in _tzfile.attrs" in src(st.node) and "setattr(self, '_' + attr, getattr(tzobj, attr))" in src(st.node), construct="_set_tzdata")


def check_archive(ctx, rule):
    prog = ctx.prog
    zi = prog.func("zoneinfo.ZoneInfoFile.__init__", rule)
    t = norm(src(zi.node))
    ctx.ob(rule, zi, "archive members that are files become zones named after the member", norm("self.zones = {zf.name: tzfile(tf.extractfile(zf), filename=zf.name)") in t and "zf.isfile" in t, construct="archive files -> zones")
    links = None
    for x in walk_local(zi.node):
        if isinstance(x, ast.Assign) and src(x.targets[0]) == "links" and isinstance(x.value, ast.DictComp):
            links = x.value
    okl = False
    detail = "links comprehension not found"
    if links is not None:
        conds = [norm(src(c)) for g in links.generators for c in g.ifs]
        okl = conds == ["zl.islnkorzl.issym"] or conds == ["zl.issymorzl.islnk"]
        detail = str(conds)
        okv = norm(src(links.value)) == "self.zones[zl.linkname]" and src(links.key) == "zl.name"
        ctx.ob(rule, zi, "a link entry is the very zone object of its target (same data, equal and identical behaviour)", okv, construct="link value", detail=src(links.value))
    ctx.ob(rule, zi, "both hard links and symbolic links of the archive are registered as aliases", okl, construct="link kinds", detail=detail, analysis="FIELD coverage")
    ctx.ob(rule, zi, "aliases are merged into the zone map", "self.zones.update(links)" in src(zi.node), construct="self.zones.update(links)")
    zt = prog.cls("zoneinfo.tzfile", rule)
    red = zt.methods.get("__reduce__")
    ctx.ob(rule, zt, "archive zones pickle by name through the archive's gettz", red is not None and "return (gettz, (self._filename,))" in src(red.node), construct="zoneinfo.tzfile.__reduce__")
    tf = prog.cls("tz.tz.tzfile", rule)
    rx = prog.method(tf.qualname, "__reduce_ex__", rule)
    ctx.ob(rule, rx, "file zones pickle as (class, (None, filename), state): re-creation skips reading and restores the parsed tables", "return (self.__class__, (None, self._filename), self.__dict__)" in src(rx.node), construct="tzfile.__reduce_ex__")
    init = prog.method(tf.qualname, "__init__", rule)
    ctx.ob(rule, init, "a tzfile built with fileobj=None reads nothing", "if fileobj is not None:" in src(init.node), construct="tzfile.__init__ fileobj None path")


WALL_LOOP_REF = """
for i, tti in enumerate(out.trans_idx):
    offset = tti.offset
    dstoffset = 0
    if lastdst is not None:
        if tti.isdst:
            if not lastdst:
                dstoffset = offset - lastoffset
            if not dstoffset and lastdstoffset:
                dstoffset = lastdstoffset
            tti.dstoffset = datetime.timedelta(seconds=dstoffset)
            lastdstoffset = dstoffset
    baseoffset = offset - dstoffset
    adjustment = baseoffset
    if (lastbaseoffset is not None and baseoffset != lastbaseoffset and tti.isdst != lastdst):
        adjustment = lastbaseoffset
    lastdst = tti.isdst
    lastoffset = offset
    lastbaseoffset = baseoffset
    out.trans_list.append(out.trans_list_utc[i] + adjustment)
"""


def check_walltime_loop(ctx, rule):
    """The loop of _read_tzfile that derives each daylight period's saving and the wall-clock transition times: one
    symbolic iteration (stores, the appended wall time and the values handed to the next iteration) against its table."""
    from . import summ
    rt = ctx.prog.func("tz.tz.tzfile._read_tzfile", rule)
    loops = [n for n in walk_local(rt.node) if isinstance(n, ast.For) and any(
        isinstance(x, ast.Attribute) and x.attr == "dstoffset" and isinstance(x.ctx, ast.Store) for b_ in n.body for x in ast.walk(b_)) and any(
        isinstance(x, ast.Attribute) and x.attr == "isdst" and isinstance(x.ctx, ast.Load) for b_ in n.body for x in ast.walk(b_))]
    if len(loops) != 1:
        raise AnalysisError(rule, rt.qualname, "expected one loop assigning <period>.dstoffset, found %d" % len(loops))
    summ.check_ref(ctx, rule, [loops[0]], "a daylight period's saving is the offset change at a standard->daylight transition, else the previous daylight period's "
                   "saving when that is non-zero (a daylight->daylight change keeps the saving); wall-clock transition times are UTC times plus the base "
                   "offset in force (the previous base offset when the base offset changes together with the daylight flag)", WALL_LOOP_REF,
                   construct="_read_tzfile: saving / wall-time loop", where=rt, alpha="auto", loops="body",
                   outcome=summ.outcome_with(stores=lambda t: True, calls=lambda t: t.endswith(".append"), carries=lambda t: True, result=False))
