"""E0b - canonical view of a changed tree.

The rule tables of this checker were confirmed against one tree (the baseline).  A later tree may spell the same
behaviour differently: a block moved into a new private helper, a literal table hoisted into a new module
constant, a sub-expression named by a new temporary, a conditional expression instead of an if statement.  Those
edits do not change behaviour, so they must not change a verdict.  This pass rewrites each module's syntax tree -
before the program model is built - so that the rules see through such edits:

  K  new module/class constants bound once to a literal are substituted at their uses
  H  calls to new, non-recursive helper functions/methods are replaced by the helper's body (parameters bound to
     the arguments, `return` turned into assignment by nesting the continuation)
  T  new single-definition temporaries are replaced by their defining expression where that is order-safe
     (reaching-definition check on the CFG)
  I  `x = a if c else b` / `return a if c else b` (and the tuple-index spelling `x = (b, a)[c]` of literals) are
     rewritten as if statements

"New" means: not in sa/baseline_symbols.json (tools/gen_baseline_symbols.py), the symbol table of the tree the
rules were confirmed on.  Baseline symbols are never touched, so on the baseline tree only I applies.  Every
rewrite preserves behaviour by construction; when a precondition is not met the construct is left alone (and a
rule that needed to see through it reports ANALYSIS-ERROR or a violation as before).
"""
import ast
import copy
import json
import os

BASELINE_PATH = os.path.join(os.path.dirname(os.path.abspath(__file__)), "baseline_symbols.json")
BASELINE_SRC_PATH = os.path.join(os.path.dirname(os.path.abspath(__file__)), "baseline_src.json")

PURE_BUILTINS = {"isinstance", "len", "int", "abs", "min", "max", "str", "repr", "getattr", "tuple", "callable", "divmod", "sorted",
                 "bool", "float", "list", "set", "frozenset", "dict", "range", "enumerate", "zip", "hasattr", "type", "sum", "any", "all",
                 "text_type", "iter"}
PURE_METHODS = {"split", "rsplit", "strip", "rstrip", "lstrip", "lower", "upper", "find", "rfind", "startswith", "endswith", "join", "get",
                "count", "index", "format", "isdigit", "isalpha", "isspace", "keys", "values", "items", "copy", "replace", "total_seconds",
                "toordinal", "weekday", "isoweekday", "isocalendar", "timetuple", "utcoffset", "dst", "tzname", "date", "time", "locked",
                "group", "fromordinal", "fromtimestamp", "utcfromtimestamp", "timedelta", "datetime", "isleap"}


def load_baseline():
    try:
        with open(BASELINE_PATH) as fh:
            return json.load(fh)
    except IOError:
        return None


# ------------------------------------------------------------------ helpers
def own_nodes(fnode):
    stack = list(fnode.body)
    while stack:
        n = stack.pop()
        yield n
        if isinstance(n, (ast.FunctionDef, ast.AsyncFunctionDef, ast.ClassDef, ast.Lambda)):
            continue
        stack.extend(ast.iter_child_nodes(n))


def local_names(fnode):
    """Parameters and every name bound in the function's own scope."""
    a = fnode.args
    out = set(x.arg for x in a.posonlyargs + a.args + a.kwonlyargs)
    if a.vararg:
        out.add(a.vararg.arg)
    if a.kwarg:
        out.add(a.kwarg.arg)
    for n in own_nodes(fnode):
        if isinstance(n, ast.Name) and isinstance(n.ctx, (ast.Store, ast.Del)):
            out.add(n.id)
        elif isinstance(n, ast.ExceptHandler) and n.name:
            out.add(n.name)
        elif isinstance(n, (ast.Import, ast.ImportFrom)):
            for al in n.names:
                out.add((al.asname or al.name).split(".")[0])
        elif isinstance(n, (ast.FunctionDef, ast.ClassDef)):
            out.add(n.name)
    return out


def symbols_of(tree, modname):
    """Symbol table of one module: top-level names, class members, locals per function qualname."""
    top, classes, locs, params = set(), {}, {}, {}

    def visit(body, prefix, cls, in_func):
        for st in body:
            if isinstance(st, (ast.FunctionDef, ast.AsyncFunctionDef)):
                q = prefix + "." + st.name
                if cls is not None:
                    classes[cls].add(st.name)
                elif not in_func:
                    top.add(st.name)
                locs.setdefault(q, set()).update(local_names(st))
                a = st.args
                params[q] = [x.arg for x in a.posonlyargs + a.args + a.kwonlyargs] + ([a.vararg.arg] if a.vararg else []) + ([a.kwarg.arg] if a.kwarg else [])
                visit(st.body, q, None, True)
            elif isinstance(st, ast.ClassDef):
                q = prefix + "." + st.name
                if cls is None and not in_func:
                    top.add(st.name)
                classes.setdefault(q, set())
                visit(st.body, q, q, in_func)
            elif isinstance(st, (ast.Assign, ast.AnnAssign, ast.AugAssign)):
                tg = st.targets if isinstance(st, ast.Assign) else [st.target]
                for t in tg:
                    for x in ast.walk(t):
                        if isinstance(x, ast.Name):
                            if cls is not None:
                                classes[cls].add(x.id)
                            elif not in_func:
                                top.add(x.id)
            elif isinstance(st, (ast.Import, ast.ImportFrom)):
                if cls is None and not in_func:
                    for al in st.names:
                        top.add((al.asname or al.name).split(".")[0])
            elif isinstance(st, (ast.If, ast.Try, ast.With, ast.For, ast.While)):
                for fld in ("body", "orelse", "finalbody"):
                    sub = getattr(st, fld, None)
                    if sub:
                        visit(sub, prefix, cls, in_func)
                for h in getattr(st, "handlers", []):
                    visit(h.body, prefix, cls, in_func)
    visit(tree.body, modname, None, False)
    return {"top": sorted(top), "classes": {k: sorted(v) for k, v in classes.items()}, "locals": {k: sorted(v) for k, v in locs.items()}, "params": params}


_BASE = []


def baseline_locals(qualname):
    """(locals minus parameters) of a baseline function, or None when the function is not in the baseline."""
    if not _BASE:
        _BASE.append(load_baseline() or {})
    for m in _BASE[0].values():
        if qualname in m.get("locals", {}):
            return set(m["locals"][qualname]) - set(m.get("params", {}).get(qualname, []))
    return None


def shape(text, wild):
    """`text` with every identifier in `wild` replaced by `_` (local names do not matter to a construct key)."""
    try:
        tree = ast.parse(text)
    except SyntaxError:
        return text

    class R(ast.NodeTransformer):
        def visit_Name(self, n):
            if n.id in wild:
                return ast.copy_location(ast.Name(id="_", ctx=n.ctx), n)
            return n
    return ast.unparse(R().visit(tree))


def is_literal(e, names=False):
    if isinstance(e, ast.Constant):
        return True
    if names and isinstance(e, (ast.Tuple, ast.List)) and e.elts and all(isinstance(x, ast.Name) or (isinstance(x, ast.Attribute) and isinstance(x.value, ast.Name)) for x in e.elts):
        return True         # a tuple of module-level names (classes for isinstance, functions)
    if isinstance(e, (ast.Tuple, ast.List, ast.Set)):
        return all(is_literal(x) for x in e.elts)
    if isinstance(e, ast.Dict):
        return all(k is not None and is_literal(k) and is_literal(v) for k, v in zip(e.keys, e.values))
    if isinstance(e, ast.UnaryOp) and isinstance(e.op, (ast.USub, ast.UAdd)):
        return is_literal(e.operand)
    if isinstance(e, ast.Call) and isinstance(e.func, ast.Name) and e.func.id in ("frozenset", "set", "tuple", "list") \
            and len(e.args) == 1 and not e.keywords:
        return is_literal(e.args[0]) and isinstance(e.args[0], (ast.Tuple, ast.List, ast.Set))
    return False


def literal_node(e):
    """The literal to put at a use site (frozenset((a, b)) reads as the set display {a, b})."""
    e = copy.deepcopy(e)
    if isinstance(e, ast.Call):
        inner = e.args[0]
        if e.func.id in ("frozenset", "set"):
            return ast.Set(elts=inner.elts)
        if e.func.id == "tuple":
            return ast.Tuple(elts=inner.elts, ctx=ast.Load())
        return ast.List(elts=inner.elts, ctx=ast.Load())
    return e


def contains_return(st):
    for n in [st] + list(own_nodes_stmt(st)):
        if isinstance(n, ast.Return):
            return True
    return False


def own_nodes_stmt(st):
    stack = list(ast.iter_child_nodes(st))
    while stack:
        n = stack.pop()
        yield n
        if isinstance(n, (ast.FunctionDef, ast.AsyncFunctionDef, ast.ClassDef, ast.Lambda)):
            continue
        stack.extend(ast.iter_child_nodes(n))


class NotInlinable(Exception):
    pass


def simple_arg(e):
    """Name / constant / attribute chain: can stand in for a parameter directly."""
    if isinstance(e, (ast.Name, ast.Constant)):
        return True
    if isinstance(e, ast.Attribute):
        return simple_arg(e.value)
    return False


class _Subst(ast.NodeTransformer):
    def __init__(self, mapping, rename):
        self.mapping = mapping      # name -> expression (Load uses)
        self.rename = rename        # name -> new name (all uses)

    def visit_Name(self, n):
        if n.id in self.mapping and isinstance(n.ctx, ast.Load):
            return copy.deepcopy(self.mapping[n.id])
        if n.id in self.rename:
            return ast.copy_location(ast.Name(id=self.rename[n.id], ctx=n.ctx), n)
        return n

    def visit_ExceptHandler(self, n):
        if n.name in self.rename:
            n.name = self.rename[n.name]
        self.generic_visit(n)
        return n


def eliminate_returns(stmts, make_result):
    """Rewrite a statement list whose `return e` become `make_result(e)`, keeping control flow by moving the
    continuation of an `if` that returns into its non-returning branches.  -> (stmts, may_fall_through)"""
    out = []
    for i, st in enumerate(stmts):
        if isinstance(st, ast.Return):
            out.extend(make_result(st.value, st))
            return out, False
        if isinstance(st, ast.Raise):
            out.append(st)
            return out, False
        if isinstance(st, ast.If) and contains_return(st):
            rest = stmts[i + 1:]
            body, bf = eliminate_returns(st.body, make_result)
            orelse, of = eliminate_returns(st.orelse, make_result)
            ft = bf or of
            if rest and (bf or of):
                rest_new, rf = eliminate_returns(rest, make_result)
                if bf:
                    body = body + rest_new
                if of:
                    orelse = orelse + (copy.deepcopy(rest_new) if bf else rest_new)
                ft = rf
            new = ast.copy_location(ast.If(test=st.test, body=body or [ast.copy_location(ast.Pass(), st)], orelse=orelse), st)
            out.append(new)
            return out, ft
        rest_ = stmts[i + 1:]
        tail_only = not rest_ or (len(rest_) == 1 and isinstance(rest_[0], ast.Return) and rest_[0].value is None)
        if isinstance(st, ast.Try) and contains_return(st) and tail_only and not st.finalbody \
                and not any(isinstance(x, (ast.For, ast.While, ast.With, ast.Try)) and contains_return(x) for part in [st.body, st.orelse] + [h.body for h in st.handlers] for x in part):
            # the last statement: each part either returns (assignment) or falls through (result None)
            def part(body):
                new, ft = eliminate_returns(body, make_result)
                if ft:
                    new = new + make_result(None, st)
                return new or [ast.copy_location(ast.Pass(), st)]
            if st.orelse:
                raise NotInlinable("return in try with else")
            new_try = ast.copy_location(ast.Try(body=part(st.body), handlers=[ast.copy_location(ast.ExceptHandler(type=h.type, name=h.name, body=part(h.body)), h) for h in st.handlers],
                                                orelse=[], finalbody=[]), st)
            out.append(new_try)
            return out, False
        if contains_return(st):
            raise NotInlinable("return inside a loop / try / with")
        out.append(st)
    return out, True


class ModuleCanon(object):
    def __init__(self, name, tree, base, log):
        self.name = name
        self.tree = tree
        self.base = base or {"top": [], "classes": {}, "locals": {}, "params": {}}
        self.log = log
        self.counter = 0

    # ------------------------------------------------------------ structure
    def functions(self):
        """[(qualname, FunctionDef, class qualname|None, ClassDef|None)] for all defs (incl. nested)."""
        out = []

        def visit(body, prefix, cls, clsnode):
            for st in body:
                if isinstance(st, (ast.FunctionDef, ast.AsyncFunctionDef)):
                    q = prefix + "." + st.name
                    out.append((q, st, cls, clsnode))
                    visit(st.body, q, None, None)
                elif isinstance(st, ast.ClassDef):
                    q = prefix + "." + st.name
                    visit(st.body, q, q, st)
                elif isinstance(st, (ast.If, ast.Try, ast.With, ast.For, ast.While)):
                    for fld in ("body", "orelse", "finalbody"):
                        sub = getattr(st, fld, None)
                        if sub:
                            visit(sub, prefix, cls, clsnode)
                    for h in getattr(st, "handlers", []):
                        visit(h.body, prefix, cls, clsnode)
        visit(self.tree.body, self.name, None, None)
        return out

    def run(self):
        self.subst_constants()
        inlined = self.inline_expression_helpers()
        for _ in range(3):
            if not self.inline_helpers():
                break
            inlined = True
        if inlined:
            self.drop_inlined_helpers()
        self.getattr_constants()
        self.inline_temps()
        self.ifexp_to_if()
        self.lock_blocks()
        ast.fix_missing_locations(self.tree)

    # ------------------------------------------------------------ G: getattr(x, "name") is x.name
    def getattr_constants(self):
        log = self.log
        name = self.name

        class G(ast.NodeTransformer):
            def visit_Call(s, n):
                s.generic_visit(n)
                if isinstance(n.func, ast.Name) and n.func.id == "getattr" and len(n.args) == 2 and not n.keywords and isinstance(n.args[1], ast.Constant) \
                        and isinstance(n.args[1].value, str) and n.args[1].value.isidentifier() and not n.args[1].value.startswith("__"):
                    log.append(("G", name, "getattr(_, %r)" % n.args[1].value))
                    return ast.copy_location(ast.Attribute(value=n.args[0], attr=n.args[1].value, ctx=ast.Load()), n)
                return n
        for q, fn, cls, clsnode in self.functions():
            if any(isinstance(x, ast.Name) and x.id == "getattr" for x in own_nodes(fn)):
                G().visit(fn)

    # ------------------------------------------------------------ HE: new helpers that are one expression
    @staticmethod
    def _pure_simple(e, allowed_calls=("getattr", "isinstance", "len", "abs", "int", "min", "max", "bool")):
        for x in ast.walk(e):
            if isinstance(x, ast.Call):
                if not (isinstance(x.func, ast.Name) and x.func.id in allowed_calls) or x.keywords or any(isinstance(a, ast.Starred) for a in x.args):
                    return False
            elif isinstance(x, (ast.Lambda, ast.ListComp, ast.SetComp, ast.DictComp, ast.GeneratorExp, ast.Yield, ast.YieldFrom, ast.Await, ast.NamedExpr,
                                ast.List, ast.Dict, ast.Set, ast.Starred)):
                return False
        return True

    def as_expression(self, helper):
        """The helper as a single expression over its parameters, or None: pure single assignments of temporaries followed by
        a tail of `if T: return A` ... `return B`."""
        body = list(helper.body)
        if body and isinstance(body[0], ast.Expr) and isinstance(body[0].value, ast.Constant) and isinstance(body[0].value.value, str):
            body = body[1:]
        params = set(a.arg for a in helper.args.posonlyargs + helper.args.args)
        env = {}

        def sub(e):
            return _Subst(dict(env), {}).visit(copy.deepcopy(e))

        def tail(stmts):
            if not stmts:
                return None
            st = stmts[0]
            if isinstance(st, ast.Return):
                if st.value is None or not self._pure_simple(st.value):
                    return None
                return sub(st.value)
            if isinstance(st, ast.If) and self._pure_simple(st.test):
                a = tail(st.body)
                b = tail(st.orelse) if st.orelse else tail(stmts[1:])
                if a is None or b is None:
                    return None
                return ast.IfExp(test=sub(st.test), body=a, orelse=b)
            return None
        i = 0
        while i < len(body) and isinstance(body[i], ast.Assign):
            st = body[i]
            if len(st.targets) != 1 or not isinstance(st.targets[0], ast.Name) or st.targets[0].id in params or st.targets[0].id in env \
                    or not self._pure_simple(st.value):
                return None
            env[st.targets[0].id] = sub(st.value)
            i += 1
        for n in own_nodes(helper):
            if isinstance(n, ast.Name) and isinstance(n.ctx, (ast.Store, ast.Del)) and n.id not in env:
                return None
        e = tail(body[i:])
        if e is None or sum(1 for _ in ast.walk(e)) > 120:
            return None
        return e

    def inline_expression_helpers(self):
        helpers = self.new_helpers()
        exprs = {}
        for key, fn in helpers.items():
            e = self.as_expression(fn)
            if e is not None:
                exprs[key] = (fn, e)
        if not exprs:
            return False
        changed = [False]
        me = self

        for q, fn, cls, clsnode in self.functions():
            owner = cls
            if owner is None:
                for cq in self.base["classes"]:
                    if q.startswith(cq + "."):
                        owner = cq
            if any(fn is h for h, _ in exprs.values()):
                continue

            class R(ast.NodeTransformer):
                def visit_Call(s, n):
                    s.generic_visit(n)
                    key = me.match_call(n, owner, dict((k, v[0]) for k, v in exprs.items()))
                    if key is None:
                        return n
                    helper, e = exprs[key]
                    hargs = helper.args
                    params = [a.arg for a in hargs.posonlyargs + hargs.args]
                    binding = {}
                    if isinstance(n.func, ast.Attribute):
                        if not params:
                            return n
                        binding[params[0]] = ast.Name(id="self", ctx=ast.Load())
                        params = params[1:]
                    if n.keywords and any(kw.arg is None or kw.arg not in params for kw in n.keywords):
                        return n
                    if any(isinstance(a, ast.Starred) for a in n.args) or len(n.args) > len(params):
                        return n
                    for p_, a in zip(params, n.args):
                        binding[p_] = a
                    for kw in n.keywords:
                        if kw.arg in binding:
                            return n
                        binding[kw.arg] = kw.value
                    defaults = dict(zip([a.arg for a in (hargs.posonlyargs + hargs.args)][-len(hargs.defaults):] if hargs.defaults else [], hargs.defaults))
                    for p_ in params:
                        if p_ not in binding:
                            if p_ not in defaults:
                                return n
                            binding[p_] = defaults[p_]
                    if not all(simple_arg(a) for a in binding.values()):
                        return n
                    me.log.append(("HE", q, ast.unparse(n.func)))
                    changed[0] = True
                    return ast.copy_location(_Subst(binding, {}).visit(copy.deepcopy(e)), n)
            for st in fn.body:
                R().visit(st)
        return changed[0]

    # ------------------------------------------------------------ K: constants
    def subst_constants(self):
        top = set(self.base["top"])
        # module level
        cands = {}
        stores = {}
        for n in ast.walk(self.tree):
            if isinstance(n, ast.Name) and isinstance(n.ctx, (ast.Store, ast.Del)):
                stores[n.id] = stores.get(n.id, 0) + 1
            if isinstance(n, ast.Global):
                for g in n.names:
                    stores[g] = stores.get(g, 0) + 2
        for st in self.tree.body:
            if isinstance(st, ast.Assign) and len(st.targets) == 1 and isinstance(st.targets[0], ast.Name):
                nm = st.targets[0].id
                if nm not in top and is_literal(st.value, names=True) and stores.get(nm, 0) == 1 and not nm.startswith("__"):
                    if not is_literal(st.value):
                        # the referenced names must be bound exactly once at module level, before any function runs
                        refs = [x.id if isinstance(x, ast.Name) else x.value.id for x in st.value.elts]
                        if any(stores.get(r, 0) > 1 for r in refs):
                            continue
                    cands[nm] = st.value
        # never substitute a container that is mutated through a method or a subscript store
        for n in ast.walk(self.tree):
            if isinstance(n, ast.Subscript) and isinstance(n.ctx, (ast.Store, ast.Del)) and isinstance(n.value, ast.Name):
                cands.pop(n.value.id, None)
            if isinstance(n, ast.Call) and isinstance(n.func, ast.Attribute) and isinstance(n.func.value, ast.Name) \
                    and n.func.attr in ("append", "extend", "insert", "pop", "remove", "clear", "sort", "reverse", "update", "add",
                                        "discard", "setdefault", "popitem"):
                cands.pop(n.func.value.id, None)
        if cands:
            for q, fn, cls, clsnode in self.functions():
                loc = local_names(fn)
                use = dict((k, v) for k, v in cands.items() if k not in loc)
                if not use:
                    continue

                class T(ast.NodeTransformer):
                    def visit_Name(s, n):
                        if isinstance(n.ctx, ast.Load) and n.id in use:
                            self.log.append(("K", q, n.id))
                            return ast.copy_location(literal_node(use[n.id]), n)
                        return n
                for i, st in enumerate(fn.body):
                    fn.body[i] = T().visit(st)
        # class level
        for q, fn, cls, clsnode in self.functions():
            if clsnode is None:
                continue
            known = set(self.base["classes"].get(cls, []))
            if cls not in self.base["classes"]:
                continue
            ccands = {}
            for st in clsnode.body:
                if isinstance(st, ast.Assign) and len(st.targets) == 1 and isinstance(st.targets[0], ast.Name):
                    nm = st.targets[0].id
                    if nm not in known and is_literal(st.value) and isinstance(st.value, (ast.Constant, ast.Tuple, ast.Call)):
                        ccands[nm] = st.value
            if not ccands:
                continue
            # not assigned through self anywhere in the module
            for n in ast.walk(self.tree):
                if isinstance(n, ast.Attribute) and isinstance(n.ctx, (ast.Store, ast.Del)):
                    ccands.pop(n.attr, None)
            cname = clsnode.name

            class T2(ast.NodeTransformer):
                def visit_Attribute(s, n):
                    if isinstance(n.ctx, ast.Load) and n.attr in ccands and isinstance(n.value, ast.Name) and n.value.id in ("self", "cls", cname):
                        self.log.append(("K", q, n.attr))
                        return ast.copy_location(literal_node(ccands[n.attr]), n)
                    s.generic_visit(n)
                    return n
            for i, st in enumerate(fn.body):
                fn.body[i] = T2().visit(st)

    # ------------------------------------------------------------ H: helpers
    def new_helpers(self):
        """{('func', name) | ('meth', class qualname, name): FunctionDef} of inlinable new helpers."""
        out = {}
        top = set(self.base["top"])
        for q, fn, cls, clsnode in self.functions():
            if cls is None and q.count(".") != self.name.count(".") + 1:
                continue    # nested functions are not helpers (methods of nested classes are)
            if cls is not None:
                if cls not in self.base["classes"] or fn.name in self.base["classes"][cls]:
                    continue
                key = ("meth", cls, fn.name)
            else:
                if fn.name in top:
                    continue
                key = ("func", fn.name)
            if self.inlinable(fn, key):
                out[key] = fn
        return out

    def drop_inlined_helpers(self):
        """A new private helper whose every use was replaced by its body is no longer part of the program under analysis."""
        used = {}
        for n in ast.walk(self.tree):
            if isinstance(n, ast.Name) and isinstance(n.ctx, ast.Load):
                used[n.id] = used.get(n.id, 0) + 1
            elif isinstance(n, ast.Attribute):
                used[n.attr] = used.get(n.attr, 0) + 1
        done = set(h for k, q, h in self.log if k == "H")
        for key, fn in list(self.new_helpers().items()):
            name = fn.name
            if not name.startswith("_") or used.get(name, 0) > 0:
                continue
            if not any(h.split(".")[-1] == name for h in done):
                continue

            def strip(body):
                for i, st in enumerate(list(body)):
                    if st is fn:
                        body.remove(st)
                        if not body:
                            body.append(ast.Pass())
                        return True
                    if isinstance(st, (ast.ClassDef, ast.FunctionDef, ast.If, ast.Try)):
                        for fld in ("body", "orelse", "finalbody"):
                            sub = getattr(st, fld, None)
                            if isinstance(sub, list) and strip(sub):
                                return True
                return False
            if strip(self.tree.body):
                self.log.append(("H-drop", self.name + "." + name, name))

    def inlinable(self, fn, key):
        if fn.decorator_list or isinstance(fn, ast.AsyncFunctionDef):
            return False
        a = fn.args
        if a.vararg or a.kwarg or a.kwonlyargs:
            return False
        if fn.name.startswith("__") and fn.name.endswith("__"):
            return False
        for n in own_nodes(fn):
            if isinstance(n, (ast.Yield, ast.YieldFrom, ast.Await, ast.Global, ast.Nonlocal, ast.FunctionDef, ast.ClassDef, ast.AsyncFunctionDef)):
                return False
            if isinstance(n, ast.Call):
                f = n.func
                if key[0] == "func" and isinstance(f, ast.Name) and f.id == fn.name:
                    return False
                if key[0] == "meth" and isinstance(f, ast.Attribute) and f.attr == fn.name:
                    return False
        return True

    def match_call(self, call, cls, helpers):
        f = call.func
        if isinstance(f, ast.Name) and ("func", f.id) in helpers:
            return ("func", f.id)
        if cls is not None and isinstance(f, ast.Attribute) and isinstance(f.value, ast.Name) and f.value.id == "self" \
                and ("meth", cls, f.attr) in helpers:
            return ("meth", cls, f.attr)
        return None

    def inline_helpers(self):
        helpers = self.new_helpers()
        if not helpers:
            return False
        changed = False
        for q, fn, cls, clsnode in self.functions():
            owner = cls
            if owner is None:
                # methods' nested functions: find the enclosing class by qualname prefix
                for cq in self.base["classes"]:
                    if q.startswith(cq + "."):
                        owner = cq
            if any(fn is h for h in helpers.values()):
                continue
            if self._inline_in_body(fn, fn.body, q, owner, helpers):
                changed = True
        return changed

    def _inline_in_body(self, fn, body, q, cls, helpers):
        changed = False
        i = 0
        while i < len(body):
            st = body[i]
            # nested statement lists first
            for fld in ("body", "orelse", "finalbody"):
                sub = getattr(st, fld, None)
                if isinstance(sub, list) and sub and not isinstance(st, (ast.FunctionDef, ast.ClassDef, ast.AsyncFunctionDef)):
                    if self._inline_in_body(fn, sub, q, cls, helpers):
                        changed = True
            for h in getattr(st, "handlers", []) or []:
                if self._inline_in_body(fn, h.body, q, cls, helpers):
                    changed = True
            new = self._inline_stmt(fn, st, q, cls, helpers)
            if new is not None:
                body[i:i + 1] = new
                changed = True
                # re-scan the replacement (hoisted temporaries become plain `t = helper()` statements)
                continue
            i += 1
        return changed

    def _header_exprs(self, st):
        """(holder, field) pairs of the expressions a statement evaluates before any nested block."""
        if isinstance(st, (ast.Assign, ast.AugAssign, ast.Return, ast.Expr, ast.AnnAssign)):
            return [(st, "value")] if getattr(st, "value", None) is not None else []
        if isinstance(st, ast.If):
            return [(st, "test")]
        if isinstance(st, (ast.For,)):
            return [(st, "iter")]
        return []

    def _first_evaluated_call(self, e, cls, helpers):
        """A helper call that evaluating `e` reaches unconditionally, before anything with an effect."""
        if isinstance(e, ast.Call):
            k = self.match_call(e, cls, helpers)
            if k is not None and all(simple_arg(a) or not any(isinstance(x, ast.Call) for x in ast.walk(a)) for a in e.args):
                return e
            # callee expression, then arguments left to right
            for sub in [e.func] + list(e.args) + [kw.value for kw in e.keywords]:
                r = self._first_evaluated_call(sub, cls, helpers)
                if r is not None:
                    return r
                if not self._effect_free(sub):
                    return None
            return None
        if isinstance(e, ast.UnaryOp):
            return self._first_evaluated_call(e.operand, cls, helpers)
        if isinstance(e, ast.BoolOp):
            return self._first_evaluated_call(e.values[0], cls, helpers)
        if isinstance(e, ast.Compare):
            for sub in [e.left] + e.comparators[:1]:
                r = self._first_evaluated_call(sub, cls, helpers)
                if r is not None:
                    return r
                if not self._effect_free(sub):
                    return None
            return None
        if isinstance(e, ast.BinOp):
            for sub in (e.left, e.right):
                r = self._first_evaluated_call(sub, cls, helpers)
                if r is not None:
                    return r
                if not self._effect_free(sub):
                    return None
            return None
        if isinstance(e, (ast.Attribute, ast.Subscript, ast.Starred)):
            return self._first_evaluated_call(e.value, cls, helpers)
        if isinstance(e, (ast.Tuple, ast.List)):
            for sub in e.elts:
                r = self._first_evaluated_call(sub, cls, helpers)
                if r is not None:
                    return r
                if not self._effect_free(sub):
                    return None
            return None
        if isinstance(e, ast.IfExp):
            return self._first_evaluated_call(e.test, cls, helpers)
        return None

    def _effect_free(self, e):
        for x in ast.walk(e):
            if isinstance(x, (ast.Call, ast.Yield, ast.YieldFrom, ast.Await, ast.NamedExpr)):
                return False
        return True

    def _inline_stmt(self, fn, st, q, cls, helpers):
        if isinstance(st, (ast.FunctionDef, ast.ClassDef, ast.AsyncFunctionDef)):
            return None
        # direct forms
        call = None
        form = None
        if isinstance(st, ast.Return) and isinstance(st.value, ast.Call) and self.match_call(st.value, cls, helpers):
            call, form = st.value, "return"
        elif isinstance(st, ast.Assign) and isinstance(st.value, ast.Call) and self.match_call(st.value, cls, helpers) and len(st.targets) == 1:
            call, form = st.value, "assign"
        elif isinstance(st, ast.Expr) and isinstance(st.value, ast.Call) and self.match_call(st.value, cls, helpers):
            call, form = st.value, "expr"
        if call is not None:
            try:
                new = self._expand(fn, st, call, form, helpers[self.match_call(call, cls, helpers)], q)
            except NotInlinable as e:
                self.log.append(("H-skip", q, "%s: %s" % (ast.unparse(call.func), e)))
                helpers.pop(self.match_call(call, cls, helpers), None)
                return None
            self.log.append(("H", q, ast.unparse(call.func)))
            return new
        # hoist a helper call out of a larger expression
        for holder, field in self._header_exprs(st):
            e = getattr(holder, field)
            c = self._first_evaluated_call(e, cls, helpers)
            if c is None or c is e:
                continue
            self.counter += 1
            tmp = "_h%d" % self.counter

            class R(ast.NodeTransformer):
                def visit(s, n):
                    if n is c:
                        return ast.copy_location(ast.Name(id=tmp, ctx=ast.Load()), n)
                    return s.generic_visit(n)
            setattr(holder, field, R().visit(e))
            pre = ast.copy_location(ast.Assign(targets=[ast.Name(id=tmp, ctx=ast.Store())], value=c), st)
            self.log.append(("H-hoist", q, ast.unparse(c.func)))
            return [pre, st]
        return None

    def _expand(self, fn, st, call, form, helper, q):
        hargs = helper.args
        params = [a.arg for a in hargs.posonlyargs + hargs.args]
        is_method = isinstance(call.func, ast.Attribute)
        binding = {}
        if is_method:
            if not params:
                raise NotInlinable("method without self")
            binding[params[0]] = ast.Name(id="self", ctx=ast.Load())
            params = params[1:]
        if any(isinstance(a, ast.Starred) for a in call.args) or any(kw.arg is None for kw in call.keywords):
            raise NotInlinable("star arguments")
        if len(call.args) > len(params):
            raise NotInlinable("too many arguments")
        for p, a in zip(params, call.args):
            binding[p] = a
        for kw in call.keywords:
            if kw.arg not in params or kw.arg in binding:
                raise NotInlinable("keyword mismatch")
            binding[kw.arg] = kw.value
        defaults = dict(zip([a.arg for a in (hargs.posonlyargs + hargs.args)][-len(hargs.defaults):] if hargs.defaults else [], hargs.defaults))
        for p in params:
            if p not in binding:
                if p not in defaults:
                    raise NotInlinable("missing argument %s" % p)
                binding[p] = defaults[p]
        body = copy.deepcopy(helper.body)
        if body and isinstance(body[0], ast.Expr) and isinstance(body[0].value, ast.Constant) and isinstance(body[0].value.value, str):
            body = body[1:]     # docstring
        hlocals = local_names(helper)
        stored = set()
        for n in own_nodes(helper):
            if isinstance(n, ast.Name) and isinstance(n.ctx, (ast.Store, ast.Del)):
                stored.add(n.id)
        caller_names = local_names(fn) | set(x.id for x in own_nodes(fn) if isinstance(x, ast.Name))
        mapping, rename, pre = {}, {}, []
        # result variable: `t = helper()` where every return is the same local -> that local *is* t
        result_local = None
        if form == "assign" and isinstance(st.targets[0], ast.Name):
            rets = [n for n in own_nodes(helper) if isinstance(n, ast.Return)]
            names = set(n.value.id if isinstance(n.value, ast.Name) else None for n in rets)
            if len(names) == 1 and None not in names:
                v = next(iter(names))
                if v in stored and v not in binding and (st.targets[0].id not in hlocals or st.targets[0].id == v):
                    result_local = v
                    rename[v] = st.targets[0].id
        for p, a in binding.items():
            if p not in stored and simple_arg(a):
                mapping[p] = a
            elif isinstance(a, ast.Name) and a.id not in hlocals - {p} and self._dead_after(fn, st, a.id, q):
                # the helper works on its own copy of the argument; the caller never reads its variable again before
                # assigning it, so the copy can be the caller's variable itself
                rename[p] = a.id
            else:
                nm = p
                if nm in caller_names:
                    self.counter += 1
                    nm = "%s_%d" % (p, self.counter)
                    rename[p] = nm
                pre.append(ast.copy_location(ast.Assign(targets=[ast.Name(id=nm, ctx=ast.Store())], value=copy.deepcopy(a)), st))
        for v in sorted(hlocals - set(binding)):
            if v in rename:
                continue
            if v in caller_names:
                self.counter += 1
                rename[v] = "%s_%d" % (v, self.counter)
        sub = _Subst(mapping, rename)
        body = [sub.visit(s) for s in body]

        if form == "return":
            return pre + body + ([ast.copy_location(ast.Return(value=None), st)] if not body or not isinstance(body[-1], (ast.Return, ast.Raise)) else [])

        if form == "assign":
            tgt = st.targets[0]

            def make(value, at):
                if value is None:
                    value = ast.Constant(value=None)
                if result_local is not None and isinstance(value, ast.Name) and isinstance(tgt, ast.Name) and value.id == tgt.id:
                    return []
                if isinstance(tgt, (ast.Tuple, ast.List)) and isinstance(value, (ast.Tuple, ast.List)) and len(tgt.elts) == len(value.elts) \
                        and all(isinstance(t, ast.Name) for t in tgt.elts):
                    tnames = set(t.id for t in tgt.elts)
                    if not any(isinstance(x, ast.Name) and x.id in tnames for v_ in value.elts for x in ast.walk(v_)):
                        return [ast.copy_location(ast.Assign(targets=[copy.deepcopy(t)], value=v_), at) for t, v_ in zip(tgt.elts, value.elts)]
                return [ast.copy_location(ast.Assign(targets=[copy.deepcopy(tgt)], value=value), at)]
        else:
            def make(value, at):
                if value is None or not any(isinstance(x, ast.Call) for x in ast.walk(value)):
                    return []
                return [ast.copy_location(ast.Expr(value=value), at)]
        body = body + [ast.copy_location(ast.Return(value=None), st)]
        new, ft = eliminate_returns(body, make)
        return pre + new

    def _dead_after(self, fn, st, name, q):
        """On every path from statement `st` the caller's variable `name` is assigned before it is read (or never used)."""
        from .cfg import CFG
        try:
            cfg = CFG(fn, q)
        except Exception:
            return False
        starts = cfg.nodes_of(st)
        if len(starts) != 1:
            return False
        seen = set()
        stack = [s_ for s_, lab in starts[0].succ if lab != "exc"]
        while stack:
            n = stack.pop()
            if n.id in seen:
                continue
            seen.add(n.id)
            a = n.ast
            if a is not None and n.kind not in ("with_exit", "dispatch", "join"):
                probe = a
                if n.kind == "for":
                    if any(isinstance(x, ast.Name) and x.id == name for x in ast.walk(a.target)):
                        continue        # reassigned by the loop header
                    probe = None
                elif n.kind in ("with_enter",):
                    probe = ast.Tuple(elts=[it.context_expr for it in a.items], ctx=ast.Load())
                elif n.kind == "handler":
                    probe = None
                if probe is not None and not isinstance(probe, (ast.FunctionDef, ast.ClassDef)):
                    loads = any(isinstance(x, ast.Name) and x.id == name and isinstance(x.ctx, ast.Load) for x in ast.walk(probe))
                    if isinstance(probe, ast.AugAssign) and isinstance(probe.target, ast.Name) and probe.target.id == name:
                        loads = True
                    if loads:
                        return False
                    if any(isinstance(x, ast.Name) and x.id == name and isinstance(x.ctx, ast.Store) for x in ast.walk(probe)):
                        continue
                elif isinstance(probe, (ast.FunctionDef, ast.ClassDef)) and any(isinstance(x, ast.Name) and x.id == name for x in ast.walk(probe)):
                    return False
            for s_, lab in n.succ:
                stack.append(s_)
        return True

    # ------------------------------------------------------------ T: temporaries
    def inline_temps(self):
        from .cfg import CFG, Inliner
        for q, fn, cls, clsnode in self.functions():
            known = self.base["locals"].get(q)
            if known is None:
                continue        # a new function: nothing to compare with
            known = set(known)
            for _ in range(6):
                new = sorted(local_names(fn) - known)
                if not new:
                    break
                progress = False
                for t in new:
                    if self._inline_temp(fn, q, t, CFG, Inliner):
                        progress = True
                        break
                if not progress:
                    break

    def _inline_temp(self, fn, q, t, CFG, Inliner):
        a = fn.args
        if t in [x.arg for x in a.posonlyargs + a.args + a.kwonlyargs] or (a.vararg and a.vararg.arg == t) or (a.kwarg and a.kwarg.arg == t):
            return False
        defs, uses = [], []
        for n in ast.walk(fn):
            if isinstance(n, ast.Name) and n.id == t:
                (uses if isinstance(n.ctx, ast.Load) else defs).append(n)
        # nested scopes must not see it
        for n in own_nodes(fn):
            if isinstance(n, (ast.Lambda, ast.FunctionDef, ast.ListComp, ast.SetComp, ast.DictComp, ast.GeneratorExp)):
                if any(isinstance(x, ast.Name) and x.id == t for x in ast.walk(n)):
                    return False
        if len(defs) != 1 or not uses:
            return False
        dstmt = None
        for n in own_nodes(fn):
            if isinstance(n, ast.Assign) and len(n.targets) == 1 and n.targets[0] is defs[0]:
                dstmt = n
        if dstmt is None:
            return False
        val = dstmt.value
        try:
            cfg = CFG(fn, q)
        except Exception:
            return False
        inl = Inliner(cfg, params=[x.arg for x in a.posonlyargs + a.args + a.kwonlyargs])
        dnodes = cfg.nodes_of(dstmt)
        if len(dnodes) != 1:
            return False
        dn = dnodes[0]
        from .cfg import _pure as cfg_pure
        pure = cfg_pure(val)
        if isinstance(val, (ast.List, ast.Dict, ast.Set)) or (isinstance(val, ast.Call) and isinstance(val.func, ast.Name)
                                                                and val.func.id in ("list", "dict", "set", "sorted", "bytearray")):
            return False        # a fresh mutable object has identity: it is not a name for an expression
        # every use must see exactly this definition with unchanged inputs
        use_nodes = []
        for n in cfg.live_nodes():
            if n.ast is None or n is dn:
                continue
            if n.kind == "for":
                continue        # the loop's iterable is its own statement node
            root = n.ast
            if n.kind in ("with_enter", "with_exit", "dispatch", "handler"):
                if n.kind == "with_enter" and any(isinstance(x, ast.Name) and x.id == t for it in n.ast.items for x in ast.walk(it.context_expr)):
                    return False
                continue
            if isinstance(root, (ast.FunctionDef, ast.ClassDef)):
                continue
            cnt = sum(1 for x in ast.walk(root) if isinstance(x, ast.Name) and x.id == t and isinstance(x.ctx, ast.Load))
            if cnt:
                use_nodes.append((n, cnt))
        if sum(c for _, c in use_nodes) != len(uses):
            return False        # a use in a place the CFG does not model (decorator, default, ...)
        if pure:
            for n, _ in use_nodes:
                r = inl.definition(n, t)
                if r is None or r[1] is not dn:
                    return False
            from . import nf
            from .model import attr_chain
            plain_ref = isinstance(val, ast.Attribute) and attr_chain(val) is not None
            if nf.reads_heap(val):
                # a value read from the heap is the same value later only if nothing in between can change the heap
                for n, _ in use_nodes:
                    between = [m for m in cfg.reach([dn]) if m is not n and m is not dn and n in cfg.reach([m])]
                    for m in between:
                        a_ = m.ast
                        if a_ is None or isinstance(a_, (ast.FunctionDef, ast.ClassDef)):
                            continue
                        if m.kind in ("with_enter", "with_exit") or (m.kind == "for" and nf.has_impure(a_.iter)):
                            return False
                        probe = a_.iter if m.kind == "for" else a_
                        if plain_ref and isinstance(probe, ast.AST):
                            # an alias of `obj.attr`: only a re-binding of that attribute matters - an assignment to an
                            # attribute of that name, or a call of a method of the same object (which might assign it)
                            root = attr_chain(val)[0]
                            if any(isinstance(y, ast.Attribute) and y.attr == val.attr and isinstance(y.ctx, (ast.Store, ast.Del)) for y in ast.walk(probe)):
                                return False
                            if any(isinstance(y, ast.Call) and isinstance(y.func, ast.Attribute) and isinstance(y.func.value, ast.Name) and y.func.value.id == root
                                   and y.func.attr not in nf.PURE_METHODS for y in ast.walk(probe)):
                                return False
                            continue
                        if isinstance(probe, ast.AST) and (nf.has_impure(probe) or any(
                                isinstance(y, (ast.Attribute, ast.Subscript)) and isinstance(y.ctx, (ast.Store, ast.Del)) for y in ast.walk(probe))):
                            return False
        else:
            # an expression with calls: only a single use, evaluated first in the directly following statement
            if len(uses) != 1 or len(use_nodes) != 1:
                return False
            un = use_nodes[0][0]
            succ = [s for s, lab in dn.succ if lab != "exc"]
            if len(succ) != 1 or succ[0] is not un or len([p for p, lab in un.pred]) != 1:
                return False
            root = un.ast.iter if un.kind == "for" else un.ast
            if not self._evaluated_first(root, uses[0]):
                return False
        # rewrite
        me = self

        class T(ast.NodeTransformer):
            def visit_Name(s, n):
                if n.id == t and isinstance(n.ctx, ast.Load):
                    return ast.copy_location(copy.deepcopy(val), n)
                return n

        def strip(body):
            i = 0
            while i < len(body):
                st = body[i]
                if st is dstmt:
                    del body[i]
                    continue
                for fld in ("body", "orelse", "finalbody"):
                    sub = getattr(st, fld, None)
                    if isinstance(sub, list) and not isinstance(st, (ast.FunctionDef, ast.ClassDef)):
                        strip(sub)
                        if fld == "body" and not sub:
                            sub.append(ast.copy_location(ast.Pass(), st))
                for h in getattr(st, "handlers", []) or []:
                    strip(h.body)
                    if not h.body:
                        h.body.append(ast.copy_location(ast.Pass(), st))
                body[i] = T().visit(st) if not isinstance(st, (ast.FunctionDef, ast.ClassDef)) else st
                i += 1
        strip(fn.body)
        if not fn.body:
            fn.body.append(ast.Pass())
        self.log.append(("T", q, t))
        return True

    def _pure(self, e):
        for x in ast.walk(e):
            if isinstance(x, ast.Call):
                f = x.func
                if isinstance(f, ast.Name) and f.id in PURE_BUILTINS:
                    continue
                if isinstance(f, ast.Attribute) and f.attr in PURE_METHODS:
                    continue
                return False
            if isinstance(x, (ast.Yield, ast.YieldFrom, ast.Await, ast.NamedExpr, ast.Lambda, ast.ListComp, ast.SetComp, ast.DictComp, ast.GeneratorExp)):
                return False
        return True

    def _evaluated_first(self, root, use):
        """`use` is reached by evaluating `root` before anything with an effect."""
        e = root
        if isinstance(e, ast.stmt):
            if isinstance(e, (ast.Assign, ast.AugAssign, ast.Return, ast.Expr, ast.AnnAssign)):
                e = e.value
            else:
                return False
        while e is not None:
            if e is use:
                return True
            if isinstance(e, ast.Call):
                # func first, then args: the use may be the receiver or the first argument of a call chain
                cand = [e.func] + list(e.args)
                nxt = None
                for c in cand:
                    if any(x is use for x in ast.walk(c)):
                        nxt = c
                        break
                    if not self._effect_free(c):
                        return False
                e = nxt
            elif isinstance(e, (ast.Attribute, ast.Subscript, ast.Starred)):
                e = e.value
            elif isinstance(e, ast.UnaryOp):
                e = e.operand
            elif isinstance(e, ast.BinOp):
                if any(x is use for x in ast.walk(e.left)):
                    e = e.left
                elif self._effect_free(e.left):
                    e = e.right
                else:
                    return False
            elif isinstance(e, ast.Compare):
                if any(x is use for x in ast.walk(e.left)):
                    e = e.left
                elif self._effect_free(e.left) and any(x is use for x in ast.walk(e.comparators[0])):
                    e = e.comparators[0]
                else:
                    return False
            elif isinstance(e, ast.BoolOp):
                e = e.values[0]
            elif isinstance(e, (ast.Tuple, ast.List)):
                nxt = None
                for c in e.elts:
                    if any(x is use for x in ast.walk(c)):
                        nxt = c
                        break
                    if not self._effect_free(c):
                        return False
                e = nxt
            else:
                return False
        return False

    # ------------------------------------------------------------ L: lock blocks
    def lock_blocks(self):
        """`X.acquire()` directly followed by `try: BODY finally: X.release()` is `with X: BODY` (X a lock attribute)."""
        for q, fn, cls, clsnode in self.functions():
            self._lock_body(fn.body, q)

    def _lock_body(self, body, q):
        i = 0
        while i < len(body):
            st = body[i]
            if not isinstance(st, (ast.FunctionDef, ast.ClassDef, ast.AsyncFunctionDef)):
                for fld in ("body", "orelse", "finalbody"):
                    sub = getattr(st, fld, None)
                    if isinstance(sub, list):
                        self._lock_body(sub, q)
                for h in getattr(st, "handlers", []) or []:
                    self._lock_body(h.body, q)
            if i + 1 < len(body) and isinstance(st, ast.Expr) and isinstance(st.value, ast.Call) and isinstance(st.value.func, ast.Attribute) \
                    and st.value.func.attr == "acquire" and not st.value.args and not st.value.keywords \
                    and isinstance(st.value.func.value, ast.Attribute) and "lock" in st.value.func.value.attr.lower():
                nx = body[i + 1]
                lock = st.value.func.value
                if isinstance(nx, ast.Try) and not nx.handlers and not nx.orelse and len(nx.finalbody) == 1 \
                        and isinstance(nx.finalbody[0], ast.Expr) and isinstance(nx.finalbody[0].value, ast.Call) \
                        and ast.dump(nx.finalbody[0].value.func) == ast.dump(ast.Attribute(value=lock, attr="release", ctx=ast.Load())) \
                        and not nx.finalbody[0].value.args:
                    w = ast.copy_location(ast.With(items=[ast.withitem(context_expr=lock, optional_vars=None)], body=nx.body), st)
                    body[i:i + 2] = [w]
                    self.log.append(("L", q, ast.unparse(lock)))
                    continue
            i += 1

    # ------------------------------------------------------------ I: IfExp statements
    def ifexp_to_if(self):
        for q, fn, cls, clsnode in self.functions():
            self._ifexp_body(fn.body, q)

    def _ifexp_body(self, body, q):
        i = 0
        while i < len(body):
            st = body[i]
            if isinstance(st, (ast.FunctionDef, ast.ClassDef, ast.AsyncFunctionDef)):
                i += 1
                continue
            for fld in ("body", "orelse", "finalbody"):
                sub = getattr(st, fld, None)
                if isinstance(sub, list):
                    self._ifexp_body(sub, q)
            for h in getattr(st, "handlers", []) or []:
                self._ifexp_body(h.body, q)
            if isinstance(st, (ast.Assign, ast.Return)) and isinstance(st.value, ast.Subscript) and isinstance(st.value.value, ast.Tuple) \
                    and len(st.value.value.elts) == 2 and isinstance(st.value.slice, (ast.Compare, ast.BoolOp)) \
                    and all(is_literal(x) for x in st.value.value.elts):
                # (a, b)[cond]  ==  b if cond else a     (a, b literals: nothing else is evaluated)
                tv = st.value
                st.value = ast.copy_location(ast.IfExp(test=tv.slice, body=tv.value.elts[1], orelse=tv.value.elts[0]), tv)
            if isinstance(st, (ast.Assign, ast.Return)) and isinstance(st.value, ast.IfExp):
                ie = st.value
                if isinstance(st, ast.Assign) and not all(isinstance(t, (ast.Name, ast.Attribute, ast.Subscript)) for t in st.targets):
                    i += 1
                    continue

                def mk(v):
                    if isinstance(st, ast.Return):
                        return ast.copy_location(ast.Return(value=v), st)
                    return ast.copy_location(ast.Assign(targets=copy.deepcopy(st.targets), value=v), st)
                body[i] = ast.copy_location(ast.If(test=ie.test, body=[mk(ie.body)], orelse=[mk(ie.orelse)]), st)
                self.log.append(("I", q, ast.unparse(ie.test)[:40]))
                continue        # nested conditional expressions
            i += 1


def load_baseline_src():
    try:
        with open(BASELINE_SRC_PATH) as fh:
            return json.load(fh)
    except IOError:
        return None


def _defs_in(body, prefix, out):
    """(holder list, index, qualname) of every top-level function / method definition."""
    for i, st in enumerate(body):
        if isinstance(st, (ast.FunctionDef, ast.AsyncFunctionDef)):
            out.append((body, i, prefix + "." + st.name))
        elif isinstance(st, ast.ClassDef):
            _defs_in(st.body, prefix + "." + st.name, out)
        elif isinstance(st, (ast.If, ast.Try)):
            for fld in ("body", "orelse", "finalbody"):
                _defs_in(getattr(st, fld, []) or [], prefix, out)
            for h in getattr(st, "handlers", []):
                _defs_in(h.body, prefix, out)
    return out


def substitute_equivalent(modules, log):
    """For every function whose canonical syntax differs from the baseline's: if sa/equiv.py proves it equivalent, the
    baseline spelling (which the rule tables were confirmed on) is analysed in its place."""
    import textwrap
    from . import equiv
    store = load_baseline_src()
    if store is None:
        return
    from . import nf
    for name in sorted(modules):
        refs = store.get(name)
        if not refs:
            continue
        seen = {}
        try:
            pure_f, pure_m = equiv.infer_pure(modules[name].tree)
        except Exception:
            pure_f, pure_m = set(), {}
        for body, i, q in _defs_in(modules[name].tree.body, name, []):
            parts = q[len(name) + 1:].split(".")
            nf.EXTRA_PURE_FUNCS = set(pure_f)
            nf.EXTRA_PURE_SELF_METHODS = set(pure_m.get(parts[-2], set())) if len(parts) >= 2 else set()
            k = seen.get(q, 0)
            seen[q] = k + 1
            if q not in refs or k >= len(refs[q]):
                continue
            ref = refs[q][k]
            cur = body[i]
            try:
                # keep the text as it is (dedenting would change multi-line string literals): wrap it in a block instead
                text = ref["text"]
                btree = ast.parse("if True:\n" + text if text[:1] in (" ", "\t") else text)
            except SyntaxError:
                continue
            mc = ModuleCanon(name, btree, None, [])
            mc.ifexp_to_if()
            mc.lock_blocks()
            ast.fix_missing_locations(btree)
            base = btree.body[0].body[0] if text[:1] in (" ", "\t") else btree.body[0]
            if not isinstance(base, type(cur)):
                continue
            if ast.dump(base) == ast.dump(cur):
                continue
            import time as _time
            from . import summ as _summ
            ckey = _verdict_key(cur, base, nf.EXTRA_PURE_FUNCS, nf.EXTRA_PURE_SELF_METHODS)
            cached = _verdict_load(ckey)
            if cached is not None and not cached[0]:
                # (only negative verdicts are reused: a positive one is re-proven, it licenses a substitution)
                log.append((cached[2], q, cached[1]))
                continue
            _summ.DEADLINE[0] = _time.time() + equiv.PROOF_BUDGET_S
            try:
                ok, why = equiv.functions_equivalent(cur, base)
                if not ok and (nf.EXTRA_PURE_FUNCS or nf.EXTRA_PURE_SELF_METHODS):
                    # treating in-package pure callees as ordered call symbols instead proves other cases
                    saved_p = (nf.EXTRA_PURE_FUNCS, nf.EXTRA_PURE_SELF_METHODS)
                    nf.EXTRA_PURE_FUNCS, nf.EXTRA_PURE_SELF_METHODS = set(), set()
                    try:
                        ok, why = equiv.functions_equivalent(cur, base)
                    finally:
                        nf.EXTRA_PURE_FUNCS, nf.EXTRA_PURE_SELF_METHODS = saved_p
            except Exception as e:      # the prover failing means "not proven", never "equivalent"
                ok, why = False, "prover error: %r" % (e,)
            finally:
                _summ.DEADLINE[0] = None
            if ok:
                first = min([cur.lineno] + [d.lineno for d in cur.decorator_list])
                bfirst = min([base.lineno] + [d.lineno for d in base.decorator_list])
                ast.increment_lineno(base, first - bfirst)
                body[i] = base
                log.append(("E", q, why))
            else:
                _summ.DEADLINE[0] = _time.time() + equiv.PROOF_BUDGET_S / 2.0
                try:
                    lok, _ = equiv.functions_loosely_equivalent(cur, base)
                except Exception:
                    lok = False
                finally:
                    _summ.DEADLINE[0] = None
                log.append(("E~" if lok else "E-no", q, why if not lok else "tables agree (not a proof)"))
                _verdict_store(ckey, (False, log[-1][2], log[-1][0]))


def _verdict_key(cur, base, pure_f, pure_m):
    """Digest of everything a prover verdict depends on: both functions, the inferred purity sets, the prover's own source."""
    import hashlib
    h = hashlib.sha1()
    h.update(ast.dump(cur).encode())
    h.update(ast.dump(base).encode())
    h.update(repr((sorted(pure_f), sorted(pure_m))).encode())
    here = os.path.dirname(os.path.abspath(__file__))
    for fn in ("equiv.py", "nf.py", "summ.py", "canon.py", "linform.py"):
        try:
            st = os.stat(os.path.join(here, fn))
            h.update(("%s:%d:%d" % (fn, st.st_size, int(st.st_mtime))).encode())
        except OSError:
            pass
    h.update(os.environ.get("VERIF_PROOF_BUDGET", "").encode())
    return h.hexdigest()


def _verdict_dir():
    d = os.environ.get("VERIF_PROVER_CACHE")
    if d == "":
        return None
    return d or os.path.join(os.environ.get("TMPDIR", "/tmp"), "verif_prover_cache")


def _verdict_load(key):
    """An optional on-disk memo of *negative* prover verdicts (a scratch directory; nothing depends on it being there)."""
    d = _verdict_dir()
    if not d:
        return None
    try:
        import json
        with open(os.path.join(d, key + ".json")) as fh:
            v = json.load(fh)
        return (bool(v[0]), str(v[1]), str(v[2]))
    except (IOError, OSError, ValueError, IndexError):
        return None


def _verdict_store(key, val):
    d = _verdict_dir()
    if not d:
        return
    try:
        import json
        os.makedirs(d, exist_ok=True)
        tmp = os.path.join(d, "%s.%d.tmp" % (key, os.getpid()))
        with open(tmp, "w") as fh:
            json.dump(list(val), fh)
        os.replace(tmp, os.path.join(d, key + ".json"))
    except (IOError, OSError):
        pass


def canonicalise(modules, baseline=None):
    """modules: {name: Module}.  Rewrites each module's tree in place; returns the rewrite log."""
    baseline = baseline if baseline is not None else load_baseline()
    log = []
    if baseline is None:
        return log
    for name in sorted(modules):
        m = modules[name]
        ModuleCanon(name, m.tree, baseline.get(name), log).run()
    if os.environ.get("VERIF_NO_EQUIV") != "1":
        substitute_equivalent(modules, log)
    return log
