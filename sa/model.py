"""E0 - program model of /repo/src/dateutil built from source text only (ast).

Nothing from the repository is imported or executed.  The model gives every
analysis the same resolved view: modules, classes (with C3 MRO over in-package
classes), functions by qualified name, decorators, class-level aliases, import
aliases, private-name mangling and a callee resolver.
"""
import ast
import os
import hashlib

REPO = os.environ.get("VERIF_REPO", "/repo")
PKG_DIR = os.path.join(REPO, "src", "dateutil")

# parsed and indexed, but no rule about the public API takes instances from them
INACTIVE_MODULES = {"dateutil.tz.win", "dateutil.zoneinfo.rebuild", "dateutil.tzwin"}


class AnalysisError(Exception):
    """Anchor vanished / idiom not modelled / instance floor not met (exit 2)."""

    def __init__(self, rule, site, reason):
        Exception.__init__(self, "rule=%s site=%s reason=%s" % (rule, site, reason))
        self.rule = rule
        self.site = site
        self.reason = reason


def src(node):
    """Normalised source text of a node (whitespace/paren/quote independent)."""
    if node is None:
        return "None"
    if isinstance(node, list):
        return "; ".join(src(n) for n in node)
    try:
        return ast.unparse(node)
    except Exception:  # pragma: no cover
        return ast.dump(node)


def mangle(clsname, attr):
    if attr.startswith("__") and not attr.endswith("__"):
        return "_" + clsname.lstrip("_") + attr
    return attr


class FuncInfo(object):
    def __init__(self, qualname, node, module, cls, parent):
        self.qualname = qualname
        self.node = node
        self.module = module
        self.cls = cls              # ClassInfo when this is a method
        self.parent = parent        # enclosing FuncInfo for nested defs
        self.name = node.name if hasattr(node, "name") else "<lambda>"
        self.decorators = [src(d) for d in getattr(node, "decorator_list", [])]

    @property
    def params(self):
        a = self.node.args
        return [x.arg for x in a.posonlyargs + a.args + a.kwonlyargs]

    @property
    def positional_params(self):
        a = self.node.args
        return [x.arg for x in a.posonlyargs + a.args]

    @property
    def defaults(self):
        """param name -> default expression node (only for those with one)."""
        a = self.node.args
        pos = a.posonlyargs + a.args
        out = {}
        for p, d in zip(pos[len(pos) - len(a.defaults):], a.defaults):
            out[p.arg] = d
        for p, d in zip(a.kwonlyargs, a.kw_defaults):
            if d is not None:
                out[p.arg] = d
        return out

    @property
    def is_generator(self):
        for n in walk_local(self.node):
            if isinstance(n, (ast.Yield, ast.YieldFrom)):
                return True
        return False

    @property
    def site(self):
        return "%s:%d %s" % (self.module.relpath, self.node.lineno, self.qualname)

    def __repr__(self):
        return "<func %s>" % self.qualname


class ClassInfo(object):
    def __init__(self, qualname, node, module, parent_func):
        self.qualname = qualname
        self.node = node
        self.module = module
        self.name = node.name
        self.parent_func = parent_func
        self.methods = {}       # name -> FuncInfo (defined directly here)
        self.assigns = {}       # name -> value node (class-level assignments)
        self.aliases = {}       # name -> other name in the class body (x = y)
        self.base_exprs = [src(b) for b in node.bases]
        self.bases = []         # resolved: ClassInfo or str (opaque)
        self.metaclass = None   # ClassInfo or None
        self.decorators = [src(d) for d in node.decorator_list]
        self.nested = {}        # nested classes by name

    @property
    def site(self):
        return "%s:%d %s" % (self.module.relpath, self.node.lineno, self.qualname)

    def __repr__(self):
        return "<class %s>" % self.qualname


class Module(object):
    def __init__(self, name, path, relpath, text):
        self.name = name
        self.path = path
        self.relpath = relpath
        self.text = text
        self.tree = ast.parse(text, filename=path)
        self.functions = {}     # top-level function name -> FuncInfo (first def)
        self.classes = {}       # top-level class name -> ClassInfo
        self.assigns = {}       # module-level name -> value node (last wins)
        self.assign_nodes = []  # all module-level Assign/AugAssign/Delete in order
        self.imports = {}       # alias -> dotted target ("dateutil.tz", "six.moves._thread", ...)
        self.star_imports = []  # dotted module names imported with *
        self.active = name not in INACTIVE_MODULES

    def __repr__(self):
        return "<module %s>" % self.name


def walk_local(fnode):
    """Walk a function's own body, not descending into nested defs/classes/lambdas."""
    stack = list(ast.iter_child_nodes(fnode))
    while stack:
        n = stack.pop()
        yield n
        if isinstance(n, (ast.FunctionDef, ast.AsyncFunctionDef, ast.ClassDef, ast.Lambda)):
            continue
        stack.extend(ast.iter_child_nodes(n))


def walk_stmts(stmts):
    """Walk statement lists (and everything in them), not entering nested defs."""
    stack = list(stmts)
    while stack:
        n = stack.pop()
        yield n
        if isinstance(n, (ast.FunctionDef, ast.AsyncFunctionDef, ast.ClassDef, ast.Lambda)):
            continue
        stack.extend(ast.iter_child_nodes(n))


class Program(object):
    def __init__(self, pkg_dir=None):
        self.pkg_dir = pkg_dir or PKG_DIR
        self.modules = {}
        self.functions = {}     # qualname -> FuncInfo
        self.classes = {}       # qualname -> ClassInfo
        self.duplicates = {}    # qualname -> [FuncInfo,...] for conditional re-definitions
        self._load()
        self._link()

    # ------------------------------------------------------------------ load
    def _load(self):
        if not os.path.isdir(self.pkg_dir):
            raise AnalysisError("E0", self.pkg_dir, "package directory not found")
        for root, dirs, files in sorted(os.walk(self.pkg_dir)):
            dirs.sort()
            for fn in sorted(files):
                if not fn.endswith(".py"):
                    continue
                path = os.path.join(root, fn)
                rel = os.path.relpath(path, os.path.dirname(os.path.dirname(self.pkg_dir)))
                modrel = os.path.relpath(path, os.path.dirname(self.pkg_dir))[:-3]
                parts = modrel.split(os.sep)
                if parts[-1] == "__init__":
                    parts = parts[:-1]
                name = ".".join(parts)
                with open(path, "r", encoding="utf-8") as fh:
                    text = fh.read()
                try:
                    m = Module(name, path, rel, text)
                except SyntaxError as e:
                    raise AnalysisError("E0", rel, "does not parse: %s" % e)
                self.modules[name] = m
        if "dateutil.rrule" not in self.modules:
            raise AnalysisError("E0", self.pkg_dir, "dateutil.rrule not found")
        self.canon_log = []
        if os.environ.get("VERIF_NO_CANON") != "1":
            from . import canon
            try:
                self.canon_log = canon.canonicalise(self.modules)
            except AnalysisError:
                raise
            except Exception as e:     # a canonicalisation bug must not pass silently
                raise AnalysisError("E0b", self.pkg_dir, "canonicalisation failed: %r" % (e,))
        for m in self.modules.values():
            self._index_module(m)

    def digest(self):
        h = hashlib.sha256()
        for name in sorted(self.modules):
            h.update(name.encode())
            h.update(self.modules[name].text.encode())
        return h.hexdigest()[:16]

    def _index_module(self, m):
        is_pkg = m.path.endswith("__init__.py")
        pkg = m.name if is_pkg else m.name.rsplit(".", 1)[0]

        def rel_target(level, module):
            if level == 0:
                return module or ""
            base = pkg.split(".")
            if level > 1:
                base = base[: -(level - 1)]
            return ".".join(base + ([module] if module else []))

        def index_imports(stmts_iter, table):
            for n in stmts_iter:
                if isinstance(n, ast.Import):
                    for a in n.names:
                        table[a.asname or a.name.split(".")[0]] = a.name if a.asname else a.name.split(".")[0]
                elif isinstance(n, ast.ImportFrom):
                    base = rel_target(n.level, n.module)
                    for a in n.names:
                        if a.name == "*":
                            m.star_imports.append(base)
                            continue
                        table[a.asname or a.name] = (base + "." + a.name) if base else a.name

        # imports anywhere in the module (incl. lazy in-function imports)
        index_imports(ast.walk(m.tree), m.imports)

        def visit_body(body, prefix, cls, func):
            for st in body:
                self._visit_stmt(st, m, prefix, cls, func, visit_body)

        visit_body(m.tree.body, m.name, None, None)

    def _visit_stmt(self, st, m, prefix, cls, func, visit_body):
        if isinstance(st, (ast.FunctionDef, ast.AsyncFunctionDef)):
            q = prefix + "." + st.name
            fi = FuncInfo(q, st, m, cls, func)
            if q in self.functions:
                self.duplicates.setdefault(q, [self.functions[q]]).append(fi)
            else:
                self.functions[q] = fi
                if cls is not None:
                    cls.methods[st.name] = fi
                elif func is None:
                    m.functions[st.name] = fi
            visit_body(st.body, q, None, fi)
        elif isinstance(st, ast.ClassDef):
            q = prefix + "." + st.name
            ci = ClassInfo(q, st, m, func)
            if q not in self.classes:
                self.classes[q] = ci
                if cls is not None:
                    cls.nested[st.name] = ci
                elif func is None:
                    m.classes[st.name] = ci
            visit_body(st.body, q, ci, func)
        elif isinstance(st, (ast.Assign, ast.AnnAssign, ast.AugAssign, ast.Delete)):
            if cls is not None and isinstance(st, ast.Assign):
                for t in st.targets:
                    if isinstance(t, ast.Name):
                        cls.assigns[t.id] = st.value
                        if isinstance(st.value, ast.Name):
                            cls.aliases[t.id] = st.value.id
            elif cls is None and func is None:
                m.assign_nodes.append(st)
                if isinstance(st, ast.Assign):
                    for t in st.targets:
                        for nm in _target_names(t):
                            m.assigns[nm] = st.value
        elif isinstance(st, (ast.If, ast.Try, ast.With, ast.For, ast.While)):
            # conditional definitions at module/class level (enfold, _get_supported_offset...)
            for fld in ("body", "orelse", "finalbody"):
                sub = getattr(st, fld, None)
                if sub:
                    visit_body(sub, prefix, cls, func)
            for h in getattr(st, "handlers", []):
                visit_body(h.body, prefix, cls, func)

    # ------------------------------------------------------------------ link
    def _link(self):
        for ci in self.classes.values():
            for b in ci.node.bases:
                ci.bases.append(self._resolve_class_expr(b, ci.module, ci) or src(b))
            for d in ci.node.decorator_list:
                # @six.add_metaclass(X)
                if isinstance(d, ast.Call) and src(d.func).endswith("add_metaclass") and d.args:
                    mc = self._resolve_class_expr(d.args[0], ci.module, ci)
                    if mc is not None:
                        ci.metaclass = mc
            for kw in ci.node.keywords:
                if kw.arg == "metaclass":
                    mc = self._resolve_class_expr(kw.value, ci.module, ci)
                    if mc is not None:
                        ci.metaclass = mc

    def _resolve_class_expr(self, expr, module, ctx_cls=None):
        """Resolve a Name/Attribute expression to an in-package ClassInfo (or None)."""
        dotted = src(expr)
        r = self.resolve_dotted(dotted, module, ctx_cls)
        return r if isinstance(r, ClassInfo) else None

    def resolve_dotted(self, dotted, module, ctx_cls=None, ctx_func=None):
        """Resolve 'a.b.c' seen in `module` to FuncInfo/ClassInfo/Module/('global', module, name) or None."""
        parts = dotted.split(".")
        head = parts[0]
        cur = None
        # lexical: enclosing function's nested defs / classes
        f = ctx_func
        while f is not None and cur is None:
            q = f.qualname + "." + head
            cur = self.functions.get(q) or self.classes.get(q)
            f = f.parent
        if cur is None and ctx_cls is not None and ctx_cls.parent_func is not None:
            f = ctx_cls.parent_func
            while f is not None and cur is None:
                q = f.qualname + "." + head
                cur = self.functions.get(q) or self.classes.get(q)
                f = f.parent
        if cur is None:
            cur = module.functions.get(head) or module.classes.get(head)
        if cur is None and head in module.imports:
            cur = self._resolve_import(module.imports[head])
        if cur is None and head in module.assigns:
            cur = ("global", module, head)
        if cur is None:
            return None
        for p in parts[1:]:
            if isinstance(cur, Module):
                nxt = cur.functions.get(p) or cur.classes.get(p)
                if nxt is None and p in cur.imports:
                    nxt = self._resolve_import(cur.imports[p])
                if nxt is None:
                    sub = self.modules.get(cur.name + "." + p)
                    nxt = sub
                if nxt is None and p in cur.assigns:
                    nxt = ("global", cur, p)
                if nxt is None:
                    for sm in cur.star_imports:
                        smod = self.modules.get(sm)
                        if smod is not None:
                            nxt = smod.functions.get(p) or smod.classes.get(p)
                            if nxt is None and p in smod.assigns:
                                nxt = ("global", smod, p)
                            if nxt is not None:
                                break
                cur = nxt
            elif isinstance(cur, ClassInfo):
                r = self.class_lookup(cur, p)
                cur = r[0] if r else None
            else:
                return None
            if cur is None:
                return None
        return cur

    def _resolve_import(self, target, depth=0):
        if target in self.modules:
            return self.modules[target]
        if "." in target and depth < 6:
            modname, attr = target.rsplit(".", 1)
            m = self.modules.get(modname)
            if m is not None:
                r = m.functions.get(attr) or m.classes.get(attr)
                if r is not None:
                    return r
                if attr in m.imports and m.imports[attr] != target:
                    return self._resolve_import(m.imports[attr], depth + 1)
                if attr in m.assigns:
                    return ("global", m, attr)
                for sm in m.star_imports:
                    r = self._resolve_import(sm + "." + attr, depth + 1)
                    if r is not None:
                        return r
        return None

    # ------------------------------------------------------------------- MRO
    def mro(self, ci):
        """C3 linearisation over in-package classes; opaque bases are strings."""
        def merge(seqs):
            res = []
            seqs = [list(s) for s in seqs if s]
            while seqs:
                for s in seqs:
                    cand = s[0]
                    if not any(cand in t[1:] for t in seqs):
                        break
                else:
                    raise AnalysisError("E0", ci.qualname, "inconsistent MRO")
                res.append(cand)
                seqs = [[x for x in t if x is not cand and x != cand] for t in seqs]
                seqs = [t for t in seqs if t]
            return res

        def lin(c):
            if not isinstance(c, ClassInfo):
                return [c]
            bases = c.bases or ["object"]
            return [c] + merge([lin(b) for b in bases] + [list(bases)])
        out = lin(ci)
        # de-duplicate opaque 'object'
        seen, res = set(), []
        for c in out:
            k = c.qualname if isinstance(c, ClassInfo) else c
            if k in seen:
                continue
            seen.add(k)
            res.append(c)
        return res

    def class_lookup(self, ci, name, _depth=0):
        """Find attribute `name` through the MRO.  Returns (FuncInfo|ast node|ClassInfo, owner) or None.
        Follows class-level aliases (x = y)."""
        for c in self.mro(ci):
            if not isinstance(c, ClassInfo):
                continue
            if name in c.methods and name not in c.assigns:
                return (c.methods[name], c)
            if name in c.assigns:
                # an assignment after a def of the same name overrides; aliases are followed
                if name in c.aliases and _depth < 5:
                    r = self.class_lookup(c, c.aliases[name], _depth + 1)
                    if r:
                        return r
                if name in c.methods:
                    # def then re-binding (property setter etc.): prefer the def
                    return (c.methods[name], c)
                return (c.assigns[name], c)
            if name in c.methods:
                return (c.methods[name], c)
            if name in c.nested:
                return (c.nested[name], c)
        return None

    def subclasses(self, ci):
        out = []
        for c in self.classes.values():
            if c is not ci and ci in [x for x in self.mro(c) if isinstance(x, ClassInfo)]:
                out.append(c)
        return out

    # --------------------------------------------------------------- anchors
    def func(self, qualname, rule="E0"):
        if not qualname.startswith("dateutil."):
            qualname = "dateutil." + qualname
        f = self.functions.get(qualname)
        if f is None:
            raise AnalysisError(rule, qualname, "anchor function not found")
        return f

    def cls(self, qualname, rule="E0"):
        if not qualname.startswith("dateutil."):
            qualname = "dateutil." + qualname
        c = self.classes.get(qualname)
        if c is None:
            raise AnalysisError(rule, qualname, "anchor class not found")
        return c

    def method(self, cls_qualname, name, rule="E0"):
        """Resolve a method through the MRO (follows aliases)."""
        c = self.cls(cls_qualname, rule)
        r = self.class_lookup(c, name)
        if r is None or not isinstance(r[0], FuncInfo):
            raise AnalysisError(rule, c.qualname + "." + name, "anchor method not found")
        return r[0]

    def module(self, name, rule="E0"):
        if not name.startswith("dateutil"):
            name = "dateutil." + name
        m = self.modules.get(name)
        if m is None:
            raise AnalysisError(rule, name, "anchor module not found")
        return m

    def active_functions(self):
        return [f for f in self.functions.values() if f.module.active]

    def site(self, module, node, qualname=""):
        return "%s:%d %s" % (module.relpath, getattr(node, "lineno", 0), qualname)


def _target_names(t):
    if isinstance(t, ast.Name):
        return [t.id]
    if isinstance(t, (ast.Tuple, ast.List)):
        out = []
        for e in t.elts:
            out.extend(_target_names(e))
        return out
    if isinstance(t, ast.Starred):
        return _target_names(t.value)
    return []


def target_names(t):
    return _target_names(t)


def attr_chain(node):
    """'self.a.b' -> ['self','a','b']; None when not a pure Name/Attribute chain."""
    parts = []
    while isinstance(node, ast.Attribute):
        parts.append(node.attr)
        node = node.value
    if isinstance(node, ast.Name):
        parts.append(node.id)
        return list(reversed(parts))
    return None


def call_name(call):
    """Dotted name of a call's callee, or None."""
    ch = attr_chain(call.func)
    return ".".join(ch) if ch else None


_PROGRAM = None


def program():
    global _PROGRAM
    if _PROGRAM is None:
        _PROGRAM = Program()
    return _PROGRAM
