"""E2 - exception-escape analysis: a may-raise effect system over the resolved call graph
with light type inference.  Sound with respect to the primitive-raiser table below.

Types are frozensets of tags: int float bool str bytes list tuple dict set none Decimal
datetime date time timedelta tzinfo callable obj:<class qualname> cls:<class qualname>
gen:<func qualname> unknown.
"""
import ast

from .model import src, walk_local, walk_stmts, FuncInfo, ClassInfo, Module, AnalysisError, mangle
from .cfg import expr_guards

# ------------------------------------------------------------------ exception hierarchy
PARENT = {
    "BaseException": None, "Exception": "BaseException", "ArithmeticError": "Exception", "OverflowError": "ArithmeticError",
    "ZeroDivisionError": "ArithmeticError", "FloatingPointError": "ArithmeticError",
    "decimal.DecimalException": "ArithmeticError", "decimal.InvalidOperation": "decimal.DecimalException",
    "AssertionError": "Exception", "AttributeError": "Exception", "LookupError": "Exception", "IndexError": "LookupError",
    "KeyError": "LookupError", "NameError": "Exception", "OSError": "Exception", "IOError": "OSError", "FileNotFoundError": "OSError",
    "RuntimeError": "Exception", "NotImplementedError": "RuntimeError", "StopIteration": "Exception", "TypeError": "Exception",
    "ValueError": "Exception", "UnicodeError": "ValueError", "UnicodeDecodeError": "UnicodeError", "UnicodeEncodeError": "UnicodeError",
    "calendar.IllegalMonthError": "ValueError", "struct.error": "Exception", "ImportError": "Exception", "WindowsError": "OSError",
    "tarfile.TarError": "Exception", "json.JSONDecodeError": "ValueError",
}
ALIASES = {"InvalidOperation": "decimal.InvalidOperation", "DecimalException": "decimal.DecimalException", "EnvironmentError": "OSError"}


def is_sub(a, b):
    a = ALIASES.get(a, a)
    b = ALIASES.get(b, b)
    seen = 0
    while a is not None and seen < 20:
        if a == b:
            return True
        a = PARENT.get(a)
        seen += 1
    return False


class Raise(object):
    __slots__ = ("exc", "site", "construct", "chain", "kind")

    def __init__(self, exc, site, construct, chain=(), kind="prim"):
        self.exc = exc
        self.site = site
        self.construct = construct
        self.chain = tuple(chain)
        self.kind = kind

    def key(self):
        return (self.exc, self.site, self.construct)

    def via(self, caller):
        return Raise(self.exc, self.site, self.construct, (caller,) + self.chain, self.kind)

    def __repr__(self):
        return "<%s at %s: %s>" % (self.exc, self.site, self.construct)


T = frozenset
UNKNOWN = T(["unknown"])
SEQ = {"list", "tuple", "str", "bytes"}
STR_METHODS_STR = {"lower", "upper", "strip", "rstrip", "lstrip", "replace", "join", "format", "ljust", "rjust", "decode", "title", "capitalize", "read", "strftime"}
STR_METHODS_LIST = {"split", "splitlines", "rsplit"}
STR_METHODS_BOOL = {"isdigit", "isalpha", "isspace", "startswith", "endswith", "isupper", "islower"}
DATETIME_TAGS = {"datetime", "date", "time", "timedelta"}


class Analyzer(object):
    def __init__(self, prog, seeds=None, suppress=None, user_callables=(), ctor_overflow=True):
        self.prog = prog
        self.ctor_overflow = ctor_overflow      # False: numeric fields are known to be short (<= 4 digits)
        self.param_types = {}       # (func qualname, param) -> type set
        self.seeds = seeds or {}
        for (q, p), t in self.seeds.items():
            self.param_types[(q, p)] = T(t)
        self.local_types = {}       # func qualname -> {name: type}
        self.attr_types = {}        # (class qualname, attr) -> type
        self.ret_types = {}         # func qualname -> type
        self.summaries = {}         # func qualname -> list[Raise]
        self.in_progress = set()
        self.suppress = suppress or {}      # (func qualname, construct) -> reason
        # the same keys with the function's local names wildcarded: renaming a local does not invalidate a justification
        from . import canon
        self.suppress_shapes = {}
        for key, reason in self.suppress.items():
            q, text = key[0], key[-1]
            wild = canon.baseline_locals(q)
            if wild is not None:
                self.suppress_shapes[key[:-1] + (canon.shape(text, wild),)] = (key, reason)
        self.used_suppressions = []
        self.user_callables = set(user_callables)   # (func qualname, name) params that are user-supplied callables/objects
        self.stats = {"calls": 0, "resolved": 0, "unresolved": 0, "functions": 0, "primitive_sites": 0}
        self.unresolved = {}
        self.changed = True
        self.flows = {}
        self.def_types = {}
        self._at = None

    # ================================================================== flow-sensitive helpers
    def flow(self, f):
        q = f.qualname
        if q not in self.flows:
            from .cfg import CFG, Facts, ReachingDefs
            cfg = CFG(f.node, q)
            idx = {}
            for n in cfg.live_nodes():
                if n.ast is not None and n.kind in ("stmt", "branch", "for", "with_enter"):
                    root = n.ast
                    if n.kind == "for":
                        roots = [root.target]
                    elif n.kind == "with_enter":
                        roots = [i.context_expr for i in root.items]
                    else:
                        roots = [root]
                    for r in roots:
                        for x in ast.walk(r):
                            idx.setdefault(id(x), n)
            self.flows[q] = (cfg, Facts(cfg, params=f.params), ReachingDefs(cfg, params=f.params), idx)
        return self.flows[q]

    def node_of(self, f, astnode):
        return self.flow(f)[3].get(id(astnode))

    def name_type_at(self, f, name, node):
        """Type of local `name` at CFG node `node`: union over its reaching definitions, narrowed by facts."""
        cfg, facts, rd, idx = self.flow(f)
        defs = rd.at(node, name)
        if not defs:
            return None
        out = set()
        for d in defs:
            out |= self.def_type(f, d, name)
        t = T(out) if out else UNKNOWN
        if "none" in t:
            fs = facts.at(node)
            if (name + " is not None", True) in fs or (name + " is None", False) in fs or (name, True) in fs:
                t = (t - {"none"}) or UNKNOWN
        return t

    def def_type(self, f, d, name):
        key = (f.qualname, d, name)
        if key in self.def_types:
            return self.def_types[key]
        self.def_types[key] = UNKNOWN
        cfg, facts, rd, idx = self.flow(f)
        if d == 0:
            res = self.param_type(f, name)
        else:
            n = cfg.nodes[d]
            a = n.ast
            res = UNKNOWN
            saved = self._at
            self._at = (f, n)
            try:
                if n.kind == "for":
                    it = self.type_expr(a.iter, f)
                    et = self.iter_elem_type(a.iter, it, f)
                    res = et if isinstance(a.target, ast.Name) else UNKNOWN
                elif n.kind == "handler":
                    res = T(["exception"])
                elif n.kind == "stmt" and isinstance(a, ast.Assign):
                    res = None
                    for t in a.targets:
                        if isinstance(t, ast.Name) and t.id == name:
                            res = self.type_expr(a.value, f)
                            if "none" in res:
                                fs = facts.at(n)
                                text = src(a.value)
                                if (text + " is not None", True) in fs or (text + " is None", False) in fs or (text, True) in fs:
                                    res = (res - {"none"}) or UNKNOWN
                        elif isinstance(t, (ast.Tuple, ast.List)):
                            ets = self.elem_types(a.value, f, len(t.elts))
                            for e_, et in zip(t.elts, ets):
                                if isinstance(e_, ast.Name) and e_.id == name:
                                    res = et
                    res = res if res is not None else UNKNOWN
                elif n.kind == "stmt" and isinstance(a, ast.AugAssign):
                    res = self.type_expr(ast.BinOp(left=a.target, op=a.op, right=a.value), f)
                elif n.kind == "stmt" and isinstance(a, (ast.FunctionDef,)):
                    res = T(["callable"])
            finally:
                self._at = saved
        self.def_types[key] = res
        return res

    def seq_len_at(self, f, name, node, depth=0):
        """Lower bound on the length of the list/tuple bound to `name` at `node` (None if unknown)."""
        if node is None or depth > 4:
            return None
        cfg, facts, rd, idx = self.flow(f)
        defs = rd.at(node, name)
        if not defs:
            return None
        lens = []
        for d in defs:
            if d == 0:
                return None
            n = cfg.nodes[d]
            a = n.ast
            L = None
            if n.kind == "stmt" and isinstance(a, ast.Assign):
                for t in a.targets:
                    if isinstance(t, ast.Name) and t.id == name:
                        L = self.expr_len(f, a.value, n, depth)
                    elif isinstance(t, (ast.Tuple, ast.List)):
                        for i, e_ in enumerate(t.elts):
                            if isinstance(e_, ast.Name) and e_.id == name and isinstance(a.value, ast.Call):
                                L = self.ret_elem_len(f, a.value, i, len(t.elts), depth)
            elif n.kind == "stmt" and isinstance(a, ast.AugAssign) and isinstance(a.op, ast.Add) and isinstance(a.target, ast.Name):
                base = self.seq_len_at(f, name, n, depth + 1)
                add = self.expr_len(f, a.value, n, depth)
                if base is not None:
                    L = base + (add or 0)
            if L is None:
                return None
            lens.append(L)
        return min(lens) if lens else None

    def expr_len(self, f, e, node, depth=0):
        if isinstance(e, (ast.List, ast.Tuple)) and not any(isinstance(x, ast.Starred) for x in e.elts):
            return len(e.elts)
        if isinstance(e, ast.Name):
            return self.seq_len_at(f, e.id, node, depth + 1)
        if isinstance(e, ast.BinOp) and isinstance(e.op, ast.Add):
            a, b = self.expr_len(f, e.left, node, depth), self.expr_len(f, e.right, node, depth)
            return a + b if a is not None and b is not None else None
        if isinstance(e, ast.Call):
            callee = self.resolve_call(e, f)
            if callee and all(isinstance(c, FuncInfo) for c in callee):
                ls = []
                for c in callee:
                    for r in [x for x in walk_local(c.node) if isinstance(x, ast.Return)]:
                        L = self.expr_len(c, r.value, self.node_of(c, r), depth + 1) if r.value is not None else None
                        if L is None:
                            return None
                        ls.append(L)
                return min(ls) if ls else None
        return None

    def ret_elem_len(self, f, call, i, n, depth):
        callee = self.resolve_call(call, f)
        if not callee or not all(isinstance(c, FuncInfo) for c in callee):
            return None
        ls = []
        for c in callee:
            for r in [x for x in walk_local(c.node) if isinstance(x, ast.Return)]:
                v = r.value
                if isinstance(v, ast.Call):
                    L = self.ret_elem_len(c, v, i, n, depth + 1)
                elif isinstance(v, ast.Tuple) and len(v.elts) == n:
                    L = self.expr_len(c, v.elts[i], self.node_of(c, r), depth + 1)
                else:
                    L = None
                if L is None:
                    return None
                ls.append(L)
        return min(ls) if ls else None

    def param_type(self, f, p):
        q = f.qualname
        params = f.params
        t = set(self.param_types.get((q, p), ()))
        if params and p == params[0] and f.cls is not None and p in ("self", "cls") and "staticmethod" not in f.decorators:
            t = {("cls:" if (p == "cls" or "classmethod" in f.decorators) else "obj:") + f.cls.qualname}
            if any(b in ("list",) for b in f.cls.base_exprs):
                t.add("list")
        d = f.defaults.get(p)
        if d is not None:
            dt = self.type_of_const(d, f.module) - {"unknown"}
            if "none" in dt:
                dt = (dt - {"none"}) | {"none_default"}
            t |= dt
        if f.node.args.vararg and f.node.args.vararg.arg == p:
            return T(["tuple"])
        if f.node.args.kwarg and f.node.args.kwarg.arg == p:
            return T(["dict"])
        return T(t) if t else UNKNOWN

    # ================================================================== typing
    def cls_of(self, tag):
        return self.prog.classes.get(tag[4:]) if tag.startswith(("obj:", "cls:")) else None

    def class_attr_type(self, ci, attr):
        key = (ci.qualname, attr)
        if key in self.attr_types:
            return self.attr_types[key]
        self.attr_types[key] = UNKNOWN      # recursion guard
        out = set()
        found = False
        for c in self.prog.mro(ci):
            if not isinstance(c, ClassInfo):
                continue
            if attr in c.nested:
                found = True
                out |= {"cls:" + c.nested[attr].qualname}
            if attr in c.assigns:
                found = True
                out |= self.type_of_const(c.assigns[attr], c.module)
            if attr in c.methods and attr not in c.assigns:
                m = c.methods[attr]
                if "property" in m.decorators:
                    out |= self.ret_type(m)
                else:
                    out |= {"func:" + m.qualname}
                found = True
            # instance attributes assigned in any method of c
            for m in c.methods.values():
                for n in walk_local(m.node):
                    if isinstance(n, ast.Assign):
                        for t in n.targets:
                            if isinstance(t, ast.Attribute) and isinstance(t.value, ast.Name) and t.value.id in ("self", "cls") and t.attr == attr:
                                found = True
                                out |= self.type_expr(n.value, m)
            if found:
                break
        res = T(out) if out else UNKNOWN
        self.attr_types[key] = res
        return res

    def type_of_const(self, node, module):
        if isinstance(node, ast.Dict) or isinstance(node, ast.DictComp):
            return {"dict"}
        if isinstance(node, (ast.List, ast.ListComp)):
            return {"list"}
        if isinstance(node, ast.Tuple):
            return {"tuple"}
        if isinstance(node, (ast.Set, ast.SetComp)):
            return {"set"}
        if isinstance(node, ast.Constant):
            return {type(node.value).__name__ if node.value is not None else "none"}
        if isinstance(node, ast.Call):
            fn = src(node.func)
            if fn in ("dict", "OrderedDict", "weakref.WeakValueDictionary"):
                return {"dict"}
            if fn == "tuple":
                return {"tuple"}
            if fn == "list":
                return {"list"}
            if fn.startswith("re.compile"):
                return {"regex"}
            r = self.prog.resolve_dotted(fn, module)
            if isinstance(r, ClassInfo):
                return {"obj:" + r.qualname}
        return {"unknown"}

    def locals_of(self, f):
        q = f.qualname
        if q in self.local_types:
            return self.local_types[q]
        env = {}
        self.local_types[q] = env
        params = f.params
        for i, p in enumerate(params):
            t = set(self.param_types.get((q, p), ()))
            if i == 0 and f.cls is not None and p in ("self", "cls") and "staticmethod" not in f.decorators:
                t = {("cls:" if (p == "cls" or "classmethod" in f.decorators) else "obj:") + f.cls.qualname}
                if any(src_b in ("list",) for src_b in f.cls.base_exprs):
                    t.add("list")
            d = f.defaults.get(p)
            if d is not None:
                dt = self.type_of_const(d, f.module) - {"unknown"}
                if "none" in dt:
                    dt = (dt - {"none"}) | {"none_default"}
                t |= dt
            if f.node.args.vararg and False:
                pass
            env[p] = T(t) if t else UNKNOWN
        if f.node.args.vararg:
            env[f.node.args.vararg.arg] = T(["tuple"])
        if f.node.args.kwarg:
            env[f.node.args.kwarg.arg] = T(["dict"])
        for _ in range(3):
            changed = False
            for n in walk_local(f.node):
                pairs = []
                if isinstance(n, ast.Assign):
                    vt = self.type_expr(n.value, f)
                    for t in n.targets:
                        if isinstance(t, ast.Name):
                            pairs.append((t.id, vt))
                        elif isinstance(t, (ast.Tuple, ast.List)):
                            elem = self.elem_types(n.value, f, len(t.elts))
                            for e, et in zip(t.elts, elem):
                                if isinstance(e, ast.Name):
                                    pairs.append((e.id, et))
                elif isinstance(n, ast.AugAssign) and isinstance(n.target, ast.Name):
                    pairs.append((n.target.id, self.type_expr(ast.BinOp(left=n.target, op=n.op, right=n.value), f)))
                elif isinstance(n, (ast.For, ast.comprehension)):
                    it = self.type_expr(n.iter, f)
                    et = self.iter_elem_type(n.iter, it, f)
                    if isinstance(n.target, ast.Name):
                        pairs.append((n.target.id, et))
                    else:
                        for e in ast.walk(n.target):
                            if isinstance(e, ast.Name):
                                pairs.append((e.id, UNKNOWN))
                elif isinstance(n, ast.ExceptHandler) and n.name:
                    pairs.append((n.name, T(["exception"])))
                elif isinstance(n, ast.With):
                    for item in n.items:
                        if isinstance(item.optional_vars, ast.Name):
                            pairs.append((item.optional_vars.id, UNKNOWN))
                for name, vt in pairs:
                    old = env.get(name)
                    if name in params and old is not None and old != UNKNOWN and vt == UNKNOWN:
                        continue
                    new = vt if old is None else (old | vt)
                    if old is not None and old != UNKNOWN and vt != UNKNOWN:
                        new = old | vt
                    elif old is not None and old != UNKNOWN and vt == UNKNOWN:
                        new = old | vt
                    if new != old:
                        env[name] = new
                        changed = True
            if not changed:
                break
        return env

    def elem_types(self, value, f, n):
        if isinstance(value, (ast.Tuple, ast.List)) and len(value.elts) == n:
            return [self.type_expr(e, f) for e in value.elts]
        if isinstance(value, ast.Call):
            fn = src(value.func)
            if fn == "divmod":
                t = self.type_expr(value.args[0], f)
                return [t, t]
            callee = self.resolve_call(value, f)
            if callee:
                outs = None
                for c in callee:
                    if isinstance(c, FuncInfo):
                        for r in [x for x in walk_local(c.node) if isinstance(x, ast.Return)]:
                            if isinstance(r.value, ast.Tuple) and len(r.value.elts) == n:
                                saved = self._at
                                self._at = (c, self.node_of(c, r))
                                try:
                                    ts = [self.type_expr(e, c) for e in r.value.elts]
                                finally:
                                    self._at = saved
                                outs = ts if outs is None else [a | b for a, b in zip(outs, ts)]
                if outs:
                    return outs
        vt = self.type_expr(value, f)
        if vt <= {"str"}:
            return [T(["str"])] * n
        return [UNKNOWN] * n

    def iter_elem_type(self, itnode, it, f):
        if it <= {"str"}:
            return T(["str"])
        if isinstance(itnode, ast.Call) and src(itnode.func) in ("range", "enumerate"):
            return T(["int"]) if src(itnode.func) == "range" else UNKNOWN
        if isinstance(itnode, (ast.List, ast.Tuple)) and itnode.elts:
            out = set()
            for e in itnode.elts:
                out |= self.type_expr(e, f)
            return T(out)
        if isinstance(itnode, ast.Call) and isinstance(itnode.func, ast.Attribute) and itnode.func.attr in STR_METHODS_LIST:
            return T(["str"])
        for tag in it:
            c = self.cls_of(tag)
            if c is not None:
                r = self.prog.class_lookup(c, "__next__") or self.prog.class_lookup(c, "get_token")
                if r and isinstance(r[0], FuncInfo):
                    return self.ret_type(r[0]) - {"none"} or UNKNOWN
        return UNKNOWN

    def ret_type(self, f):
        q = f.qualname
        if q in self.ret_types:
            return self.ret_types[q]
        self.ret_types[q] = UNKNOWN
        if f.is_generator:
            res = T(["gen:" + q])
        else:
            out = set()
            rets = [x for x in walk_local(f.node) if isinstance(x, ast.Return)]
            for r in rets:
                saved = self._at
                self._at = (f, self.node_of(f, r))
                try:
                    rt = self.type_expr(r.value, f) if r.value is not None else T(["none"])
                    if "none" in rt and isinstance(r.value, ast.Name) and self._at[1] is not None:
                        pass
                finally:
                    self._at = saved
                out |= rt
            if not rets:
                out.add("none")
            else:
                # falling off the end
                last = f.node.body[-1]
                if not isinstance(last, (ast.Return, ast.Raise)) and not (isinstance(last, ast.If) and last.orelse):
                    if not isinstance(last, (ast.While, ast.For, ast.Try)):
                        out.add("none")
            res = T(out) if out else UNKNOWN
        self.ret_types[q] = res
        return res

    def type_expr(self, e, f):
        if e is None:
            return T(["none"])
        if isinstance(e, ast.Constant):
            if e.value is None:
                return T(["none"])
            return T([type(e.value).__name__])
        if isinstance(e, (ast.List, ast.ListComp)):
            return T(["list"])
        if isinstance(e, ast.Tuple):
            return T(["tuple"])
        if isinstance(e, (ast.Dict, ast.DictComp)):
            return T(["dict"])
        if isinstance(e, (ast.Set, ast.SetComp)):
            return T(["set"])
        if isinstance(e, ast.GeneratorExp):
            return T(["iter"])
        if isinstance(e, ast.JoinedStr):
            return T(["str"])
        if isinstance(e, ast.Name):
            if self._at is not None and self._at[0] is f and self._at[1] is not None:
                t = self.name_type_at(f, e.id, self._at[1])
                if t is not None:
                    return t
            env = self.locals_of(f)
            if e.id in env:
                return env[e.id]
            r = self.prog.resolve_dotted(e.id, f.module, f.cls, f)
            if isinstance(r, ClassInfo):
                return T(["cls:" + r.qualname])
            if isinstance(r, FuncInfo):
                return T(["func:" + r.qualname])
            if isinstance(r, tuple) and r[0] == "global":
                node = r[1].assigns.get(r[2])
                return T(self.type_of_const(node, r[1])) if node is not None else UNKNOWN
            return UNKNOWN
        if isinstance(e, ast.Attribute):
            bt = self.type_expr(e.value, f)
            out = set()
            for tag in bt:
                c = self.cls_of(tag)
                if c is not None:
                    out |= self.class_attr_type(c, mangle(c.name, e.attr))
                elif tag in DATETIME_TAGS and e.attr in ("year", "month", "day", "hour", "minute", "second", "microsecond", "days", "seconds", "microseconds"):
                    out.add("int")
                elif tag in DATETIME_TAGS and e.attr == "tzinfo":
                    out |= {"tzinfo", "none"}
                else:
                    out.add("unknown")
            if not out:
                r = self.prog.resolve_dotted(src(e), f.module, f.cls, f) if attr_ok(e) else None
                if isinstance(r, ClassInfo):
                    return T(["cls:" + r.qualname])
                if isinstance(r, FuncInfo):
                    return T(["func:" + r.qualname])
                if isinstance(r, tuple) and r[0] == "global":
                    node = r[1].assigns.get(r[2])
                    return T(self.type_of_const(node, r[1])) if node is not None else UNKNOWN
                return UNKNOWN
            if out == {"unknown"}:
                r = self.prog.resolve_dotted(src(e), f.module, f.cls, f) if attr_ok(e) else None
                if isinstance(r, ClassInfo):
                    return T(["cls:" + r.qualname])
                if isinstance(r, FuncInfo):
                    return T(["func:" + r.qualname])
                if isinstance(r, tuple) and r[0] == "global":
                    node = r[1].assigns.get(r[2])
                    if node is not None:
                        return T(self.type_of_const(node, r[1]))
            return T(out)
        if isinstance(e, ast.Subscript):
            bt = self.type_expr(e.value, f)
            if isinstance(e.slice, ast.Slice):
                return bt if bt & SEQ else UNKNOWN
            if bt <= {"str"}:
                return T(["str"])
            if bt <= {"bytes"}:
                return T(["int"])
            # list of tokens: element type str when the list came from a tokenizer
            if isinstance(e.value, ast.Name) and e.value.id in ("l", "tokens", "lines", "parms", "splt"):
                return T(["str"])
            return UNKNOWN
        if isinstance(e, ast.BoolOp):
            out = set()
            for v in e.values:
                out |= self.type_expr(v, f)
            if isinstance(e.op, ast.Or) and len(e.values) == 2:
                a = self.type_expr(e.values[0], f)
                out = (a - {"none"}) | self.type_expr(e.values[1], f)
            return T(out)
        if isinstance(e, ast.IfExp):
            return self.type_expr(e.body, f) | self.type_expr(e.orelse, f)
        if isinstance(e, ast.Compare):
            return T(["bool"])
        if isinstance(e, ast.UnaryOp):
            if isinstance(e.op, ast.Not):
                return T(["bool"])
            return self.type_expr(e.operand, f)
        if isinstance(e, ast.BinOp):
            a, b = self.type_expr(e.left, f), self.type_expr(e.right, f)
            if "Decimal" in a or "Decimal" in b:
                return T(["Decimal"])
            if isinstance(e.op, ast.Mod) and a <= {"str"}:
                return T(["str"])
            for tg in ("datetime", "date", "timedelta"):
                if tg in a:
                    if isinstance(e.op, ast.Sub) and (b & {"datetime", "date"}):
                        return T(["timedelta"])
                    return T([tg])
            if a == b:
                return a
            if (a | b) <= {"int", "float", "bool"}:
                return T(["float"]) if "float" in (a | b) else T(["int"])
            for tag in b:
                if tag.startswith("obj:"):
                    return a if a != UNKNOWN else UNKNOWN
            return a if b == UNKNOWN and a != UNKNOWN and a <= SEQ else UNKNOWN
        if isinstance(e, ast.Call):
            return self.type_call(e, f)
        if isinstance(e, ast.Lambda):
            return T(["callable"])
        return UNKNOWN

    def type_call(self, e, f):
        fn = src(e.func)
        if fn in ("int", "len", "ord", "sum", "abs") or fn.endswith((".toordinal", ".weekday", ".count", ".find", ".index", ".total_seconds")):
            return T(["int"])
        if fn == "float":
            return T(["float"])
        if fn in ("str", "repr", "text_type", "six.text_type", "chr") or fn == "bytes":
            return T(["bytes" if fn == "bytes" else "str"])
        if fn in ("list", "sorted") or fn.endswith(".keys") and False:
            return T(["list"])
        if fn in ("tuple",):
            return T(["tuple"])
        if fn in ("dict",):
            return T(["dict"])
        if fn in ("set", "frozenset"):
            return T(["set"])
        if fn in ("bool", "isinstance", "callable", "hasattr", "any", "all"):
            return T(["bool"])
        if fn in ("Decimal", "decimal.Decimal"):
            return T(["Decimal"])
        if fn in ("datetime.datetime", "datetime", "datetime.datetime.now", "datetime.datetime.combine", "datetime.datetime.fromordinal", "datetime.now", "datetime.combine"):
            return T(["datetime"])
        if fn in ("datetime.date", "date", "datetime.date.fromordinal"):
            return T(["date"])
        if fn in ("datetime.time", "time") and "time" not in f.module.imports.get("time", "time.x").split(".")[0:1]:
            return T(["time"])
        if fn in ("datetime.time",):
            return T(["time"])
        if fn in ("datetime.timedelta", "timedelta"):
            return T(["timedelta"])
        if fn in ("divmod",):
            return T(["tuple"])
        if fn in ("iter",) and e.args:
            return T(["iter"])
        if fn in ("getattr",) and len(e.args) == 3:
            return UNKNOWN
        if fn in ("re.split", "re.findall"):
            return T(["list"])
        if fn in ("monthrange", "calendar.monthrange"):
            return T(["tuple"])
        if isinstance(e.func, ast.Attribute):
            bt = self.type_expr(e.func.value, f)
            m = e.func.attr
            if bt <= {"str", "bytes"} or (bt == UNKNOWN and m in ("lower", "upper", "strip", "rstrip", "splitlines")):
                if m in STR_METHODS_STR:
                    return T(["bytes"]) if (m == "encode") else T(["str"])
                if m == "encode":
                    return T(["bytes"])
                if m in STR_METHODS_LIST:
                    return T(["list"])
                if m in STR_METHODS_BOOL:
                    return T(["bool"])
            if bt & DATETIME_TAGS:
                if m in ("replace", "astimezone"):
                    return bt & T(DATETIME_TAGS)
                if m in ("utcoffset", "dst"):
                    return T(["timedelta", "none"])
                if m == "tzname":
                    return T(["str", "none"])
                if m == "date":
                    return T(["date"])
                if m in ("timetuple", "isocalendar"):
                    return T(["tuple"])
                if m == "strftime":
                    return T(["str"])
            if "dict" in bt and m == "get":
                return UNKNOWN
            if ("regex" in bt or m == "split") and m in ("split",):
                return T(["list"])
            if m == "copy" and bt != UNKNOWN:
                return bt
        ft = self.type_expr(e.func, f) if isinstance(e.func, (ast.Name, ast.Attribute)) else UNKNOWN
        inst = set("obj:" + t[4:] for t in ft if t.startswith("cls:"))
        if inst and not (ft - set(t for t in ft if t.startswith("cls:")) - {"unknown"}):
            return T(inst)
        callee = self.resolve_call(e, f)
        out = set()
        for c in callee or []:
            if isinstance(c, FuncInfo):
                if c.name == "__init__" and c.cls is not None:
                    out.add("obj:" + c.cls.qualname)
                elif c.name == "__call__" and c.cls is not None and any(isinstance(x, ClassInfo) and x.metaclass is c.cls for x in self.prog.classes.values()) and False:
                    pass
                else:
                    out |= self.ret_type(c)
            elif isinstance(c, ClassInfo):
                out.add("obj:" + c.qualname)
        return T(out) if out else UNKNOWN

    # ================================================================== call resolution
    def resolve_call(self, call, f):
        """List of FuncInfo/ClassInfo targets (possibly several) or None when opaque."""
        fn = call.func
        out = []
        if isinstance(fn, ast.Name):
            if (f.qualname, fn.id) in self.user_callables:
                return None
            env = self.locals_of(f)
            if fn.id in env and env[fn.id] != UNKNOWN:
                for tag in env[fn.id]:
                    out += self._targets_of_tag(tag, call)
                if out:
                    return out
            r = self.prog.resolve_dotted(fn.id, f.module, f.cls, f)
            return self._targets_of(r)
        if isinstance(fn, ast.Attribute):
            # super(X, self).m(...)
            if isinstance(fn.value, ast.Call) and src(fn.value.func) == "super" and f.cls is not None:
                mro = self.prog.mro(f.cls)
                for c in mro[1:]:
                    if isinstance(c, ClassInfo) and fn.attr in c.methods:
                        return [c.methods[fn.attr]]
                return None
            bt = self.type_expr(fn.value, f)
            for tag in bt:
                c = self.cls_of(tag)
                if c is not None:
                    r = self.prog.class_lookup(c, mangle(c.name, fn.attr)) or self.prog.class_lookup(c, fn.attr)
                    if r and isinstance(r[0], FuncInfo):
                        out.append(r[0])
                    elif r and isinstance(r[0], ClassInfo):
                        out += self._targets_of(r[0])
                    elif tag.startswith("cls:") and c.metaclass is not None:
                        r2 = self.prog.class_lookup(c.metaclass, fn.attr)
                        if r2 and isinstance(r2[0], FuncInfo):
                            out.append(r2[0])
            if out:
                return out
            if attr_ok(fn):
                r = self.prog.resolve_dotted(src(fn), f.module, f.cls, f)
                t = self._targets_of(r)
                if t:
                    return t
            return None
        if isinstance(fn, ast.Call) and src(fn.func) == "getattr" and len(fn.args) >= 2:
            # getattr(self, "_handle_" + name)(...)
            a1 = fn.args[1]
            if isinstance(a1, ast.BinOp) and isinstance(a1.left, ast.Constant) and isinstance(a1.left.value, str) and f.cls is not None:
                pre = a1.left.value
                names = set()
                for c in self.prog.mro(f.cls):
                    if isinstance(c, ClassInfo):
                        names |= set(n for n in list(c.methods) + list(c.assigns) if n.startswith(pre))
                for n in sorted(names):
                    r = self.prog.class_lookup(f.cls, n)
                    if r and isinstance(r[0], FuncInfo) and r[0] not in out:
                        out.append(r[0])
                return out or None
        return None

    def _targets_of_tag(self, tag, call=None):
        if tag.startswith("func:"):
            fi = self.prog.functions.get(tag[5:])
            return [fi] if fi else []
        if tag.startswith("cls:"):
            c = self.prog.classes.get(tag[4:])
            return self._targets_of(c) if c else []
        if tag.startswith("obj:"):
            c = self.prog.classes.get(tag[4:])
            if c is not None:
                r = self.prog.class_lookup(c, "__call__")
                if r and isinstance(r[0], FuncInfo):
                    return [r[0]]
        return []

    def _targets_of(self, r):
        if isinstance(r, FuncInfo):
            return [r]
        if isinstance(r, ClassInfo):
            out = []
            if r.metaclass is not None:
                m = self.prog.class_lookup(r.metaclass, "__call__")
                if m and isinstance(m[0], FuncInfo):
                    out.append(m[0])
            i = self.prog.class_lookup(r, "__init__")
            if i and isinstance(i[0], FuncInfo):
                out.append(i[0])
            return out or [r]
        if isinstance(r, tuple) and r[0] == "global":
            node = r[1].assigns.get(r[2])
            if isinstance(node, ast.Call):
                rr = self.prog.resolve_dotted(src(node.func), r[1])
                if isinstance(rr, ClassInfo):
                    c = self.prog.class_lookup(rr, "__call__")
                    if c and isinstance(c[0], FuncInfo):
                        return [c[0]]
            if isinstance(node, ast.Attribute):
                # isoparse = DEFAULT_ISOPARSER.isoparse
                base = self.prog.resolve_dotted(src(node.value), r[1])
                if isinstance(base, tuple) and base[0] == "global":
                    bn = base[1].assigns.get(base[2])
                    if isinstance(bn, ast.Call):
                        rc = self.prog.resolve_dotted(src(bn.func), base[1])
                        if isinstance(rc, ClassInfo):
                            m = self.prog.class_lookup(rc, node.attr)
                            if m and isinstance(m[0], FuncInfo):
                                return [m[0]]
        return None

    # ================================================================== parameter propagation
    def bind_args(self, call, callee, f, facts_at=None):
        """Propagate argument types of `call` (in function f) into callee's parameter types."""
        params = callee.positional_params
        off = 0
        if callee.cls is not None and params and params[0] in ("self", "cls") and "staticmethod" not in callee.decorators:
            off = 1
        # decorator wrappers that pass (self, x) through are handled by following the decorated body
        ch = False
        for i, a in enumerate(call.args):
            if isinstance(a, ast.Starred):
                continue
            if i + off < len(params):
                ch |= self._join_param(callee, params[i + off], self.arg_type(a, f, facts_at))
        for kw in call.keywords:
            if kw.arg and kw.arg in callee.params:
                ch |= self._join_param(callee, kw.arg, self.arg_type(kw.value, f, facts_at))
        return ch

    def arg_type(self, a, f, facts_at):
        t = self.type_expr(a, f)
        if "none" in t and facts_at is not None:
            text = src(a)
            if (text + " is not None", True) in facts_at or (text + " is None", False) in facts_at or (text, True) in facts_at:
                t = t - {"none"} or UNKNOWN
        return t

    def _join_param(self, callee, p, t):
        key = (callee.qualname, p)
        old = self.param_types.get(key)
        if old is None:
            self.param_types[key] = t
        elif t == UNKNOWN or old == UNKNOWN:
            new = old | t
            if new == old:
                return False
            self.param_types[key] = new
        else:
            if t <= old:
                return False
            self.param_types[key] = old | t
        self.local_types.pop(callee.qualname, None)
        self.ret_types.pop(callee.qualname, None)
        self.changed = True
        return True

    # ================================================================== escape computation
    def escapes(self, f):
        """Run to a fixpoint of parameter types, then return the raises escaping f."""
        for _ in range(8):
            self.changed = False
            self.summaries = {}
            self.in_progress = set()
            self.local_types = {}
            self.ret_types = {}
            self.attr_types = {}
            self.def_types = {}
            self.used_suppressions = []
            self.stats = {"calls": 0, "resolved": 0, "unresolved": 0, "functions": 0, "primitive_sites": 0}
            self.unresolved = {}
            res = self.summary(f)
            if not self.changed:
                return res
        return res

    def summary(self, f):
        q = f.qualname
        if q in self.summaries:
            return self.summaries[q]
        if q in self.in_progress:
            return []
        self.in_progress.add(q)
        self.stats["functions"] += 1
        saved = self._at
        self._at = None
        try:
            w = Walker(self, f)
            res = w.block(f.node.body if isinstance(f.node.body, list) else [ast.Expr(value=f.node.body)])
        finally:
            self._at = saved
        # decorators that wrap the function (wrapper body analysed with f inlined as `f(...)` call)
        self.in_progress.discard(q)
        ded = {}
        for r in res:
            ded.setdefault(r.key(), r)
        out = list(ded.values())
        self.summaries[q] = out
        return out


def attr_ok(e):
    while isinstance(e, ast.Attribute):
        e = e.value
    return isinstance(e, ast.Name)


DATETIME_RAISING_METHODS = {"replace", "combine", "fromordinal", "astimezone"}


class Walker(object):
    """Syntax-directed walk of one function with a stack of enclosing handlers."""

    def __init__(self, an, f):
        self.an = an
        self.f = f
        self.site = "%s" % f.qualname
        self._facts = None

    # ----------------------------------------------------------------- helpers
    def prim(self, exc, node, why=""):
        self.an.stats["primitive_sites"] += 1
        c = src(node).split("\n")[0][:100]
        key = (self.f.qualname, c)
        if key in self.an.suppress or (self.f.qualname, exc, c) in self.an.suppress:
            reason = self.an.suppress.get(key) or self.an.suppress.get((self.f.qualname, exc, c))
            self.an.used_suppressions.append((self.f.qualname, c, exc, reason))
            return []
        if self.an.suppress_shapes:
            from . import canon
            a = self.f.node.args
            params = set(x.arg for x in a.posonlyargs + a.args + a.kwonlyargs)
            wild = canon.local_names(self.f.node) - params
            sh = canon.shape(c, wild)
            hit = self.an.suppress_shapes.get((self.f.qualname, sh)) or self.an.suppress_shapes.get((self.f.qualname, exc, sh))
            if hit is not None:
                self.an.used_suppressions.append((self.f.qualname, hit[0][-1], exc, hit[1]))
                return []
        return [Raise(exc, "%s:%d %s" % (self.f.module.relpath, getattr(node, "lineno", 0), self.f.qualname), c + (" [" + why + "]" if why else ""))]

    def facts_at(self, node):
        """must-hold facts at the CFG node containing `node`."""
        cfg, facts, rd, idx = self.an.flow(self.f)
        n = idx.get(id(node))
        if n is None and self.an._at is not None and self.an._at[0] is self.f:
            n = self.an._at[1]
        return facts.at(n) if n is not None else frozenset()

    # ----------------------------------------------------------------- statements
    def block(self, stmts):
        out = []
        for st in stmts:
            out += self.stmt(st)
        return out

    def stmt(self, st):
        n = self.an.node_of(self.f, st)
        if n is None and isinstance(st, (ast.If, ast.While, ast.Assert)):
            n = self.an.node_of(self.f, st.test)
        if n is None and isinstance(st, ast.For):
            n = self.an.node_of(self.f, st.iter)
        if n is not None:
            self.an._at = (self.f, n)
        if isinstance(st, ast.Try):
            body = self.block(st.body)
            out = []
            caught_by = {}
            for r in body:
                h = self.catching(st.handlers, r.exc)
                if h is None:
                    out.append(r)
                else:
                    caught_by.setdefault(id(h), []).append(r)
            for h in st.handlers:
                hb = self.block(h.body)
                # bare `raise` re-raises what was caught
                rer = any(isinstance(x, ast.Raise) and x.exc is None for x in walk_stmts(h.body))
                if rer:
                    out += caught_by.get(id(h), [])
                # only include handler-body raises if the handler can be entered at all
                if caught_by.get(id(h)) or self.handler_may_fire(st, h):
                    out += hb
            out += self.block(st.orelse)
            out += self.block(st.finalbody)
            return out
        if isinstance(st, ast.Raise):
            if st.exc is None:
                return []       # handled by the enclosing Try logic
            out = self.expr(st.exc)
            name = self.exc_name(st.exc)
            out.append(Raise(name, "%s:%d %s" % (self.f.module.relpath, st.lineno, self.f.qualname), src(st).split("\n")[0][:100], kind="explicit"))
            return out
        if isinstance(st, ast.Assert):
            key = (self.f.qualname, src(st).split("\n")[0][:100])
            if key not in self.an.suppress and self.an.suppress_shapes:
                from . import canon
                a_ = self.f.node.args
                wild_ = canon.local_names(self.f.node) - set(x.arg for x in a_.posonlyargs + a_.args + a_.kwonlyargs)
                hit_ = self.an.suppress_shapes.get((self.f.qualname, canon.shape(key[1], wild_)))
                if hit_ is not None:
                    key = hit_[0]
            if key in self.an.suppress:
                self.an.used_suppressions.append((self.f.qualname, key[1], "AssertionError", self.an.suppress[key]))
                return self.expr(st.test)
            return self.expr(st.test) + [Raise("AssertionError", "%s:%d %s" % (self.f.module.relpath, st.lineno, self.f.qualname), key[1], kind="explicit")]
        if isinstance(st, (ast.FunctionDef, ast.ClassDef, ast.Import, ast.ImportFrom, ast.Global, ast.Pass, ast.Break, ast.Continue, ast.Nonlocal)):
            return []
        if isinstance(st, ast.If):
            if self.always_falsy(st.test):
                return self.block(st.orelse)
            if self.isinstance_text(st.test):
                return self.expr(st.test) + self.block(st.body)
            return self.expr(st.test) + self.block(st.body) + self.block(st.orelse)
        if isinstance(st, ast.While):
            return self.expr(st.test) + self.block(st.body) + self.block(st.orelse)
        if isinstance(st, ast.For):
            return self.expr(st.iter) + self.iteration(st.iter) + self.block(st.body) + self.block(st.orelse)
        if isinstance(st, ast.With):
            out = []
            for it in st.items:
                out += self.expr(it.context_expr)
            return out + self.block(st.body)
        if isinstance(st, ast.Assign):
            out = self.expr(st.value)
            for t in st.targets:
                out += self.target(t, st.value)
            return out
        if isinstance(st, ast.AugAssign):
            return self.expr(ast.BinOp(left=st.target, op=st.op, right=st.value, lineno=st.lineno, col_offset=st.col_offset)) + self.target(st.target, None)
        if isinstance(st, ast.Return):
            return self.expr(st.value) if st.value is not None else []
        if isinstance(st, ast.Expr):
            return self.expr(st.value)
        if isinstance(st, ast.Delete):
            out = []
            for t in st.targets:
                if isinstance(t, ast.Subscript):
                    out += self.subscript(t)
            return out
        return []

    def isinstance_text(self, test):
        """`isinstance(x, text_type)` where x is known to be exactly text."""
        if isinstance(test, ast.Call) and src(test.func) == "isinstance" and len(test.args) == 2 and \
                src(test.args[1]) in ("text_type", "six.text_type", "str", "string_types", "six.string_types"):
            t = self.an.type_expr(test.args[0], self.f)
            return bool(t) and t <= {"str"}
        return False

    def always_falsy(self, test):
        """`if p:` / `if p and q:` where some operand is a parameter that only ever holds its None default."""
        ops = test.values if isinstance(test, ast.BoolOp) and isinstance(test.op, ast.And) else [test]
        for o in ops:
            if isinstance(o, ast.Name):
                t = self.an.type_expr(o, self.f)
                if t and t <= {"none_default"}:
                    return True
        return False

    def handler_may_fire(self, tr, h):
        return False

    def catching(self, handlers, exc):
        for h in handlers:
            if h.type is None:
                return h
            types = h.type.elts if isinstance(h.type, ast.Tuple) else [h.type]
            for t in types:
                if is_sub(exc, self.norm_exc(src(t))):
                    return h
        return None

    def norm_exc(self, name):
        name = ALIASES.get(name, name)
        if name in PARENT:
            return name
        r = self.an.prog.resolve_dotted(name, self.f.module, self.f.cls, self.f)
        if isinstance(r, ClassInfo):
            # in-package exception class: register its parent
            if r.qualname not in PARENT:
                base = "Exception"
                for b in r.base_exprs:
                    bn = ALIASES.get(b, b)
                    if bn in PARENT:
                        base = bn
                PARENT[r.qualname] = base
            return r.qualname
        if name.split(".")[-1] in PARENT:
            return name.split(".")[-1]
        return name

    def exc_name(self, e):
        if isinstance(e, ast.Call):
            fn = src(e.func)
            if fn.endswith("raise_from") and e.args:
                return self.exc_name(e.args[0])
            return self.norm_exc(fn)
        if isinstance(e, ast.Name):
            t = self.an.locals_of(self.f).get(e.id)
            return self.norm_exc(e.id)
        return self.norm_exc(src(e))

    def target(self, t, value):
        out = []
        if isinstance(t, (ast.Tuple, ast.List)):
            if value is not None and not (isinstance(value, (ast.Tuple, ast.List)) and len(value.elts) == len(t.elts)):
                if not self.safe_unpack(value, len(t.elts)):
                    out += self.prim("ValueError", value, "tuple unpacking of a value of unknown length")
            for e in t.elts:
                out += self.target(e, None)
        elif isinstance(t, ast.Subscript):
            bt = self.an.type_expr(t.value, self.f)
            out += self.expr(t.value) + self.expr(t.slice) if not isinstance(t.slice, ast.Slice) else []
            if bt & {"list"} and not isinstance(t.slice, ast.Slice) and not self.index_in_known_length(t) and not self.guarded_index(t):
                out += self.prim("IndexError", t, "list item assignment")
        elif isinstance(t, ast.Attribute):
            pass
        return out

    def safe_unpack(self, value, n):
        if isinstance(value, ast.Call):
            fn = src(value.func)
            if fn == "divmod" and n == 2:
                return True
            if fn.endswith("struct.unpack") or fn == "struct.unpack":
                return True     # struct.error covers a size mismatch
            callee = self.an.resolve_call(value, self.f)
            if callee and all(isinstance(c, FuncInfo) for c in callee):
                ok = True
                for c in callee:
                    rets = [x for x in walk_local(c.node) if isinstance(x, ast.Return)]
                    if not rets or not all(isinstance(r.value, ast.Tuple) and len(r.value.elts) == n for r in rets):
                        ok = False
                return ok
            if fn.endswith(".timetuple") and n == 9:
                return True
        if isinstance(value, ast.Subscript) and isinstance(value.slice, ast.Slice):
            v = value.value
            if isinstance(v, ast.Call) and src(v.func).endswith(".timetuple"):
                return True
            if isinstance(v, ast.Attribute) and src(v).endswith("mrange"):
                return True
        if isinstance(value, ast.BinOp) and isinstance(value.op, ast.Mult) and isinstance(value.left, ast.List) and isinstance(value.right, ast.Constant):
            return len(value.left.elts) * value.right.value == n
        if isinstance(value, ast.Name):
            # loop / comprehension target unpacking of pairs built in this function is not modelled: be conservative
            return False
        return False

    # ----------------------------------------------------------------- iteration
    def iteration(self, itnode):
        """raises from iterating over `itnode` (in-package iterators / generators)"""
        out = []
        t = self.an.type_expr(itnode, self.f)
        for tag in t:
            if tag.startswith("gen:"):
                g = self.an.prog.functions.get(tag[4:])
                if g is not None:
                    out += [r.via(self.site) for r in self.an.summary(g)]
            c = self.an.cls_of(tag)
            if c is not None and tag.startswith("obj:"):
                for m in ("__iter__", "__next__"):
                    r = self.an.prog.class_lookup(c, m)
                    if r and isinstance(r[0], FuncInfo):
                        for x in self.an.summary(r[0]):
                            if x.exc != "StopIteration":
                                out.append(x.via(self.site))
                        rt = self.an.ret_type(r[0])
                        for tg in rt:
                            if tg.startswith("gen:"):
                                g = self.an.prog.functions.get(tg[4:])
                                if g is not None:
                                    out += [x.via(self.site) for x in self.an.summary(g) if x.exc != "StopIteration"]
        return out

    # ----------------------------------------------------------------- expressions
    def expr(self, e):
        if e is None:
            return []
        n = self.an.node_of(self.f, e)
        if n is not None:
            self.an._at = (self.f, n)
        out = []
        if isinstance(e, ast.Call):
            return self.call(e)
        if isinstance(e, ast.Subscript):
            out += self.expr(e.value)
            if isinstance(e.slice, ast.Slice):
                for p in (e.slice.lower, e.slice.upper, e.slice.step):
                    out += self.expr(p)
                return out
            out += self.expr(e.slice)
            return out + self.subscript(e)
        if isinstance(e, ast.BinOp):
            out += self.expr(e.left) + self.expr(e.right)
            return out + self.binop(e)
        if isinstance(e, ast.Compare):
            out += self.expr(e.left)
            for c in e.comparators:
                out += self.expr(c)
            return out + self.compare(e)
        if isinstance(e, ast.BoolOp):
            for v in e.values:
                out += self.expr(v)
            return out
        if isinstance(e, ast.IfExp):
            return self.expr(e.test) + self.expr(e.body) + self.expr(e.orelse)
        if isinstance(e, (ast.ListComp, ast.SetComp, ast.GeneratorExp)):
            for g in e.generators:
                out += self.expr(g.iter) + self.iteration(g.iter)
                for c in g.ifs:
                    out += self.expr(c)
            return out + self.expr(e.elt)
        if isinstance(e, ast.DictComp):
            for g in e.generators:
                out += self.expr(g.iter) + self.iteration(g.iter)
                for c in g.ifs:
                    out += self.expr(c)
            return out + self.expr(e.key) + self.expr(e.value)
        if isinstance(e, ast.Lambda):
            return []
        if isinstance(e, (ast.Yield, ast.YieldFrom, ast.Await, ast.Starred)):
            return self.expr(e.value) if e.value is not None else []
        for c in ast.iter_child_nodes(e):
            if isinstance(c, ast.expr):
                out += self.expr(c)
        return out

    def const_index(self, idx):
        if isinstance(idx, ast.Constant) and isinstance(idx.value, int) and not isinstance(idx.value, bool):
            return idx.value
        if isinstance(idx, ast.UnaryOp) and isinstance(idx.op, ast.USub) and isinstance(idx.operand, ast.Constant) and isinstance(idx.operand.value, int):
            return -idx.operand.value
        return None

    def guarded_index(self, e):
        """Relational idioms that make X[...] safe, read off the must-hold facts / short-circuit guards."""
        base = src(e.value)
        k = self.const_index(e.slice)
        fs = set(self.facts_at(e))
        n = self.an.node_of(self.f, e)
        if n is not None and n.ast is not None:
            for top in ast.walk(n.ast):
                if isinstance(top, (ast.BoolOp, ast.IfExp)):
                    fs |= set(expr_guards(top, e))
        if k in (0, -1) and (base, True) in fs:
            return True                     # non-empty sequence
        if k is not None and k >= 0:
            for t, tv in fs:
                tt = t.replace(" ", "")
                if tv and tt == "len(%s)==%d" % (base, k + 1) or (not tv) and tt == "len(%s)!=%d" % (base, k + 1):
                    return True
                if tv and tt in ("len(%s)>%d" % (base, k), "len(%s)>=%d" % (base, k + 1)):
                    return True
        if isinstance(e.slice, ast.Name):
            i = e.slice.id
            if ("%s < len(%s)" % (i, base), True) in fs or ("len(%s) > %s" % (base, i), True) in fs:
                return True
            if n is not None:
                cfg, facts, rd, ix = self.an.flow(self.f)
                defs = rd.at(n, i)
                if defs and all(d and cfg.nodes[d].kind == "for" and src(cfg.nodes[d].ast.iter).replace(" ", "") == "range(len(%s))" % base for d in defs):
                    return True
            for t, tv in fs:
                if tv and t.replace(" ", "").startswith("%s<len(%s)and" % (i, base)):
                    return True
        if isinstance(e.slice, ast.BinOp) and isinstance(e.slice.op, ast.Sub) and isinstance(e.slice.left, ast.Name) \
                and isinstance(e.slice.right, ast.Constant) and e.slice.right.value == 1:
            i = e.slice.left.id
            if ("%s > 0" % i, True) in fs:
                return True
            # X[i - 1] with i the enumerate() index over X (or sorted(X): same length) and i known not to be 0
            if n is not None and self.enum_index_over(n, i, base):
                if any((t.replace(" ", ""), tv) in (("%s==0" % i, False), ("%s!=0" % i, True), ("0<%s" % i, True), ("%s>=1" % i, True), ("not%s" % i, False), (i, True),
                                                    ("%s<=0" % i, False), ("0==%s" % i, False), ("0!=%s" % i, True), ("%s<1" % i, False)) for t, tv in fs):
                    return True
        # X.split(sep)[1] under `sep in X`
        if k == 1 and isinstance(e.value, ast.Call) and isinstance(e.value.func, ast.Attribute) and e.value.func.attr == "split" and len(e.value.args) == 1 \
                and ("%s in %s" % (src(e.value.args[0]), src(e.value.func.value)), True) in fs:
            return True
        # Y = X.split(sep) ... Y[1] under `sep in X`
        if k == 1 and isinstance(e.value, ast.Name) and n is not None:
            cfg, facts, rd, ix = self.an.flow(self.f)
            for d in rd.at(n, e.value.id):
                if not d:
                    return False
                a = cfg.nodes[d].ast
                if not (isinstance(a, ast.Assign) and isinstance(a.value, ast.Call) and isinstance(a.value.func, ast.Attribute)
                        and a.value.func.attr == "split" and len(a.value.args) == 1):
                    return False
                if ("%s in %s" % (src(a.value.args[0]), src(a.value.func.value)), True) not in fs:
                    return False
            return True
        return False

    def enum_index_over(self, n, i, base):
        """Every reaching definition of `i` at n is the index of `for i, x in enumerate(<base> | sorted(<base>))`."""
        cfg, facts, rd, ix = self.an.flow(self.f)
        defs = rd.at(n, i)
        if not defs:
            return False
        for d in defs:
            if not d or cfg.nodes[d].kind != "for":
                return False
            fo = cfg.nodes[d].ast
            it = fo.iter
            if not (isinstance(it, ast.Call) and src(it.func) == "enumerate" and len(it.args) == 1 and not it.keywords
                    and isinstance(fo.target, ast.Tuple) and isinstance(fo.target.elts[0], ast.Name) and fo.target.elts[0].id == i):
                return False
            inner = it.args[0]
            if isinstance(inner, ast.Call) and src(inner.func) in ("sorted", "list", "tuple", "reversed") and len(inner.args) == 1:
                inner = inner.args[0]
            if src(inner) != base:
                return False
        return True

    def subscript(self, e):
        if not isinstance(e.ctx, (ast.Load, ast.Del)) and not isinstance(e.ctx, ast.Load):
            return []
        bt = self.an.type_expr(e.value, self.f)
        idx = e.slice
        if self.guarded_index(e):
            return []
        # literal tuple/list/dict indexed by a comparison or an in-range constant
        if isinstance(e.value, (ast.Tuple, ast.List)):
            if isinstance(idx, ast.Compare) or (isinstance(idx, ast.Constant) and isinstance(idx.value, int) and -len(e.value.elts) <= idx.value < len(e.value.elts)):
                return []
        if isinstance(e.value, ast.Call) and src(e.value.func) in ("monthrange", "calendar.monthrange", "divmod") and isinstance(idx, ast.Constant) and idx.value in (0, 1):
            return []
        if isinstance(e.value, ast.Call) and src(e.value.func).endswith((".timetuple", ".isocalendar")) and isinstance(idx, ast.Constant):
            return []
        if isinstance(e.value, ast.Call) and isinstance(e.value.func, ast.Attribute) and e.value.func.attr in ("split", "rsplit", "splitlines") \
                and self.const_index(idx) in (0, -1):
            return []       # split() never returns an empty list
        if isinstance(e.value, ast.Name) and self.const_index(idx) in (0, -1) and self.an._at is not None:
            # name defined only from a split() call
            cfg, facts, rd, ix = self.an.flow(self.f)
            n = ix.get(id(e)) or self.an._at[1]
            defs = rd.at(n, e.value.id) if n is not None else ()
            if defs and all(d and isinstance(cfg.nodes[d].ast, ast.Assign) and isinstance(cfg.nodes[d].ast.value, ast.Call)
                            and isinstance(cfg.nodes[d].ast.value.func, ast.Attribute) and cfg.nodes[d].ast.value.func.attr in ("split", "rsplit") for d in defs):
                return []
        # d[k] where k iterates over d (dict comprehension / loop over the same dict)
        if self.key_from_same_dict(e):
            return []
        if self.index_in_known_length(e):
            return []
        out = []
        if bt & {"list", "tuple", "str", "bytes"}:
            out += self.prim("IndexError", e, "sequence index")
        if "dict" in bt:
            out += self.prim("KeyError", e, "dict lookup")
        if "none" in bt and not (bt - {"none"}):
            out += self.prim("TypeError", e, "subscript of None")
        for tag in bt:
            c = self.an.cls_of(tag)
            if c is not None and tag.startswith("obj:"):
                r = self.an.prog.class_lookup(c, "__getitem__")
                if r and isinstance(r[0], FuncInfo):
                    out += [x.via(self.site) for x in self.an.summary(r[0])]
                elif not ("list" in bt or any(b in ("list", "dict", "tuple") for b in c.base_exprs)):
                    out += self.prim("TypeError", e, "instance of %s is not subscriptable" % c.name)
        if bt == UNKNOWN or (not out and not (bt - {"unknown", "int", "bool", "float", "regex", "iter", "set"}) and "unknown" in bt):
            out += self.prim("IndexError", e, "subscript of untyped value (assumed sequence)")
            self.an.unresolved.setdefault("untyped subscript", []).append("%s: %s" % (self.f.qualname, src(e)))
        return out

    def index_in_known_length(self, e):
        """X[k] where X is a local list/tuple of statically known minimum length and k is provably inside it."""
        if not isinstance(e.value, ast.Name):
            return False
        n = self.an.node_of(self.f, e) or (self.an._at[1] if self.an._at and self.an._at[0] is self.f else None)
        if n is None:
            return False
        # `len(X) > k and X[k] ...` in the same expression
        if isinstance(e.slice, ast.Constant) and isinstance(e.slice.value, int) and e.slice.value >= 0 and n.ast is not None:
            for top in ast.walk(n.ast):
                if isinstance(top, ast.BoolOp):
                    g = expr_guards(top, e)
                    if ("len(%s) > %d" % (e.value.id, e.slice.value), True) in g or ("len(%s) >= %d" % (e.value.id, e.slice.value + 1), True) in g:
                        return True
            fs = self.facts_at(e)
            if ("len(%s) > %d" % (e.value.id, e.slice.value), True) in fs:
                return True
        L = self.an.seq_len_at(self.f, e.value.id, n)
        if L is None:
            return False
        if isinstance(e.slice, ast.Constant) and isinstance(e.slice.value, int):
            return -L <= e.slice.value < L
        if isinstance(e.slice, ast.UnaryOp) and isinstance(e.slice.op, ast.USub) and isinstance(e.slice.operand, ast.Constant):
            return e.slice.operand.value <= L
        # variable index: ask the interval engine
        try:
            from .ivl import Interp, Val
            key = ("ivl", self.f.qualname)
            if key not in self.an.flows:
                self.an.flows[key] = Interp(self.an.prog, self.f).run()
            it = self.an.flows[key]
            best = None
            for m in it.cfg.live_nodes():
                if m.ast is not None and m.id in it.IN and any(x is e for x in ast.walk(m.ast)):
                    v = it.value_at(m, e.slice)
                    ok = isinstance(v, Val) and not v.base and v.lo >= -L and v.hi < L
                    best = ok if best is None else (best and ok)
            return bool(best)
        except Exception:
            return False

    def key_from_same_dict(self, e):
        if not isinstance(e.slice, ast.Name):
            return False
        k = e.slice.id
        base = src(e.value)
        for n in walk_local(self.f.node):
            if isinstance(n, (ast.DictComp, ast.ListComp, ast.SetComp, ast.GeneratorExp)):
                for g in n.generators:
                    if isinstance(g.target, ast.Name) and g.target.id == k and src(g.iter) == base:
                        if any(x is e for x in ast.walk(n)):
                            return True
            if isinstance(n, ast.For) and isinstance(n.target, ast.Name) and n.target.id == k and src(n.iter) == base:
                if any(x is e for s in n.body for x in ast.walk(s)):
                    return True
        return False

    def binop(self, e):
        a = self.an.type_expr(e.left, self.f)
        b = self.an.type_expr(e.right, self.f)
        out = []
        if ("Decimal" in a or "Decimal" in b) and isinstance(e.op, (ast.Mod, ast.FloorDiv, ast.Div, ast.Pow)):
            out += self.prim("decimal.InvalidOperation", e, "Decimal division/remainder beyond context precision")
        if (a & {"datetime", "date"}) and (b & {"timedelta"} or b == UNKNOWN) and isinstance(e.op, (ast.Add, ast.Sub)):
            out += self.prim("OverflowError", e, "date arithmetic out of range")
        if (b & {"datetime", "date"}) and (a & {"timedelta"}) and isinstance(e.op, ast.Add):
            out += self.prim("OverflowError", e, "date arithmetic out of range")
        if isinstance(e.op, (ast.Div, ast.FloorDiv, ast.Mod)) and not (a <= {"str"}):
            if not (isinstance(e.right, ast.Constant) and e.right.value):
                if b & {"int", "float", "unknown", "Decimal"} and not self.nonzero(e.right):
                    out += self.prim("ZeroDivisionError", e, "division by a value not known to be non-zero")
        # None arithmetic
        for side, t in ((e.left, a), (e.right, b)):
            if "none" in t and (t - {"none"}) and not self.guarded_not_none(e, side):
                out += self.prim("TypeError", e, "arithmetic on a value that may be None (%s)" % src(side))
        # operator dispatch to in-package classes
        for recv, m in ((a, {ast.Add: "__add__", ast.Sub: "__sub__", ast.Mult: "__mul__"}), (b, {ast.Add: "__radd__", ast.Sub: "__rsub__", ast.Mult: "__rmul__"})):
            name = m.get(type(e.op))
            if not name:
                continue
            for tag in recv:
                c = self.an.cls_of(tag)
                if c is not None and tag.startswith("obj:"):
                    r = self.an.prog.class_lookup(c, name)
                    if r and isinstance(r[0], FuncInfo):
                        self.an.stats["calls"] += 1
                        self.an.stats["resolved"] += 1
                        out += [x.via(self.site) for x in self.an.summary(r[0])]
        return out

    def enclosing_root(self, e):
        return e

    def nonzero(self, e):
        if isinstance(e, ast.Constant):
            return bool(e.value)
        if isinstance(e, ast.Call) and src(e.func) in ("gcd", "len") and src(e.func) == "gcd":
            return True
        return False

    def compare(self, e):
        out = []
        if any(isinstance(o, (ast.Lt, ast.LtE, ast.Gt, ast.GtE)) for o in e.ops):
            operands = [e.left] + list(e.comparators)
            for o in operands:
                t = self.an.type_expr(o, self.f)
                if "none" in t and not self.guarded_not_none(e, o):
                    out += self.prim("TypeError", e, "ordering comparison with a value that may be None (%s)" % src(o))
        return out

    # ----------------------------------------------------------------- calls
    def call(self, e):
        out = []
        fn = src(e.func)
        for a in e.args:
            out += self.expr(a)
        for k in e.keywords:
            out += self.expr(k.value)
        if isinstance(e.func, ast.Attribute):
            out += self.expr(e.func.value)
        elif isinstance(e.func, ast.Call):
            out += self.expr(e.func)
        self.an.stats["calls"] += 1
        # ---- primitives by name
        last = fn.split(".")[-1]
        a0 = self.an.type_expr(e.args[0], self.f) if e.args and not isinstance(e.args[0], ast.Starred) else None
        if fn in ("int", "float"):
            if a0 is None or not (a0 <= {"int", "bool", "float", "Decimal"}):
                out += self.prim("ValueError", e, "%s() of text" % fn)
            if a0 is not None and "none" in a0 and not self.guarded_not_none(e, e.args[0]):
                out += self.prim("TypeError", e, "%s() of a value that may be None" % fn)
            if fn == "int" and a0 is not None and "float" in a0:
                out += self.prim("OverflowError", e, "int() of a float that may be inf")
                out += self.prim("ValueError", e, "int() of a float that may be nan")
            return out + self.resolved(e, prim_only=True)
        if fn in ("Decimal", "decimal.Decimal"):
            return out + self.prim("decimal.InvalidOperation", e, "Decimal() of malformed text")
        if fn in ("next", "advance_iterator", "six.advance_iterator") and len(e.args) == 1:
            out += self.prim("StopIteration", e, "iterator exhausted")
            out += self.iter_next(e.args[0])
            return out
        if fn == "getattr" and len(e.args) == 2:
            if self.getattr_over_known_names(e):
                return out
            return out + self.prim("AttributeError", e, "2-argument getattr")
        if fn in ("struct.unpack",):
            return out + self.prim("struct.error", e, "short read")
        if fn == "open":
            return out + self.prim("OSError", e, "open")
        if fn in ("monthrange", "calendar.monthrange"):
            return out + self.prim("ValueError", e, "month/year out of range (IllegalMonthError is a ValueError)")
        if fn in ("datetime.datetime", "datetime", "datetime.date", "date", "datetime.time", "datetime.timedelta", "timedelta") or \
                (fn == "time" and "datetime" in str(self.f.module.imports.get("time", ""))):
            if "timedelta" in fn:
                return out      # timedelta accepts +-999999999 days; its arguments here are field-sized
            out += self.prim("ValueError", e, "date/time field out of range")
            if self.an.ctor_overflow:
                out += self.prim("OverflowError", e, "date/time field too large for a C int")
            return out
        if fn in ("datetime.datetime.combine", "datetime.combine"):
            return out
        if fn in ("datetime.date.fromordinal", "datetime.datetime.fromordinal", "date.fromordinal"):
            return out + self.prim("ValueError", e, "ordinal out of range") + (self.prim("OverflowError", e, "ordinal out of range") if self.an.ctor_overflow else [])
        if isinstance(e.func, ast.Attribute):
            bt = self.an.type_expr(e.func.value, self.f)
            m = e.func.attr
            if bt & {"datetime", "date", "time"} and m == "replace":
                return out + self.prim("ValueError", e, "replace() with a field out of range")
            if bt & {"datetime", "date"} and m in ("astimezone",):
                return out + self.prim("OverflowError", e, "astimezone out of range") + self.prim("ValueError", e, "astimezone")
            if m in ("encode", "decode") and (bt <= {"str", "bytes", "unknown"}):
                return out + self.prim("UnicodeError", e, ".%s()" % m)
            if m == "index" and (bt & {"list", "tuple", "str"}):
                return out + self.prim("ValueError", e, ".index() of a missing element")
            if m == "remove" and "list" in bt:
                return out + self.prim("ValueError", e, "list.remove of a missing element")
            if m == "pop" and "dict" in bt and len(e.args) == 1:
                return out + self.prim("KeyError", e, "dict.pop without default")
            if m == "pop" and "list" in bt:
                if (src(e.func.value), True) in self.facts_at(e):
                    return out          # `if xs: xs.pop(...)`
                return out + self.prim("IndexError", e, "pop from empty list")
            if m == "popitem" and "dict" in bt:
                return out + self.prim("KeyError", e, "popitem from empty dict")
            if m in ("seek", "read") and bt == UNKNOWN:
                return out
            if m == "total_seconds":
                return out
        if fn in ("list", "tuple", "sorted", "set", "sum", "any", "all", "max", "min", "dict", "enumerate", "zip", "map") and e.args:
            out += self.iteration(e.args[0])
            if fn in ("max", "min") and len(e.args) == 1 and not any(k.arg == "default" for k in e.keywords):
                t = self.an.type_expr(e.args[0], self.f)
                out += self.prim("ValueError", e, "%s() of an empty sequence" % fn)
            return out
        if fn.endswith("raise_from"):
            return out      # handled by Raise
        return out + self.resolved(e)

    def guarded_not_none(self, root, operand):
        text = src(operand)
        fs = self.facts_at(root)
        if (text + " is not None", True) in fs or (text + " is None", False) in fs or (text, True) in fs:
            return True
        # enclosing short-circuit / conditional expression in the same statement
        n = self.an.node_of(self.f, root)
        if n is not None and n.ast is not None:
            for top in ast.walk(n.ast):
                if isinstance(top, (ast.BoolOp, ast.IfExp, ast.GeneratorExp, ast.ListComp)):
                    if isinstance(top, (ast.GeneratorExp, ast.ListComp)):
                        top = top.elt
                    g = expr_guards(top, root)
                    if (text + " is not None", True) in g or (text + " is None", False) in g or (text, True) in g:
                        return True
        return False

    def getattr_over_known_names(self, e):
        """getattr(obj, name) where `name` iterates over string constants that are attributes of obj's class."""
        nm = e.args[1]
        if not isinstance(nm, ast.Name):
            return False
        names = None
        for n in walk_local(self.f.node):
            if isinstance(n, (ast.For, ast.comprehension)) and isinstance(n.target, ast.Name) and n.target.id == nm.id:
                if isinstance(n.iter, (ast.Tuple, ast.List)) and all(isinstance(x, ast.Constant) and isinstance(x.value, str) for x in n.iter.elts):
                    names = [x.value for x in n.iter.elts]
                elif isinstance(n.iter, ast.Attribute) and n.iter.attr in ("__slots__", "attrs"):
                    return True     # iterating the class's own slot list
        if not names:
            return False
        t = self.an.type_expr(e.args[0], self.f)
        if "none" in t and self.guarded_not_none(e, e.args[0]):
            t = t - {"none"}
        t = t - {"none_default"}
        for tag in t:
            c = self.an.cls_of(tag)
            if c is None:
                return False
            have = set()
            for k in self.an.prog.mro(c):
                if isinstance(k, ClassInfo):
                    sl = k.assigns.get("__slots__")
                    if isinstance(sl, (ast.List, ast.Tuple)):
                        have |= set(x.value for x in sl.elts if isinstance(x, ast.Constant))
                    for m in k.methods.values():
                        for x in walk_local(m.node):
                            if isinstance(x, ast.Attribute) and isinstance(x.ctx, ast.Store) and isinstance(x.value, ast.Name) and x.value.id == "self":
                                have.add(x.attr)
            if not set(names) <= have:
                return False
        return bool(t) and t != UNKNOWN

    def iter_next(self, itnode):
        out = []
        t = self.an.type_expr(itnode, self.f)
        for tag in t:
            if tag.startswith("gen:"):
                g = self.an.prog.functions.get(tag[4:])
                if g is not None:
                    out += [r.via(self.site) for r in self.an.summary(g)]
            c = self.an.cls_of(tag)
            if c is not None and tag.startswith("obj:"):
                r = self.an.prog.class_lookup(c, "__next__")
                if r and isinstance(r[0], FuncInfo):
                    out += [x.via(self.site) for x in self.an.summary(r[0])]
        return out

    def resolved(self, e, prim_only=False):
        if prim_only:
            return []
        callee = self.an.resolve_call(e, self.f)
        if not callee:
            self.an.stats["unresolved"] += 1
            self.an.unresolved.setdefault("opaque call", []).append("%s: %s" % (self.f.qualname, src(e.func)))
            return []
        self.an.stats["resolved"] += 1
        out = []
        fs = None
        for c in callee:
            if isinstance(c, ClassInfo):
                continue
            if any(a for a in [1]):
                try:
                    fs = fs if fs is not None else self.facts_at(e)
                except Exception:
                    fs = frozenset()
            target = c
            self.an.bind_args(e, target, self.f, fs)
            # decorated callee: the wrapper runs first
            for d in target.decorators:
                dn = d.split("(")[0]
                if dn in ("staticmethod", "classmethod", "property", "wraps", "tzname_in_python2") or dn.endswith((".setter", "add_metaclass")):
                    continue
                dr = self.an.prog.resolve_dotted(dn, target.module, target.cls, target)
                if isinstance(dr, FuncInfo):
                    inner = [x for x in self.an.prog.functions.values() if x.parent is dr]
                    for w in inner:
                        # wrapper params (self, x, ...) get the call's argument types; `f` inside stands for target
                        self.an.param_types.setdefault((w.qualname, "f"), frozenset(["func:" + target.qualname]))
                        if self.an.param_types[(w.qualname, "f")] != frozenset(["func:" + target.qualname]):
                            self.an.param_types[(w.qualname, "f")] = self.an.param_types[(w.qualname, "f")] | frozenset(["func:" + target.qualname])
                        out += [x.via(self.site) for x in self.an.summary(w)]
            out += [x.via(self.site) for x in self.an.summary(target)]
        # calling a generator function raises nothing by itself
        return [r for r in out] if not all(isinstance(c, FuncInfo) and c.is_generator for c in callee) else []


def check_escape(ctx, rule, entry, allowed, seeds=None, suppress=None, user=(), explicit_ok=(), min_functions=1, label=None, ctor_overflow=True):
    """One obligation per (exception, primitive site) escaping `entry`."""
    an = Analyzer(ctx.prog, seeds=seeds or {}, suppress=suppress or {}, user_callables=user, ctor_overflow=ctor_overflow)
    res = an.escapes(entry)
    ctx.stat(rule + ".functions_reached", an.stats["functions"])
    ctx.stat(rule + ".primitive_sites", an.stats["primitive_sites"])
    ctx.floor(rule, an.stats["functions"], min_functions, "functions reachable from %s" % entry.qualname)
    label = label or entry.qualname.split("dateutil.")[-1]
    n = 0
    for r in sorted(res, key=lambda r: r.key()):
        q = r.site.split(" ")[-1]
        ok = any(is_sub(r.exc, a) for a in allowed)
        why = ""
        if not ok and r.kind == "explicit" and (q, r.exc) in explicit_ok:
            ok, why = True, "explicit raise accepted for this entry point"
        n += 1
        ctx.ob(rule, entry, "only %s escape %s" % ("/".join(allowed), label), ok,
               construct="%s escapes %s from %s: %s" % (r.exc, label, ".".join(q.split(".")[-2:]), r.construct.split(" [")[0]),
               detail=why if ok else "raised at %s (%s); call path %s" % (r.site, r.construct, " > ".join(c.split(".")[-1] for c in r.chain) or "(entry)"),
               analysis="EXC effect analysis")
    for q, c, exc, reason in sorted(set(an.used_suppressions)):
        ctx.suppress(rule, "%s: %s (%s)" % (q, c, exc), reason)
    if n == 0:
        ctx.ob(rule, entry, "nothing at all can escape %s" % label, True, construct="no escaping exception from %s" % label, analysis="EXC effect analysis")
    return an, res
