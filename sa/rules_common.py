"""Rules shared between properties."""
import ast

from .model import src, walk_local, AnalysisError
from .lock import has_yield
from .rules_lock import stmt_text


def assigns_attr(node, attr_src):
    """CFG stmt node assigns to attribute expression `attr_src` (e.g. 'self._len')."""
    a = node.ast
    if node.kind != "stmt" or not isinstance(a, (ast.Assign, ast.AugAssign)):
        return False
    targets = a.targets if isinstance(a, ast.Assign) else [a.target]
    for t in targets:
        for x in ast.walk(t):
            if isinstance(x, ast.Attribute) and src(x) == attr_src and isinstance(x.ctx, ast.Store):
                return True
    return False


def check_len_published(ctx, rule):
    """Every normal exit of rrule._iter / rruleset._iter is preceded, after the last yield, by
    `self._len = <counter>`, and <counter> is incremented exactly once before each yield."""
    prog = ctx.prog
    total_exits = 0
    for q in ("rrule.rrule._iter", "rrule.rruleset._iter"):
        f = prog.func(q, rule)
        cfg = ctx.cfg(f)
        yields = [n for n in cfg.live_nodes() if has_yield(n)]
        if not yields:
            raise AnalysisError(rule, f.qualname, "generator has no yield: idiom not modelled")
        pubs = [n for n in cfg.live_nodes() if assigns_attr(n, "self._len")]
        counters = set()
        for n in pubs:
            if isinstance(n.ast, ast.Assign) and isinstance(n.ast.value, ast.Name):
                counters.add(n.ast.value.id)
        # an iterator that finds itself overtaken by an invalidation (C10.STALE) must NOT publish: the branch edges on which
        # the generation is known to be stale are not exits that owe a publication
        stale = Generation(ctx, rule, prog.cls("rrule.rrulebase", rule)).stale_edges(f)
        stale_ids = set((b.id, l) for b, l in stale)
        # one obligation per predecessor edge of the normal exit
        for p, lab in cfg.exit.pred:
            if (p.id, lab) in stale_ids:
                continue
            total_exits += 1
            # is there a path (entry|yield) -> p that avoids every publication node?  (p itself may be one)
            if p in pubs:
                ok, detail = True, ""
            else:
                ok = True
                detail = ""
                for s in [cfg.entry] + yields:
                    path = cfg.path_avoiding(s, [p], avoid_nodes=pubs, avoid_edges=stale)
                    if path or s is p:
                        ok = False
                        detail = "path without `self._len = ...`: %s" % (
                            " -> ".join("L%d" % x.lineno for x in (path or [p]) if x.lineno))
                        break
            ctx.ob(rule, f, "generator exit is preceded by publication of self._len after the last yield", ok,
                   construct="exit via: %s" % stmt_text(p), detail=detail, analysis="CFG must-pass-through")
        if len(counters) != 1:
            ctx.ob(rule, f, "self._len is published from one counter variable", False,
                   construct="counters=%s" % sorted(counters), detail="expected exactly one Name on the right-hand side")
            continue
        cname = next(iter(counters))
        incs, inits, other = [], [], []
        for n in cfg.live_nodes():
            a = n.ast
            if n.kind == "stmt" and isinstance(a, ast.AugAssign) and isinstance(a.target, ast.Name) and a.target.id == cname:
                if isinstance(a.op, ast.Add) and isinstance(a.value, ast.Constant) and a.value.value == 1:
                    incs.append(n)
                else:
                    other.append(n)
            elif n.kind == "stmt" and isinstance(a, ast.Assign) and any(
                    isinstance(t, ast.Name) and t.id == cname for t in a.targets):
                if isinstance(a.value, ast.Constant) and a.value.value == 0:
                    inits.append(n)
                else:
                    other.append(n)
            elif n.kind == "for" and cname in [x.id for x in ast.walk(a.target) if isinstance(x, ast.Name)]:
                other.append(n)
        ctx.ob(rule, f, "the counter %s starts at 0 and is only ever incremented by 1" % cname,
               len(inits) == 1 and not other and cfg.dominates(inits, yields[0]) if inits else False,
               construct="counter %s: inits=%d incs=%d other-writes=%d" % (cname, len(inits), len(incs), len(other)),
               detail="; ".join(stmt_text(n) for n in other))
        for y in yields:
            # at least one increment since the previous yield / entry
            miss = None
            for s in [cfg.entry] + yields:
                path = cfg.path_avoiding(s, [y], avoid_nodes=incs, include_start=True)
                if path:
                    miss = path
                    break
            ctx.ob(rule, f, "every yielded item is counted (%s += 1 on every path to the yield since the previous one)" % cname,
                   miss is None, construct="count-before: %s" % stmt_text(y),
                   detail="" if miss is None else "uncounted path %s" % " -> ".join("L%d" % x.lineno for x in miss if x.lineno),
                   analysis="CFG must-pass-through")
        for i in incs:
            # at most one: no path increment -> increment avoiding yields; and no path increment -> exit avoiding yields
            # unless... (an increment not followed by a yield would over-count)
            path = cfg.path_avoiding(i, incs, avoid_nodes=yields)
            path2 = cfg.path_avoiding(i, [cfg.exit], avoid_nodes=yields)
            bad = path or path2
            ctx.ob(rule, f, "every increment of %s is followed by exactly one yield before the next increment or exit" % cname,
                   not bad, construct="count-once: %s L%d" % (stmt_text(i), 0) if False else "count-once: %s #%d" % (stmt_text(i), incs.index(i)),
                   detail="" if not bad else "path %s" % " -> ".join("L%d" % x.lineno for x in bad if x.lineno),
                   analysis="CFG path query")
    ctx.floor(rule, total_exits, 8, "normal exits of rrule._iter and rruleset._iter")


def region_function(prog, func, stmts, params, name="_region"):
    """A synthetic function whose body is a copy of `stmts` (a region of `func`), for analysing that region alone."""
    import copy
    from .model import FuncInfo
    node = ast.FunctionDef(name=name, args=ast.arguments(posonlyargs=[], args=[ast.arg(arg=p) for p in params], kwonlyargs=[], kw_defaults=[], defaults=[]),
                           body=[copy.deepcopy(s) for s in stmts], decorator_list=[], returns=None, type_comment=None, type_params=[])
    ast.fix_missing_locations(node)
    for s, o in zip(node.body, stmts):
        ast.copy_location(s, o)
    f = FuncInfo(func.qualname + "." + name, node, func.module, func.cls, func.parent)
    return f


def check_month_carry(ctx, rule, func, region_func, sink_pred, seeds_for, months, shifts, what):
    """Constant propagation over every (month, shift) class: at the sink the month is ((m-1+k) mod 12)+1 and the year
    has moved by floor((m-1+k)/12).  The carry code reads the month only through comparisons and div/mod by 12, so
    these classes cover every input of the clause."""
    from .ivl import Interp, Val
    bad = []
    n = 0
    sink_src = None
    for m in months:
        for k in shifts:
            it = Interp(ctx.prog, region_func, seeds=seeds_for(m, k)).run()
            sinks = []
            for node in it.cfg.live_nodes():
                if node.kind == "stmt" and node.ast is not None and node.id in it.IN:
                    for x in ast.walk(node.ast):
                        if isinstance(x, ast.Call) and sink_pred(x):
                            sinks.append((node, x))
            if not sinks:
                raise AnalysisError(rule, func.qualname, "carry sink not found in the region")
            total = m - 1 + k
            want_m, want_y = total % 12 + 1, total // 12
            n += 1
            for node, call in sinks:
                sink_src = src(call)
                yv = it.value_at(node, call.args[0])
                mv = it.value_at(node, call.args[1])
                ok = isinstance(mv, Val) and mv.lo == mv.hi == want_m and isinstance(yv, Val) and yv.base == "Y" and yv.lo == yv.hi == want_y
                if not ok:
                    bad.append((m, k, mv, yv, want_m, want_y))
    ctx.stat(rule + ".classes", n)
    ctx.ob(rule, func, what, not bad, construct="month/year at %s" % sink_src,
           detail="" if not bad else "month %d shifted by %+d: month=%r year=%r, expected month %d and year Y%+d (%d of %d classes differ)" % (bad[0] + (len(bad), n)),
           analysis="constant propagation over a finite partition (month x shift)")


# ------------------------------------------------------------------ sign tables
def _blocks(fnode):
    """Every statement list of a function with its owner statement."""
    out = []

    def rec(body):
        out.append(body)
        for st in body:
            if isinstance(st, (ast.FunctionDef, ast.ClassDef, ast.AsyncFunctionDef)):
                continue
            for fld in ("body", "orelse", "finalbody"):
                sub = getattr(st, fld, None)
                if isinstance(sub, list) and sub:
                    rec(sub)
            for h in getattr(st, "handlers", []) or []:
                rec(h.body)
    rec(fnode.body)
    return out


def _contains(st, node):
    return any(x is node for x in ast.walk(st))


def sign_variables(fnode):
    """Local names every assignment of which is the constant +1 or -1 (a sign factor)."""
    vals = {}
    for n in walk_local(fnode):
        if isinstance(n, ast.Assign):
            for t in n.targets:
                if isinstance(t, ast.Name):
                    v = n.value
                    ok = False
                    if isinstance(v, ast.UnaryOp) and isinstance(v.op, (ast.USub, ast.UAdd)):
                        v = v.operand
                    if isinstance(v, ast.Constant) and v.value == 1 and not isinstance(v.value, bool):
                        ok = True
                    vals.setdefault(t.id, []).append(ok)
                elif isinstance(t, (ast.Tuple, ast.List)):
                    for x in ast.walk(t):
                        if isinstance(x, ast.Name):
                            vals.setdefault(x.id, []).append(False)
        elif isinstance(n, (ast.AugAssign, ast.For, ast.With)):
            for x in ast.walk(getattr(n, "target", None) or ast.Pass()):
                if isinstance(x, ast.Name):
                    vals.setdefault(x.id, []).append(False)
    return set(k for k, v in vals.items() if v and all(v))


def sign_cases(ctx, rule, func, sink_pred, value_of, ignore_atoms=()):
    """{(sink label, class, sign)}: for each sink (an effect selected by sink_pred) the sign of its value's normal form per
    class of the sign character: 'plus' (X == '+'), 'minus' (X == '-', or not '+' while X in ('+', '-')), 'bare' (X not in
    ('+', '-')), 'any'.  The region analysed is the smallest block holding the sink and every assignment of the sign
    variables it reads; facts holding at the region's start are added to each path."""
    from . import summ
    from .linform import poly
    cfg = ctx.cfg(func)
    facts = ctx.facts(func)
    svars = sign_variables(func.node)
    out = set()
    n_sinks = 0
    blocks = _blocks(func.node)
    # sink statements: innermost simple statements containing a matching call / store
    for st in [x for x in walk_local(func.node) if isinstance(x, (ast.Assign, ast.AugAssign, ast.Expr, ast.Return))]:
        probe = summ.Summariser([st], func.qualname).run()
        hits = [ef for p in probe for ef in p.effects if sink_pred(ef)]
        if not hits:
            continue
        used = set(x.id for x in ast.walk(st) if isinstance(x, ast.Name) and x.id in svars)
        if not used:
            continue
        n_sinks += 1
        from .cfg import ReachingDefs
        rd = ReachingDefs(cfg, params=func.params)
        defs = []
        for sn in cfg.nodes_of(st):
            for nm in used:
                for d in rd.at(sn, nm):
                    if d and cfg.nodes[d].ast is not None and cfg.nodes[d].ast not in defs:
                        defs.append(cfg.nodes[d].ast)
        best = None
        for b in blocks:
            idx_sink = [i for i, s_ in enumerate(b) if _contains(s_, st)]
            if not idx_sink:
                continue
            idx_defs = [[i for i, s_ in enumerate(b) if _contains(s_, d)] for d in defs]
            if any(not i for i in idx_defs):
                continue
            lo = min(min(i) for i in idx_defs)
            hi = idx_sink[0]
            if lo > hi:
                continue
            if best is None or len(ast.dump(ast.Module(body=b[lo:hi + 1], type_ignores=[]))) < best[0]:
                best = (len(ast.dump(ast.Module(body=b[lo:hi + 1], type_ignores=[]))), b[lo:hi + 1])
        if best is None:
            raise AnalysisError(rule, func.qualname, "no block holds the sign assignments and their use `%s`" % stmt_text_ast(st))
        region = best[1]
        start_nodes = cfg.nodes_of(region[0])
        pre = set()
        for sn in start_nodes:
            for t, tv in facts.at(sn):
                try:
                    pre.add(summ.atom_of(t, tv))
                except SyntaxError:
                    pass
        for p in summ.paths_of(region, qualname=func.qualname):
            for ef in p.effects:
                if not sink_pred(ef) or not _contains_effect(st, ef):
                    continue
                v = value_of(ef)
                try:
                    pl = poly(v)
                except Exception:
                    pl = {}
                coeffs = [c for m, c in pl.items() if not any((ignore_atoms(a) if callable(ignore_atoms) else a in ignore_atoms) for a in m)]
                sign = "0" if not coeffs else ("+1" if all(c > 0 for c in coeffs) else ("-1" if all(c < 0 for c in coeffs) else "mixed"))
                conds = set(p.conds) | pre
                out.add((_sink_label(ef), _sign_class(conds), sign))
    return out, n_sinks


def _contains_effect(st, ef):
    k, t, e = ef
    # effects carry substituted copies; match on the effect's position
    ln = getattr(e, "lineno", None)
    return ln is None or (st.lineno <= ln <= getattr(st, "end_lineno", st.lineno))


def _sink_label(ef):
    k, t, e = ef
    return "%s %s" % (k, t)


def stmt_text_ast(st):
    return src(st).split("\n")[0][:80]


def _sign_class(conds):
    plus = minus = tup = None
    for a, tv in conds:
        if a[0] == "==" and "'+'" in (a[1], a[2]):
            plus = tv
        elif a[0] == "==" and "'-'" in (a[1], a[2]):
            minus = tv
        elif a[0] == "in" and "'+'" in a[2] and "'-'" in a[2] and a[2].startswith("("):
            tup = tv
    if plus is True or (minus is False and tup is True):
        return "plus"
    if minus is True or (plus is False and tup is True):
        return "minus"
    if tup is False:
        return "bare"
    if plus is False:
        return "notplus"
    if minus is False:
        return "notminus"
    return "any"


# ------------------------------------------------------------------ value sets
def _path_in_target(t, name):
    """Index path of `name` inside an unpacking target ((a, (b, c)) -> c is [1, 1]); [] when t is the name itself."""
    if isinstance(t, ast.Name):
        return [] if t.id == name else None
    if isinstance(t, (ast.Tuple, ast.List)):
        for i, e in enumerate(t.elts):
            if isinstance(e, ast.Starred):
                return None
            r = _path_in_target(e, name)
            if r is not None:
                return [i] + r
    return None


def value_set(ctx, func, node, expr, depth=5, limit=64, stop=None):
    """Source texts `expr` can stand for at CFG node `node`, with local temporaries replaced by (each of) their
    reaching definitions, recursively.  Names with a parameter / loop definition stay as they are."""
    import copy
    import itertools
    from .cfg import ReachingDefs
    cfg = ctx.cfg(func)
    key = ("rd", func.qualname)
    cache = ctx.__dict__.setdefault("_rdcache", {})
    if key not in cache:
        cache[key] = ReachingDefs(cfg, params=func.params)
    rd = cache[key]

    def defs_of(n, name):
        out = []
        for d in sorted(rd.at(n, name)):
            if not d:
                return None
            dn = cfg.nodes[d]
            a = dn.ast
            if dn.kind == "for":
                # for i, (a, b) in enumerate(S): a is S[i][0];  for x in S: x stays a symbol
                it, tg = a.iter, a.target
                if isinstance(it, ast.Call) and src(it.func) == "enumerate" and len(it.args) == 1 and isinstance(tg, ast.Tuple) and len(tg.elts) == 2 \
                        and isinstance(tg.elts[0], ast.Name):
                    if tg.elts[0].id == name:
                        return None
                    base = ast.Subscript(value=it.args[0], slice=ast.Name(id=tg.elts[0].id, ctx=ast.Load()), ctx=ast.Load())
                    p_ = _path_in_target(tg.elts[1], name)
                    if p_ is None:
                        return None
                    for k_ in p_:
                        base = ast.Subscript(value=base, slice=ast.Constant(value=k_), ctx=ast.Load())
                    out.append((dn, base))
                    continue
                return None
            if dn.kind != "stmt" or not isinstance(a, ast.Assign) or len(a.targets) != 1:
                return None
            t = a.targets[0]
            if isinstance(t, ast.Name) and t.id == name:
                out.append((dn, a.value))
            elif isinstance(t, (ast.Tuple, ast.List)) and isinstance(a.value, (ast.Tuple, ast.List)) and len(t.elts) == len(a.value.elts):
                hit = [v for te, v in zip(t.elts, a.value.elts) if isinstance(te, ast.Name) and te.id == name]
                if not hit:
                    return None
                out.append((dn, hit[0]))
            elif isinstance(t, (ast.Tuple, ast.List)):
                p_ = _path_in_target(t, name)
                if p_ is None:
                    return None
                base = a.value
                for k_ in p_:
                    base = ast.Subscript(value=base, slice=ast.Constant(value=k_), ctx=ast.Load())
                out.append((dn, base))
            else:
                return None
        return out or None

    def expand(n, e, dep, seen):
        names = []
        for x in ast.walk(e):
            if isinstance(x, ast.Name) and isinstance(x.ctx, ast.Load) and x.id not in [y for y, _ in names]:
                ds = defs_of(n, x.id) if dep > 0 else None
                if ds is not None and stop is not None and any(stop(v) for _, v in ds):
                    ds = None       # a data source: the name is a leaf
                if ds is not None and any(isinstance(v, (ast.List, ast.Dict, ast.Set, ast.ListComp, ast.SetComp, ast.DictComp, ast.GeneratorExp)) for _, v in ds):
                    ds = None       # a container built up later: the name is the container
                if ds is not None and not any((dn.id, x.id) in seen for dn, _ in ds):
                    names.append((x.id, ds))
        if not names:
            return {src(e)}
        out = set()
        choices = [[(nm, dn, v) for dn, v in ds] for nm, ds in names]
        for combo in itertools.islice(itertools.product(*choices), limit):
            subs = {}
            for nm, dn, v in combo:
                subs[nm] = expand(dn, v, dep - 1, seen | {(dn.id, nm)})
            for pick in itertools.islice(itertools.product(*[sorted(subs[nm]) for nm, _, _ in combo]), limit):
                m = dict(zip([nm for nm, _, _ in combo], pick))

                class R(ast.NodeTransformer):
                    def visit_Name(self, x):
                        if isinstance(x.ctx, ast.Load) and x.id in m:
                            return ast.parse(m[x.id], mode="eval").body
                        return x
                out.add(src(R().visit(copy.deepcopy(e))))
        return out
    return expand(node, expr, depth, frozenset())


# ------------------------------------------------------------------ call sites vs signatures
ARG_SCOPE = {
    "C01": ["rrule.rrule", "rrule._iterinfo"], "C10": ["rrule.rruleset"], "C12": ["rrule.rrulebase"], "C13": ["rrule._rrulestr"],
    "C02": ["parser._parser.parser", "parser._parser._ymd", "parser._parser.parserinfo", "parser._parser._resultbase"], "C15": ["parser._parser.parser"],
    "C03": ["relativedelta.relativedelta"], "C07": ["parser.isoparser.isoparser"], "C20": ["parser.isoparser.isoparser"],
    "C06": ["tz.tz.tzfile"], "C08": ["tz.tz.tzstr", "tz.tz.tzrange", "parser._parser._tzparser"], "C17": ["tz.tz.tzical", "tz.tz._tzicalvtz"],
    "C04": ["tz._common._tzinfo", "tz._common.tzrangebase", "tz.tz.tzutc", "tz.tz.tzoffset", "tz.tz.tzlocal"],
    "C05": ["tz.tz.tzfile", "tz.tz.tzlocal", "tz._common._tzinfo", "tz._common.tzrangebase"], "C09": ["relativedelta.relativedelta"],
    "C11": ["rrule.rrulebase"], "C14": ["parser._parser.parser", "parser._parser._timelex", "parser._parser._ymd", "parser._parser.parserinfo"],
    "C16": ["relativedelta.relativedelta", "_common.weekday"], "C18": ["tz._factories._TzSingleton", "tz._factories._TzOffsetFactory", "tz._factories._TzStrFactory"],
}


def check_call_arguments(ctx, rule, prop):
    """A variable that carries the name of one of the callee's parameters is passed in that parameter's position:
    at every call of an in-package function / method from the property's classes, a positional argument `a` that is a
    plain name equal to the name of a *different* parameter of the callee is a transposition."""
    from .model import FuncInfo
    prog = ctx.prog
    n_calls = 0
    for cq in ARG_SCOPE.get(prop, []):
        c = prog.cls(cq, rule)
        for name, f in sorted(c.methods.items()):
            for x in walk_local(f.node):
                if not isinstance(x, ast.Call):
                    continue
                fn = x.func
                callee = None
                if isinstance(fn, ast.Attribute) and isinstance(fn.value, ast.Name) and fn.value.id == "self":
                    r = prog.class_lookup(c, fn.attr)
                    if r and isinstance(r[0], FuncInfo):
                        callee = r[0]
                elif isinstance(fn, ast.Name):
                    r = prog.resolve_dotted(fn.id, f.module, c, f)
                    if isinstance(r, FuncInfo):
                        callee = r
                if callee is None:
                    continue
                params = callee.positional_params
                if params and params[0] in ("self", "cls") and isinstance(fn, ast.Attribute):
                    params = params[1:]
                named = [(i, a.id) for i, a in enumerate(x.args) if isinstance(a, ast.Name) and i < len(params) and a.id in params]
                if not named:
                    continue
                n_calls += 1
                bad = [(i, a) for i, a in named if a != params[i]]
                ctx.ob(rule, f, "arguments named like the callee's parameters are passed in those parameters' positions", not bad,
                       construct="%s -> %s(%s)" % (f.name, callee.name, ", ".join(a for _, a in named)),
                       detail="" if not bad else "`%s` is passed where %s expects `%s`" % (bad[0][1], callee.name, params[bad[0][0]]),
                       analysis="call site / signature agreement over resolved callees")
    return n_calls


# ------------------------------------------------------------------ differential rules against the confirmed baseline
def check_effect_table(ctx, rule, func, what, construct=None, **kw):
    """The function's table of effects (stores, statements executed for their effect incl. yields, values a loop hands to
    its next iteration, result) per consistent atom assignment is the confirmed one.  Loops contribute one symbolic
    iteration."""
    from . import summ, equiv
    kw.setdefault("loops", "body")
    kw.setdefault("alpha", "auto")
    saved = set(summ.INT_NAMES)
    summ.INT_NAMES.update(INT_FIELDS.get(func.qualname.split("dateutil.", 1)[-1], ()))
    try:
        return summ.check_baseline(ctx, rule, func, what, construct=construct, outcome=equiv.loose_outcome, **kw)
    finally:
        summ.INT_NAMES.clear()
        summ.INT_NAMES.update(saved)


def presence_tests(fnode):
    """{operand text: set of kinds} for the tests `X is None` / `X is not None` ('none') and bare truthiness `X` / `not X`
    ('truthy') applied to a name or attribute chain X anywhere in the function's conditions."""
    out = {}

    def operand(e):
        from .model import attr_chain
        if isinstance(e, ast.Call) and isinstance(e.func, ast.Name) and e.func.id == "getattr" and len(e.args) == 2 and not e.keywords \
                and all(isinstance(a, (ast.Name, ast.Constant)) for a in e.args):
            return "getattr(%s, <name>)" % src(e.args[0])        # a field read by name: the loop variable's name is not part of the question
        return ".".join(attr_chain(e)) if attr_chain(e) else None

    def visit_test(e):
        if isinstance(e, ast.UnaryOp) and isinstance(e.op, ast.Not):
            return visit_test(e.operand)
        if isinstance(e, ast.BoolOp):
            for v in e.values:
                visit_test(v)
            return
        if isinstance(e, ast.Compare) and len(e.ops) == 1 and isinstance(e.ops[0], (ast.Is, ast.IsNot)) and isinstance(e.comparators[0], ast.Constant) \
                and e.comparators[0].value is None:
            o = operand(e.left)
            if o:
                out.setdefault(o, set()).add("none")
            return
        o = operand(e) if isinstance(e, (ast.Name, ast.Attribute, ast.Call)) else None
        if o:
            out.setdefault(o, set()).add("truthy")
    for n in walk_local(fnode):
        if isinstance(n, (ast.If, ast.While, ast.IfExp, ast.Assert)):
            visit_test(n.test)
        elif isinstance(n, ast.BoolOp):
            # `a or default` / `x and y` used as values test their leading operands for truthiness; a boolean formula
            # (some operand is a negation or a comparison) tests all of them
            formula = any(isinstance(v, (ast.Compare, ast.BoolOp)) or (isinstance(v, ast.UnaryOp) and isinstance(v.op, ast.Not)) for v in n.values)
            for v in (n.values if formula else n.values[:-1]):
                visit_test(v)
        elif isinstance(n, ast.comprehension):
            for c in n.ifs:
                visit_test(c)
        elif isinstance(n, (ast.GeneratorExp, ast.ListComp, ast.SetComp)) and (isinstance(n.elt, (ast.Compare, ast.BoolOp)) or (
                isinstance(n.elt, ast.UnaryOp) and isinstance(n.elt.op, ast.Not))):
            # sum(<test> for ...), any(...), all(...): the element is a test
            visit_test(n.elt)
    return out


def check_presence_tests(ctx, rule, classes=(), functions=()):
    """For an option or field where 0 / empty is a value of its own, `is None` and truthiness are different questions.
    Every name / attribute tested in a function of the scope is tested in the same way(s) as in the confirmed baseline
    (operands that no longer occur, or are new, are not compared)."""
    from . import summ
    prog = ctx.prog
    funcs = list(functions)
    for cq in classes:
        c = prog.cls(cq, rule)
        funcs += [f for _, f in sorted(c.methods.items())]
    n = 0
    for f in funcs:
        try:
            base_src = summ.baseline_body(f.qualname)
        except AnalysisError:
            continue        # a new function: nothing confirmed to compare with
        base = ast.parse(base_src)
        wrap = ast.FunctionDef(name="_b", args=f.node.args, body=base.body or [ast.Pass()], decorator_list=[], returns=None, type_comment=None, type_params=[])
        old = presence_tests(wrap)
        new = presence_tests(f.node)
        for o in sorted(set(old) & set(new)):
            n += 1
            if old[o] == new[o]:
                ctx.ob(rule, f, "`%s` is asked the same question as in the confirmed code (`is None` and truthiness differ for 0 / empty values)" % o, True,
                       construct="%s: presence test of %s" % (f.name, o), analysis="differential test-kind table per operand")
            else:
                ctx.ob(rule, f, "`%s` is asked the same question as in the confirmed code (`is None` and truthiness differ for 0 / empty values)" % o, False,
                       construct="%s: presence test of %s" % (f.name, o), detail="confirmed: %s; now: %s" % (sorted(old[o]), sorted(new[o])),
                       analysis="differential test-kind table per operand")
    ctx.stat(rule + ".operands", n)
    return n


# Small functions that are entirely about one property: their effect table is compared with the confirmed one.  Chosen by
# reading (the whole function is the clause) and kept to code whose re-spellings the normal form sees through (string
# formatting, loops rewritten as comprehensions and lock idioms are NOT covered by tables - those functions have their own
# rules or none).
R, P, T = "rrule.", "parser._parser.", "tz.tz."
EFFECT_TABLES = {
    "C01": [R + "rrule.__construct_byset", R + "rrule.__mod_distance", R + "weekday.__init__", R + "_iterinfo.ydayset", R + "_iterinfo.mdayset",
            R + "_iterinfo.wdayset", R + "_iterinfo.ddayset", R + "_iterinfo.stimeset"],
    "C02": [P + "parserinfo.convertyear", P + "parserinfo.validate", P + "_ymd.could_be_day", P + "_ymd.append", P + "parser._adjust_ampm", P + "parser._parsems",
            P + "parser._to_decimal", P + "parser._parse_min_sec", P + "parser._assign_hms", P + "parserinfo.tzoffset", P + "parserinfo.utczone",
            P + "parserinfo.hms", P + "parserinfo.ampm", P + "parserinfo.month", P + "parserinfo.weekday", P + "parserinfo.jump", P + "parserinfo.pertain"],
    "C03": ["relativedelta.relativedelta.__radd__", "relativedelta.relativedelta.__rsub__", "relativedelta.relativedelta.__sub__", "relativedelta.relativedelta._set_months"],
    "C04": [T + "tzutc.utcoffset", T + "tzutc.dst", T + "tzutc.fromutc", T + "tzoffset.utcoffset", T + "tzoffset.dst", T + "tzoffset.fromutc", T + "tzoffset.__init__",
            T + "tzlocal.utcoffset", T + "tzlocal.dst", T + "tzlocal.tzname", T + "_tzicalvtz.utcoffset", T + "_tzicalvtz.dst", T + "_tzicalvtz.tzname"],
    "C05": [T + "tzlocal._naive_is_dst", T + "tzlocal._isdst", T + "resolve_imaginary"],
    "C06": [T + "tzfile._find_ttinfo", T + "tzfile._resolve_ambiguous_time", T + "_datetime_to_timestamp", T + "_get_supported_offset"],
    "C07": ["parser.isoparser.isoparser._calculate_weekdate", "parser.isoparser.isoparser._parse_isodate", "parser.isoparser.isoparser.parse_isodate",
            "parser.isoparser.isoparser.parse_tzstr", "parser.isoparser._to_int", "parser.isoparser._takes_ascii.func"],
    "C08": [T + "tzstr.__init__", T + "tzrange.transitions", T + "tzrange._dst_base_offset"],
    "C09": ["relativedelta.relativedelta._set_months"],
    "C10": [R + "rruleset._genitem.__init__", R + "rruleset._genitem.__next__", R + "rruleset._genitem.__lt__", R + "rruleset._genitem.__gt__", R + "rruleset._genitem.__eq__",
            R + "rruleset._genitem.__ne__", R + "rruleset.rrule", R + "rruleset.rdate", R + "rruleset.exrule", R + "rruleset.exdate", R + "rrulebase._invalidate_cache"],
    "C12": [R + "rrulebase.__getitem__", R + "rrulebase.__contains__", R + "rrulebase.count", R + "rrulebase.before", R + "rrulebase.after", R + "rrulebase.xafter",
            R + "rrulebase.between"],
    "C13": [R + "_rrulestr._handle_int", R + "_rrulestr._handle_int_list", R + "_rrulestr._handle_FREQ", R + "_rrulestr._handle_UNTIL", R + "_rrulestr._handle_WKST"],
    "C14": [P + "_timelex.isword", P + "_timelex.isnum", P + "_timelex.isspace", P + "parser._could_be_tzname", P + "parser._ampm_valid", P + "parser._find_hms_idx",
            P + "parser._parse_hms", P + "_ymd.resolve_ymd"],
    "C15": [P + "parser._assign_tzname"],
    "C16": ["relativedelta.relativedelta.__neg__", "relativedelta.relativedelta.__abs__", "relativedelta.relativedelta.__mul__", "relativedelta.relativedelta.__bool__",
            "relativedelta.relativedelta.__eq__", "relativedelta.relativedelta.__hash__", "relativedelta.relativedelta.normalized", "relativedelta.relativedelta._fix",
            "relativedelta.relativedelta.weeks", "_common.weekday.__eq__", "_common.weekday.__hash__", "_common.weekday.__call__"],
    "C17": [T + "_tzicalvtz._find_compdt", T + "tzical.get", T + "tzical.keys", T + "_tzicalvtzcomp.__init__"],
    "C18": [T + "tzutc.__eq__", T + "tzoffset.__eq__", T + "tzlocal.__eq__", T + "tzrange.__eq__", T + "tzfile.__eq__", T + "tzutc.__ne__", T + "tzoffset.__ne__", T + "tzlocal.__ne__",
            T + "tzfile.__ne__", "tz._common.tzrangebase.__ne__"],
    "C20": ["parser.isoparser.isoparser._calculate_weekdate", "parser.isoparser._to_int", "parser.isoparser._takes_ascii.func"],
}


# integer-valued names of tabled functions (every caller passes int(<digits>)): strict and non-strict bounds on them are
# interchangeable with the bound moved by one (`0 < week` is `1 <= week`)
INT_FIELDS = {
    "parser.isoparser.isoparser._calculate_weekdate": ("week", "day", "year"),
}


def check_effect_tables(ctx, prop):
    """Cxx.TABLE: see EFFECT_TABLES."""
    from .model import mangle
    n = 0
    for q in EFFECT_TABLES.get(prop, []):
        full = "dateutil." + q
        f = ctx.prog.functions.get(full)
        if f is None:
            # private names are mangled in the model
            parts = full.rsplit(".", 2)
            if len(parts) == 3:
                f = ctx.prog.functions.get("%s.%s.%s" % (parts[0], parts[1], mangle(parts[1], parts[2])))
        if f is None:
            raise AnalysisError(prop + ".TABLE", full, "anchor function not found")
        check_effect_table(ctx, prop + ".TABLE", f, "what %s stores, does and returns under each condition is what was confirmed for it" % q.split(".", 1)[-1])
        n += 1
    return n


def baseline_function(qualname):
    """FunctionDef of the confirmed baseline version of a function (canonicalised like the current tree)."""
    from . import summ, canon
    body = summ.baseline_body(qualname)
    tree = ast.parse(body)
    wrap = ast.FunctionDef(name="_baseline", args=ast.arguments(posonlyargs=[], args=[], kwonlyargs=[], kw_defaults=[], defaults=[]), body=tree.body or [ast.Pass()],
                           decorator_list=[], returns=None, type_comment=None, type_params=[])
    mod = ast.Module(body=[wrap], type_ignores=[])
    mc = canon.ModuleCanon("<baseline>", mod, None, [])
    mc.ifexp_to_if()
    mc.lock_blocks()
    ast.fix_missing_locations(mod)
    return wrap


def _dealias(region, fnode):
    """Locals bound once, at the top level of the function, to a plain attribute chain (`rr = self.rrule`) are replaced by
    that chain inside the region: the region is read in terms of the function's inputs, whichever side names the alias."""
    import copy
    from .model import attr_chain
    counts = {}
    for x in walk_local(fnode):
        if isinstance(x, ast.Name) and isinstance(x.ctx, (ast.Store, ast.Del)):
            counts[x.id] = counts.get(x.id, 0) + 1
    alias = {}
    for st in fnode.body:
        if isinstance(st, ast.Assign) and len(st.targets) == 1 and isinstance(st.targets[0], ast.Name) and isinstance(st.value, ast.Attribute) \
                and attr_chain(st.value) and counts.get(st.targets[0].id) == 1:
            alias[st.targets[0].id] = st.value
    if not alias:
        return region

    class R(ast.NodeTransformer):
        def visit_Name(self, n):
            if isinstance(n.ctx, ast.Load) and n.id in alias:
                return copy.deepcopy(alias[n.id])
            return n
    return [R().visit(copy.deepcopy(st)) for st in region]


def check_region_table(ctx, rule, func, pick, what, construct, **kw):
    """A region of a large function (the statements `pick(function node)` selects - by what they mention, never by position)
    has the confirmed effect table."""
    from . import summ, equiv
    bfn = baseline_function(func.qualname)
    cur = _dealias(pick(func.node), func.node)
    base = _dealias(pick(bfn), bfn)
    if not cur or not base:
        raise AnalysisError(rule, func.qualname, "region `%s` not found (%d / %d statements)" % (construct, len(cur), len(base)))
    kw.setdefault("loops", "body")
    kw.setdefault("alpha", "auto")
    return summ.check_ref(ctx, rule, cur, what, "\n".join(ast.unparse(s_) for s_ in base), construct, outcome=equiv.loose_outcome, where=func, **kw)


def statements_mentioning(names, within=None):
    """pick-function: the innermost statement list that has statements mentioning every name in `names`, cut to the span
    from the first to the last statement that mentions any of them.  `within(stmt)` may restrict the search to the body of
    a particular compound statement."""
    names = set(names)

    def mentions(st):
        return set(x.id for x in ast.walk(st) if isinstance(x, ast.Name)) | set(x.attr for x in ast.walk(st) if isinstance(x, ast.Attribute))

    def pick(fnode):
        best = None
        for block in _blocks(fnode):
            hits = [i for i, st in enumerate(block) if mentions(st) & names]
            if not hits:
                continue
            seen = set()
            for i in hits:
                seen |= mentions(block[i]) & names
            if seen != names:
                continue
            span = block[hits[0]:hits[-1] + 1]
            size = sum(1 for st in span for _ in ast.walk(st))
            if best is None or size < best[0]:
                best = (size, span)
        return best[1] if best else []
    return pick


def ifs_testing(names):
    """pick-function: the `if` statement(s) whose own test mentions every name in `names` (smallest such statement)."""
    names = set(names)

    def pick(fnode):
        best = None
        for block in _blocks(fnode):
            for st in block:
                if isinstance(st, ast.If):
                    m = set(x.id for x in ast.walk(st.test) if isinstance(x, ast.Name)) | set(x.attr for x in ast.walk(st.test) if isinstance(x, ast.Attribute))
                    if names <= m:
                        size = sum(1 for _ in ast.walk(st))
                        if best is None or size < best[0]:
                            best = (size, [st])
        return best[1] if best else []
    return pick


# ------------------------------------------------------------------------------------------------ generation tokens
class Generation(object):
    """Which iterators are still *current* after `_invalidate_cache()` ran.

    `_invalidate_cache` gives some attributes a fresh value on every call (a counter that is incremented, a new
    `object()`; with caching enabled also the new cache list and the new shared generator).  A generator that captured such
    an attribute in a local before its first `yield` can later ask whether it is still the current one by comparing the
    local with the attribute.  This class finds the tokens, the captures and the comparisons in a function and answers
    `is_current(node)` (a must-hold fact says the generation is current) and `stale_edges()` (branch edges on which it is
    known not to be)."""

    def __init__(self, ctx, rule, base):
        self.ctx = ctx
        inval = ctx.prog.method(base.qualname, "_invalidate_cache", rule)
        cfg = ctx.cfg(inval)
        self.inval = inval
        self.always, self.cached = {}, {}
        cand = {}
        for n in cfg.live_nodes():
            if n.kind != "stmt":
                continue
            a = n.ast
            if isinstance(a, ast.AugAssign) and isinstance(a.op, ast.Add) and isinstance(a.value, ast.Constant) and isinstance(a.value.value, int) and a.value.value > 0 \
                    and isinstance(a.target, ast.Attribute) and src(a.target.value) == "self":
                cand.setdefault(a.target.attr, []).append((n, "counter"))
            if isinstance(a, ast.Assign) and len(a.targets) == 1 and isinstance(a.targets[0], ast.Attribute) and src(a.targets[0].value) == "self":
                v = a.value
                if isinstance(v, ast.Call) and src(v.func) == "object" and not v.args:
                    cand.setdefault(a.targets[0].attr, []).append((n, "fresh object"))
                elif isinstance(v, (ast.List, ast.Dict)) and not (v.elts if isinstance(v, ast.List) else v.keys):
                    cand.setdefault(a.targets[0].attr, []).append((n, "fresh container"))
        for attr, nodes in cand.items():
            ns = [n for n, _ in nodes]
            if cfg.path_avoiding(cfg.entry, [cfg.exit], avoid_nodes=ns) is None:
                self.always[attr] = nodes[0][1]
            else:
                self.cached[attr] = nodes[0][1]

    def tokens_for(self, f, cache_only=False):
        t = dict(self.always)
        if cache_only:
            t.update(self.cached)
        return t

    def analyse(self, f, cache_only=False):
        """(captures {local: attr}, compare texts) for function f"""
        ctx = self.ctx
        cfg = ctx.cfg(f)
        tokens = self.tokens_for(f, cache_only)
        yields = [n for n in cfg.live_nodes() if has_yield(n)]
        after_yield = set(n.id for n in cfg.reach(yields)) if yields else set()
        caps = {}
        ndefs = {}
        for n in cfg.live_nodes():
            if n.kind == "stmt" and isinstance(n.ast, ast.Assign):
                for t in n.ast.targets:
                    if isinstance(t, ast.Name):
                        ndefs.setdefault(t.id, []).append(n)
        for name, ds in ndefs.items():
            if len(ds) == 1 and len(ds[0].ast.targets) == 1 and isinstance(ds[0].ast.value, ast.Attribute) and src(ds[0].ast.value.value) == "self" \
                    and ds[0].ast.value.attr in tokens and ds[0].id not in after_yield:
                # no other binding of the local anywhere (loop targets, with ... as, augmented assignment)
                others = [x for x in walk_local(f.node) if isinstance(x, ast.Name) and x.id == name and isinstance(x.ctx, (ast.Store, ast.Del))]
                if len(others) == 1:
                    caps[name] = ds[0].ast.value.attr
        return cfg, caps, ndefs

    def _compare(self, e, caps):
        """+1 if expression e says 'current', -1 if it says 'stale', 0 otherwise"""
        neg = 1
        while isinstance(e, ast.UnaryOp) and isinstance(e.op, ast.Not):
            neg = -neg
            e = e.operand
        if isinstance(e, ast.Compare) and len(e.ops) == 1 and isinstance(e.ops[0], (ast.Eq, ast.Is, ast.NotEq, ast.IsNot)):
            a, b = e.left, e.comparators[0]
            for x, y in ((a, b), (b, a)):
                if isinstance(x, ast.Name) and x.id in caps and isinstance(y, ast.Attribute) and src(y.value) == "self" and y.attr == caps[x.id]:
                    return neg * (1 if isinstance(e.ops[0], (ast.Eq, ast.Is)) else -1)
        return 0

    def verdict_of(self, f, text, truth, cache_only=False):
        cfg, caps, ndefs = self.analyse(f, cache_only)
        try:
            e = ast.parse(text, mode="eval").body
        except SyntaxError:
            return 0, None
        v = self._compare(e, caps)
        if v:
            return (v if truth else -v), None
        neg = 1
        while isinstance(e, ast.UnaryOp) and isinstance(e.op, ast.Not):
            neg = -neg
            e = e.operand
        if isinstance(e, ast.Name) and len(ndefs.get(e.id, [])) == 1:
            d = ndefs[e.id][0]
            v = self._compare(d.ast.value, caps)
            if v:
                return (neg * v if truth else -neg * v), d
        return 0, None

    def is_current(self, f, node, cache_only=False):
        """some must-hold fact at `node` says this iterator's generation is the current one, and no `yield` lies
        between the comparison and the node (another thread of control could invalidate in between)"""
        cfg = self.ctx.cfg(f)
        facts = self.ctx.facts(f)
        yields = [n for n in cfg.live_nodes() if has_yield(n)]
        for text, tv in facts.at(node):
            v, d = self.verdict_of(f, text, tv, cache_only)
            if v != 1:
                continue
            # where the comparison was evaluated: the defining node of the boolean, else the branch nodes testing it
            points = [d] if d is not None else [b for b in cfg.live_nodes() if b.kind == "branch" and text.replace(" ", "") in src(b.ast).replace(" ", "")]
            if not points:
                continue
            ok = True
            for y in yields:
                if cfg.path_avoiding(y, [node], avoid_nodes=points, include_start=False) is not None and any(y in cfg.reach([p]) for p in points):
                    ok = False
            if ok:
                return True
        return False

    def stale_edges(self, f, cache_only=False):
        cfg = self.ctx.cfg(f)
        out = []
        for b in cfg.live_nodes():
            if b.kind != "branch":
                continue
            v, _ = self.verdict_of(f, src(b.ast), True, cache_only)
            if v == 1:
                out.append((b, "false"))
            elif v == -1:
                out.append((b, "true"))
        return out


def check_stale_publication(ctx, rule):
    """C10.STALE - see props/c10.py"""
    prog = ctx.prog
    base = prog.cls("rrule.rrulebase", rule)
    gen = Generation(ctx, rule, base)
    ctx.ob(rule, gen.inval, "every invalidation leaves a trace that an iterator started earlier can see (a counter incremented / a fresh object stored on every path)",
           bool(gen.always), construct="_invalidate_cache: generation token",
           detail="" if gen.always else "no attribute gets a fresh value on every path through _invalidate_cache (with caching enabled: %s): an iterator that was started before a member "
           "was added cannot tell, and publishes its stale length / completeness" % (sorted(gen.cached) or "none"),
           analysis="CFG must-pass-through over the stores of _invalidate_cache")
    # classes whose instances can be invalidated after construction
    mutable = []
    for c in [base] + prog.subclasses(base):
        for name, f in c.methods.items():
            if name in ("__init__", "_invalidate_cache"):
                continue
            if any(d.endswith("_invalidates_cache") for d in f.decorators) or any(
                    isinstance(x, ast.Call) and src(x.func) == "self._invalidate_cache" for x in walk_local(f.node)):
                if c not in mutable:
                    mutable.append(c)
    ctx.floor(rule, len(mutable), 1, "classes with cache-invalidating mutators")
    SHARED = ("_len", "_cache_complete", "_cache_gen")
    n_w = 0
    scope = [base] + [c for c in mutable if c is not base]
    for c in scope:
        for name, f in sorted(c.methods.items()):
            if name in ("__init__", "_invalidate_cache"):
                continue
            cfg = ctx.cfg(f)
            # _iter_cached and friends run only with caching enabled: the cache list / shared generator are tokens too
            cache_only = any(isinstance(x, ast.Attribute) and x.attr == "_cache_lock" for x in walk_local(f.node))
            for n in cfg.live_nodes():
                if n.kind != "stmt" or not isinstance(n.ast, (ast.Assign, ast.AugAssign)):
                    continue
                tg = n.ast.targets if isinstance(n.ast, ast.Assign) else [n.ast.target]
                hit = [t.attr for t in tg if isinstance(t, ast.Attribute) and src(t.value) == "self" and t.attr in SHARED]
                for a in hit:
                    n_w += 1
                    ok = gen.is_current(f, n, cache_only)
                    ctx.ob(rule, f, "per-generation state (%s) is published only by an iterator that is still current: a member added meanwhile must be reflected in "
                           "every later iteration and query" % a, ok, construct="%s: store to self.%s" % (name, a),
                           detail="" if ok else "`%s` is not guarded by a comparison of a token captured before the first yield with its current value; after "
                           "it=iter(s); next(it); s.rdate(d); list(it) the set reports the old length / an empty complete cache" % stmt_text(n),
                           analysis="generation tokens of _invalidate_cache + must-hold branch facts + no yield between test and store")
    ctx.floor(rule, n_w, 3, "stores to shared per-generation state in iterators of invalidatable classes")
    return gen


# ------------------------------------------------------------------------------------------------ lazily imported globals
def check_lazy_imports(ctx, rule, modname):
    """A module-level name that starts as None and is bound by `global X` + an import inside functions (dateutil.rrule's
    `parser`): every read of X in a function is preceded on every path by that function's own import of X, or lies behind
    the guard `not X` (the false edge of a test `not X` / `not X and C`: X was bound before).  Otherwise the first call in
    a process that takes that path finds None - the answer depends on which other calls ran before."""
    prog = ctx.prog
    full = modname if modname.startswith("dateutil") else "dateutil." + modname
    mod = prog.modules[full]
    tree = mod.tree
    none_names = set()
    imported_top = set()
    for st in tree.body:
        if isinstance(st, ast.Assign) and isinstance(st.value, ast.Constant) and st.value.value is None:
            for t in st.targets:
                if isinstance(t, ast.Name):
                    none_names.add(t.id)
        if isinstance(st, (ast.Import, ast.ImportFrom)):
            for al in st.names:
                imported_top.add((al.asname or al.name).split(".")[0])
    lazy = set()
    for f in prog.active_functions():
        if not f.qualname.startswith(full + "."):
            continue
        for x in walk_local(f.node):
            if isinstance(x, ast.Global):
                lazy |= set(x.names) & none_names
    n_use = 0
    for X in sorted(lazy):
        if X in imported_top:
            continue
        for f in prog.active_functions():
            if not f.qualname.startswith(full + "."):
                continue
            stores = [x for x in walk_local(f.node) if isinstance(x, ast.Name) and x.id == X and isinstance(x.ctx, ast.Store)]
            is_global = any(isinstance(x, ast.Global) and X in x.names for x in walk_local(f.node))
            if (stores or X in f.params) and not is_global:
                continue            # a local of the same name
            # the discipline is per function: one that imported X itself in the confirmed tree (or is new) must keep doing so;
            # one that relies on its caller's protocol (the constructor imported it: `easter` in _iterinfo.rebuild) is not
            # decided here
            try:
                from . import summ as _summ
                btree = ast.parse(_summ.baseline_body(f.qualname))
                base_imports = any(isinstance(x, (ast.Import, ast.ImportFrom)) and any((al.asname or al.name).split(".")[0] == X for al in x.names) for x in ast.walk(btree))
                if not base_imports:
                    continue
            except AnalysisError:
                pass
            cfg = ctx.cfg(f)
            imports = [n for n in cfg.live_nodes() if n.kind == "stmt" and isinstance(n.ast, (ast.Import, ast.ImportFrom))
                       and any((al.asname or al.name).split(".")[0] == X for al in n.ast.names)]
            guards = []
            for b in cfg.live_nodes():
                if b.kind != "branch" or b.ast is None:
                    continue
                t = b.ast
                conj = t.values if isinstance(t, ast.BoolOp) and isinstance(t.op, ast.And) else [t]
                if any(isinstance(c, ast.UnaryOp) and isinstance(c.op, ast.Not) and isinstance(c.operand, ast.Name) and c.operand.id == X for c in conj) or \
                        any(isinstance(c, ast.Compare) and len(c.ops) == 1 and isinstance(c.ops[0], ast.Is) and isinstance(c.left, ast.Name) and c.left.id == X
                            and isinstance(c.comparators[0], ast.Constant) and c.comparators[0].value is None for c in conj):
                    guards.append((b, "false"))
            for n in cfg.live_nodes():
                if n.ast is None or n.kind not in ("stmt", "branch") or n in imports:
                    continue
                if any((b is n) for b, _ in guards):
                    continue
                root = n.ast
                uses = [x for x in ast.walk(root) if isinstance(x, ast.Attribute) and isinstance(x.value, ast.Name) and x.value.id == X and isinstance(x.value.ctx, ast.Load)]
                if not uses:
                    continue
                n_use += 1
                path = cfg.path_avoiding(cfg.entry, [n], avoid_nodes=imports, avoid_edges=guards)
                ok = path is None and (is_global or not imports)
                ctx.ob(rule, f, "the lazily imported module `%s` (None until some function imports it) is imported on every path before it is used" % X, ok,
                       construct="%s: use of %s in `%s`" % (f.name, X, stmt_text(n)[:60]),
                       detail="" if ok else "path from entry without `import %s`: %s - works only if another call imported it earlier in the process" % (
                           X, " -> ".join("L%d" % p_.lineno for p_ in (path or []) if p_.lineno)[:200]),
                       analysis="CFG must-pass-through (import statements, `not %s` guards)" % X)
    return n_use


# ------------------------------------------------------------------------------------------------ no state between calls
def shared_state_writes(prog, modname):
    """[(FuncInfo, node, text)] - stores into, and mutator calls on, objects that outlive the call and are shared by all
    callers: attributes of a class object (`cls.X`, `ClassName.X`, `type(self).X`, `self.__class__.X`) and module globals
    (declared `global`, or module-level containers mutated in place).  Instance state (`self.X`) is not shared state."""
    from .rules_lock import MUTATORS
    full = modname if modname.startswith("dateutil") else "dateutil." + modname
    mod = prog.modules[full]
    class_names = set(mod.classes)
    mod_containers = set(k for k, v in mod.assigns.items() if isinstance(v, (ast.List, ast.Dict, ast.Set)) or (
        isinstance(v, ast.Call) and src(v.func) in ("dict", "list", "set", "OrderedDict", "collections.OrderedDict", "defaultdict", "collections.defaultdict")))
    out = []
    for f in prog.active_functions():
        if not f.qualname.startswith(full + "."):
            continue
        is_cm = any(d.split(".")[-1] == "classmethod" for d in f.decorators)
        cls_param = f.params[0] if (is_cm and f.params) else None
        globals_ = set()
        for x in walk_local(f.node):
            if isinstance(x, ast.Global):
                globals_ |= set(x.names)
        local_stores = set(x.id for x in walk_local(f.node) if isinstance(x, ast.Name) and isinstance(x.ctx, ast.Store)) | set(f.params)

        # containers created in the class body and never replaced per instance are shared through `self.X` as well
        cls_mutables = set()
        if f.cls is not None:
            def _is_container(v):
                return isinstance(v, (ast.List, ast.Dict, ast.Set)) or (isinstance(v, ast.Call) and src(v.func) in (
                    "dict", "list", "set", "OrderedDict", "collections.OrderedDict", "defaultdict", "collections.defaultdict", "weakref.WeakValueDictionary"))
            per_instance = set(x.attr for m_ in f.cls.methods.values() for x in walk_local(m_.node)
                               if isinstance(x, ast.Attribute) and isinstance(x.ctx, ast.Store) and isinstance(x.value, ast.Name) and x.value.id == "self")
            cls_mutables = set(k for k, v in f.cls.assigns.items() if _is_container(v)) - per_instance

        def shared_base(e):
            """e is an expression denoting shared storage (or an item / attribute inside it)"""
            while isinstance(e, (ast.Subscript, ast.Attribute)):
                inner = e.value
                if isinstance(e, ast.Attribute) and isinstance(inner, ast.Name) and inner.id == "self" and e.attr in cls_mutables and not isinstance(e.ctx, ast.Store):
                    return True
                if isinstance(e, ast.Attribute):
                    if isinstance(inner, ast.Name) and (inner.id == cls_param or (inner.id in class_names and inner.id not in local_stores)):
                        return True
                    if src(inner) in ("self.__class__", "type(self)"):
                        return True
                e = inner
            if isinstance(e, ast.Name) and e.id in mod_containers and e.id not in local_stores:
                return True
            return False
        for x in walk_local(f.node):
            if isinstance(x, (ast.Assign, ast.AugAssign, ast.Delete)):
                tg = x.targets if isinstance(x, (ast.Assign, ast.Delete)) else [x.target]
                for t in tg:
                    for y in ([t] if not isinstance(t, (ast.Tuple, ast.List)) else t.elts):
                        if isinstance(y, (ast.Subscript, ast.Attribute)) and shared_base(y):
                            out.append((f, x, src(x).split("\n")[0]))
                        elif isinstance(y, ast.Name) and y.id in globals_ and not isinstance(x, ast.Delete):
                            # (re)binding a module global: lazy imports are import statements, not assignments
                            out.append((f, x, src(x).split("\n")[0]))
            elif isinstance(x, ast.Call) and isinstance(x.func, ast.Attribute) and x.func.attr in MUTATORS and shared_base(ast.Attribute(value=x.func.value, attr="_", ctx=ast.Load())
                                                                                                             if not isinstance(x.func.value, ast.Name) else x.func.value):
                out.append((f, x, src(x).split("\n")[0]))
    return out


# ------------------------------------------------------------------------------------------------ parameters stay what the caller passed
def rebound_params(fnode, params):
    """parameters that some statement of the function replaces by an expression of themselves - `p = f(p)`, `p += k`,
    `p, q = g(p), g(q)`: the normalising kind of rebinding (a parameter reused as a plain local for another value, as in
    `dt = folded_dt`, is not one)"""
    out = set()
    for x in walk_local(fnode):
        if isinstance(x, ast.AugAssign) and isinstance(x.target, ast.Name) and x.target.id in params:
            out.add(x.target.id)
        elif isinstance(x, ast.Assign):
            tnames = set(y.id for t in x.targets for y in ast.walk(t) if isinstance(y, ast.Name) and isinstance(y.ctx, ast.Store)) & set(params)
            if tnames:
                used = set(y.id for y in ast.walk(x.value) if isinstance(y, ast.Name))
                out |= tnames & used
    return out


def _raw_function(f):
    """FunctionDef of f in the module source as written (before the canonical view and the prover's substitutions)"""
    cache = _raw_function.__dict__.setdefault("cache", {})
    mod = f.module
    key = id(mod)
    if key not in cache:
        try:
            cache[key] = ast.parse(mod.text)
        except SyntaxError:
            cache[key] = None
    tree = cache[key]
    if tree is None:
        return None
    parts = f.qualname[len(mod.name) + 1:].split(".")
    body = tree.body
    node = None
    for i, nm in enumerate(parts):
        node = None
        for st in body:
            if isinstance(st, (ast.FunctionDef, ast.AsyncFunctionDef, ast.ClassDef)) and (st.name == nm or nm.endswith("__" + st.name.lstrip("_")) and st.name.startswith("__")):
                node = st
                break
        if node is None:
            return None
        body = node.body
    return node if isinstance(node, (ast.FunctionDef, ast.AsyncFunctionDef)) else None


def check_param_rebinding(ctx, rule, classes=(), functions=()):
    """A function that normalises one of its arguments before using it (strip, round, clamp, filter, `or default`) has
    changed the meaning of some inputs.  Differential: the parameters a function replaces by an expression of themselves
    are the ones it so replaced in the confirmed tree (a newly normalised parameter is reported; new functions are not
    compared)."""
    from . import summ
    prog = ctx.prog
    funcs = list(functions)
    for cq in classes:
        c = prog.cls(cq, rule)
        funcs += [f for _, f in sorted(c.methods.items())]
    n = 0
    for f in funcs:
        try:
            base = ast.parse(summ.baseline_body(f.qualname))
        except AnalysisError:
            continue
        a_ = f.node.args
        params = set(f.params) | set(x.arg for x in (a_.vararg, a_.kwarg) if x is not None)
        old = rebound_params(ast.FunctionDef(name="_b", args=f.node.args, body=base.body or [ast.Pass()], decorator_list=[], returns=None, type_comment=None, type_params=[]), params)
        new = rebound_params(f.node, params)
        # also in the source as written: the equivalence prover reads a dead pure computation as no computation, so a
        # function it accepted (and replaced by its confirmed spelling) can still hold `p = p[:120] + "..."`
        raw = _raw_function(f)
        if raw is not None:
            new |= rebound_params(raw, params)
        n += 1
        extra = sorted(new - old)
        if extra or new:
            ctx.ob(rule, f, "the arguments a function works on are the ones its caller passed: no parameter is newly replaced by an expression of itself "
                   "(the confirmed code normalises: %s)" % (", ".join(sorted(old)) or "none"), not extra, construct="%s: rebound parameters" % f.name,
                   detail="" if not extra else "newly rebound: %s" % ", ".join(extra), analysis="differential who-assigns over the parameters")
    return n
