"""Whole-package sweeps of the generic analyses (thorough tier).  Each sweep walks EVERY function of every active
module; obligations are recorded for the functions that live in the property's anchored files."""
import ast
import json
import os

from .model import src, walk_local
from . import core, rules_lock, unit
from .lock import LockFlow, lock_attr_names


def prop_files(prop):
    with open(os.path.join(core.VERIF, "properties.jsonl")) as fh:
        for l in fh:
            p = json.loads(l)
            if p["id"] == prop:
                return set(p["anchors"]["files"])
    return set()


def run(ctx):
    files = prop_files(ctx.prop)
    prog = ctx.prog
    rule = ctx.prop + ".SWEEP"
    funcs = [f for f in prog.active_functions()]
    mine = [f for f in funcs if f.module.relpath in files]
    ctx.stat("sweep_functions_total", len(funcs))
    ctx.stat("sweep_functions_in_property_files", len(mine))
    # 1. every function has a CFG the engine models (unknown statement kinds raise AnalysisError)
    nodes = 0
    for f in funcs:
        nodes += len(ctx.cfg(f).nodes)
    ctx.stat("sweep_cfg_nodes", nodes)
    # 2. lock pairing everywhere
    attrs = lock_attr_names(prog)
    n_lock = 0
    for f in funcs:
        flow = LockFlow(ctx.cfg(f), f, attrs)
        if not flow.locks:
            continue
        n_lock += 1
        if f not in mine:
            continue
        cfg = flow.cfg
        for le in sorted(flow.locks):
            if not flow.acquire_nodes(le):
                continue
            for t, label in ((cfg.exit, "normal-exit"), (cfg.raise_exit, "exceptional-exit")):
                st = flow.state(t, le)
                if st is None:
                    continue
                ctx.ob(rule + ".LOCK", f, "lock %s is unheld at %s" % (le, label), st == "U", construct="lock=%s exit=%s" % (le, label), analysis="LOCK typestate (package sweep)")
        for kind, n, le, st in flow.problems:
            ctx.ob(rule + ".LOCK", f, "lock %s is used in a paired way" % le, False, construct="lock=%s %s:%s" % (le, kind, rules_lock.stmt_text(n)), analysis="LOCK typestate (package sweep)")
    ctx.stat("sweep_functions_using_locks", n_lock)
    # 3. sign / positional factor consistency of every conversion site
    n_unit = 0
    for f in mine:
        try:
            sites = unit.unit_sites(f)
        except Exception:
            continue
        for s in sites:
            n_unit += 1
            ctx.ob(rule + ".UNIT", f, "the sign factor multiplies every term of a unit-conversion expression", s.sign_distributes(),
                   construct="%s: %s [sign]" % (f.name, src(s.expr)), analysis="UNIT/SIGN (package sweep)")
            if s.positional():
                ctx.ob(rule + ".UNIT", f, "positional HH/MM/SS fields carry 3600/60/1 in order", s.hms_ok(), construct="%s: %s [factors]" % (f.name, src(s.expr)), analysis="UNIT (package sweep)")
    ctx.stat("sweep_unit_sites", n_unit)
    # 4. keyword fed by an attribute of another name (same-field sweep)
    n_kw = 0
    for f in mine:
        for x in walk_local(f.node):
            if not isinstance(x, ast.Call):
                continue
            for k in x.keywords:
                if k.arg and isinstance(k.value, ast.Attribute) and isinstance(k.value.value, ast.Name) and k.value.value.id in ("self", "other", "res", "rr"):
                    a = k.value.attr.lstrip("_")
                    n_kw += 1
                    ok = a == k.arg or a.rstrip("_") == k.arg or (k.arg, a) in SAME_FIELD_ALIASES
                    ctx.ob(rule + ".FIELD", f, "keyword argument %s is fed by the attribute of the same name" % k.arg, ok,
                           construct="%s: %s(%s=%s)" % (f.name, src(x.func), k.arg, src(k.value)), analysis="FIELD same-field (package sweep)")
    ctx.stat("sweep_keyword_attribute_sites", n_kw)


SAME_FIELD_ALIASES = {("tzinfo", "tzinfo"), ("byxxx", "byhour"), ("byxxx", "byminute"), ("byxxx", "bysecond"), ("weekday", "weekday"),
                      ("start", "hour"), ("start", "minute"), ("start", "second")}
