"""Rules over dateutil.parser.isoparser shared by C07 (round trip) and C20 (strictness)."""
import ast

from .model import src, walk_local, AnalysisError, FuncInfo
from .cfg import ReachingDefs, decision_table, expr_guards
from .ivl import Interp, Val, TOP, INF
from .linform import poly, show
from .rules_lock import stmt_text

CLS = "parser.isoparser.isoparser"


def _to_int_summary(interp, call, args, env):
    if len(call.args) == 2 and isinstance(call.args[1], ast.Constant) and isinstance(call.args[1].value, int):
        return Val(0, 10 ** call.args[1].value - 1)
    return Val(0, INF)


KNOWN = {"_to_int": _to_int_summary}


def _p(text):
    try:
        return ast.parse(text, mode="eval").body
    except SyntaxError:
        return None


def timedelta_poly(call):
    """Polynomial (in seconds) of a timedelta(...) call, or None."""
    if not (isinstance(call, ast.Call) and src(call.func).endswith("timedelta")):
        return None
    fac = {"days": 86400, "hours": 3600, "minutes": 60, "seconds": 1, "weeks": 604800}
    out = {}
    if call.args:
        return None
    for k in call.keywords:
        if k.arg not in fac:
            return None
        for m, c in poly(k.value).items():
            out[m] = out.get(m, 0) + c * fac[k.arg]
    return out


# ------------------------------------------------------------------------------- DIGITS
def check_digits(ctx, rule):
    prog = ctx.prog
    mod = prog.module("parser.isoparser", rule)
    ti = mod.functions.get("_to_int")
    n_sites = 0
    if ti is not None:
        cfg = ctx.cfg(ti)
        facts = ctx.facts(ti)
        p = ti.positional_params
        rets = [n for n in cfg.live_nodes() if n.kind == "stmt" and isinstance(n.ast, ast.Return)]
        for r in rets:
            fs = facts.at(r)
            ok_len = ("len(%s) != %s" % (p[0], p[1]), False) in fs or ("len(%s) == %s" % (p[0], p[1]), True) in fs
            ok_dig = ("%s.isdigit()" % p[0], True) in fs
            ctx.ob(rule, ti, "the field converter returns only when the field has exactly the required width", ok_len, construct="_to_int: width test before %s" % stmt_text(r),
                   detail="" if ok_len else str(sorted(fs)), analysis="must-hold branch facts")
            ctx.ob(rule, ti, "the field converter returns only when the field consists of ASCII digits (bytes.isdigit)", ok_dig, construct="_to_int: digit test before %s" % stmt_text(r),
                   detail="" if ok_dig else str(sorted(fs)), analysis="must-hold branch facts")
            ctx.ob(rule, ti, "the converted value is int() of that same field", src(r.ast.value) == "int(%s)" % p[0], construct="_to_int: %s" % stmt_text(r))
        rs = [n for n in cfg.live_nodes() if n.kind == "stmt" and isinstance(n.ast, ast.Raise)]
        ctx.ob(rule, ti, "a malformed field raises ValueError", bool(rs) and all(src(r.ast.exc).startswith("ValueError") for r in rs), construct="_to_int: raise")
    # every int() / _to_int() call in the module
    frx = None
    c = prog.cls(CLS, rule)
    fr = c.assigns.get("_FRACTION_REGEX")
    digit_groups = False
    if fr is not None and isinstance(fr, ast.Call) and fr.args and isinstance(fr.args[0], ast.Constant):
        import re._parser as sre
        pat = fr.args[0].value
        if isinstance(pat, bytes):
            pat = pat.decode("latin-1")
        tree = sre.parse(pat)
        for op, av in tree:
            if str(op) == "SUBPATTERN" and av[0] == 1:
                sub = av[3]
                if len(sub) == 1 and str(sub[0][0]) == "MAX_REPEAT":
                    lo, hi, body = sub[0][1]
                    if lo >= 1 and len(body) == 1 and str(body[0][0]) == "IN":
                        items = body[0][1]
                        if all(str(k) == "RANGE" and v == (ord("0"), ord("9")) for k, v in items) or \
                                all(str(k) == "CATEGORY" and "DIGIT" in str(v) for k, v in items):
                            digit_groups = True
    for f in prog.active_functions():
        if f.module is not mod or f is ti:
            continue
        rd = None
        cfg = None
        for x in walk_local(f.node):
            if not isinstance(x, ast.Call):
                continue
            fn = src(x.func)
            if fn == "_to_int":
                n_sites += 1
                arg, w = x.args[0], x.args[1] if len(x.args) > 1 else None
                okw = isinstance(w, ast.Constant) and isinstance(w.value, int) and w.value >= 1
                okslice = True
                detail = ""
                if isinstance(arg, ast.Subscript) and isinstance(arg.slice, ast.Slice) and arg.slice.upper is not None and arg.slice.lower is not None and okw:
                    d = dict(poly(arg.slice.upper))
                    for m, cc in poly(arg.slice.lower).items():
                        d[m] = d.get(m, 0) - cc
                        if d[m] == 0:
                            del d[m]
                    okslice = d == {(): w.value}
                    detail = "slice width %s vs declared %s" % (show(d), w.value)
                elif not (isinstance(arg, ast.Subscript) and isinstance(arg.slice, ast.Slice)):
                    okslice = False
                    detail = "argument is not a slice of the input"
                ctx.ob(rule, f, "numeric field is converted through the validating converter with a literal width equal to the slice width",
                       okw and okslice, construct="%s: %s" % (f.name, src(x)), detail=detail if not (okw and okslice) else "", analysis="FIELD width agreement")
            elif fn == "int":
                n_sites += 1
                a = x.args[0] if x.args else None
                ok = False
                why = "bare int() on unvalidated text"
                if isinstance(a, ast.Name):
                    cfg = cfg or ctx.cfg(f)
                    rd = rd or ReachingDefs(cfg, params=f.params)
                    # all definitions are slices of a digit-regex group
                    nodes = [n for n in cfg.live_nodes() if n.ast is not None and any(y is x for y in ast.walk(n.ast))]
                    defs = set()
                    for n in nodes:
                        defs |= set(rd.at(n, a.id))
                    dsrc = [src(cfg.nodes[d].ast.value) for d in defs if d and isinstance(cfg.nodes[d].ast, ast.Assign)]
                    ok = bool(dsrc) and digit_groups and all(s_.startswith("frac.group(1)") for s_ in dsrc)
                    why = "definitions: %s; digit-class group: %s" % (dsrc, digit_groups)
                ctx.ob(rule, f, "int() is applied only to text already validated as ASCII digits (regex digit class)", ok,
                       construct="%s: %s" % (f.name, src(x)), detail="" if ok else why, analysis="reaching definitions + regex AST")
    ctx.floor(rule, n_sites, 11, "numeric conversion sites in isoparser.py")


# ------------------------------------------------------------------------------- offset coverage / range / sign
def check_tzstr(ctx, rule_cover, rule_range, rule_sign, rule_utc):
    prog = ctx.prog
    f = prog.method(CLS, "_parse_tzstr", rule_cover or rule_range or rule_sign)
    cfg = ctx.cfg(f)
    facts = ctx.facts(f)
    p0 = f.positional_params[1]
    # allowed lengths
    lens = None
    for n in cfg.live_nodes():
        if n.kind == "branch" and ("len(%s)" % p0) in src(n.ast) and isinstance(n.ast, ast.Compare) and isinstance(n.ast.ops[0], (ast.NotIn, ast.In)):
            cmpv = n.ast.comparators[0]
            if isinstance(cmpv, (ast.Set, ast.Tuple, ast.List)) and all(isinstance(e, ast.Constant) for e in cmpv.elts):
                lens = sorted(e.value for e in cmpv.elts)
                raises = [s for s, lab in n.succ if lab == ("true" if isinstance(n.ast.ops[0], ast.NotIn) else "false")]
                okr = bool(raises) and isinstance(raises[0].ast, ast.Raise) and src(raises[0].ast.exc).startswith("ValueError")
                if rule_range:
                    ctx.ob(rule_range, f, "an offset whose length is not 3, 5 or 6 is rejected with ValueError", lens == [3, 5, 6] and okr,
                           construct="offset length guard: %s" % src(n.ast), detail="lengths %s" % lens)
    if lens is None:
        raise AnalysisError(rule_cover or rule_range, f.qualname, "offset length guard not found")
    if rule_cover:
        # every character of the offset is inspected, for each admissible length
        slices = []
        for n in cfg.live_nodes():
            if n.ast is None or n.kind not in ("stmt", "branch"):
                continue
            for x in ast.walk(n.ast):
                if isinstance(x, ast.Subscript) and src(x.value) == p0:
                    slices.append((n, x))

        def bound_vals(e, L, default):
            if e is None:
                return [default]
            if isinstance(e, ast.Constant) and isinstance(e.value, int):
                return [e.value if e.value >= 0 else L + e.value]
            if isinstance(e, ast.UnaryOp) and isinstance(e.op, ast.USub) and isinstance(e.operand, ast.Constant):
                return [L - e.operand.value]
            if isinstance(e, ast.IfExp):
                return bound_vals(e.body, L, default) + bound_vals(e.orelse, L, default)
            return None
        for L in lens:
            covered = set()
            unknown = []
            for n, x in slices:
                # length-specific reads: skip those guarded by a different length
                fs = facts.at(n)
                other = [t for t, tv in fs if tv and t.startswith("len(%s) == " % p0) and t != "len(%s) == %d" % (p0, L)]
                if other:
                    continue
                if isinstance(x.slice, ast.Slice):
                    los = bound_vals(x.slice.lower, L, 0)
                    his = bound_vals(x.slice.upper, L, L)
                    if los is None or his is None:
                        unknown.append(src(x))
                        continue
                    # conservative: what is covered under EVERY alternative
                    cov = None
                    for lo in los:
                        for hi in his:
                            s_ = set(range(max(lo, 0), min(hi, L)))
                            cov = s_ if cov is None else (cov & s_)
                    covered |= cov or set()
                else:
                    v = bound_vals(x.slice, L, 0)
                    if v is None:
                        unknown.append(src(x))
                    else:
                        covered |= set(v) if len(v) == 1 else set()
            missing = sorted(set(range(L)) - covered)
            ctx.ob(rule_cover, f, "for an offset of length %d every character position is inspected (sign, digits, separator)" % L, not missing and not unknown,
                   construct="offset coverage, length %d" % L, detail="" if not (missing or unknown) else "positions never read: %s; unmodelled slices: %s" % (missing, unknown),
                   analysis="slice coverage over the admissible lengths")
    # sign table
    if rule_sign:
        signs = {}
        for n in cfg.live_nodes():
            if n.kind == "stmt" and isinstance(n.ast, ast.Assign) and isinstance(n.ast.value, (ast.Constant, ast.UnaryOp)) and len(n.ast.targets) == 1 \
                    and isinstance(n.ast.targets[0], ast.Name):
                for t, tv in facts.at(n):
                    if tv and t.startswith("%s[0:1] == b" % p0):
                        signs[t.split("== ")[1]] = (n.ast.targets[0].id, src(n.ast.value))
        mult = set(v[0] for v in signs.values())
        ok = signs.get("b'-'", (None, None))[1] == "-1" and signs.get("b'+'", (None, None))[1] == "1" and len(mult) == 1
        ctx.ob(rule_sign, f, "'-' maps to -1 and '+' to +1", ok, construct="offset sign table", detail=str(signs), analysis="CMP table from branch facts")
        nosign = [n for n in cfg.live_nodes() if n.kind == "stmt" and isinstance(n.ast, ast.Raise) and any((not tv) and "b'+'" in t for t, tv in facts.at(n))
                  and any((not tv) and "b'-'" in t for t, tv in facts.at(n))]
        ctx.ob(rule_sign, f, "an offset without a sign is rejected", len(nosign) == 1, construct="missing sign -> ValueError")
        mname = next(iter(mult)) if mult else "mult"
        offs = [x for x in walk_local(f.node) if isinstance(x, ast.Call) and src(x.func).endswith("tzoffset")]
        if len(offs) != 1 or len(offs[0].args) != 2:
            raise AnalysisError(rule_sign, f.qualname, "tz.tzoffset(None, <seconds>) not found")
        e = offs[0].args[1]
        pl = timedelta_poly(e) if isinstance(e, ast.Call) else poly(e)
        if pl is None:
            raise AnalysisError(rule_sign, f.qualname, "offset expression not polynomial: %s" % src(e))
        want = {tuple(sorted(("hours", mname))): 3600, tuple(sorted(("minutes", mname))): 60}
        ctx.ob(rule_sign, f, "the offset is sign * (hours*3600 + minutes*60): the sign multiplies every term, hours carry 3600 and minutes 60",
               pl == want, construct="tzoffset seconds: %s" % src(e), detail="normal form: %s" % show(pl), analysis="polynomial normal form (UNIT)")
    if rule_range:
        it = Interp(prog, f, known_calls=KNOWN).run()
        for n in it.cfg.live_nodes():
            if n.kind == "stmt" and n.ast is not None and n.id in it.IN:
                for x in ast.walk(n.ast):
                    if isinstance(x, ast.Call) and src(x.func).endswith("tzoffset"):
                        hv = it.IN[n.id].get("hours")
                        mv = it.IN[n.id].get("minutes")
                        ctx.ob(rule_range, f, "hours reaching tzoffset lie in [0, 23]", isinstance(hv, Val) and hv.within(0, 23), construct="hours at tzoffset", detail="interval %r" % (hv,), analysis="IVL")
                        ctx.ob(rule_range, f, "minutes reaching tzoffset lie in [0, 59]", isinstance(mv, Val) and mv.within(0, 59), construct="minutes at tzoffset", detail="interval %r" % (mv,), analysis="IVL")
    if rule_utc:
        rets = [n for n in cfg.live_nodes() if n.kind == "stmt" and isinstance(n.ast, ast.Return)]
        def zfact(n):
            return any(tv and isinstance(_p(t), ast.BoolOp) and "b'z'" in t and "b'Z'" in t and "==" in t for t, tv in facts.at(n)) or \
                any(tv and t.replace(" ", "") in ("%s==b'Z'" % p0, "%s==b'z'" % p0, "%sin(b'Z',b'z')" % p0, "%sinb'Zz'" % p0) for t, tv in facts.at(n))
        z = [n for n in rets if src(n.ast.value) == "tz.UTC" and zfact(n)]
        ctx.ob(rule_utc, f, "'Z' and 'z' are UTC", len(z) >= 1 and all(zfact(n) for n in z), construct="Z -> tz.UTC")
        zero = [n for n in rets if src(n.ast.value) == "tz.UTC" and n not in z]
        okz = len(zero) == 1 and ("zero_as_utc", True) in facts.at(zero[0]) and ("hours == 0", True) in facts.at(zero[0]) and ("minutes == 0", True) in facts.at(zero[0])
        ctx.ob(rule_utc, f, "a zero offset is represented as tz.UTC when zero_as_utc is set", okz, construct="zero offset -> tz.UTC")
        d = f.defaults.get("zero_as_utc")
        ctx.ob(rule_utc, f, "zero_as_utc defaults to True", d is not None and src(d) == "True", construct="zero_as_utc default")


# ------------------------------------------------------------------------------- 24:00
def check_midnight(ctx, rule):
    prog = ctx.prog
    iso = prog.method(CLS, "isoparse", rule)
    pit = prog.method(CLS, "parse_isotime", rule)
    scan = prog.method(CLS, "_parse_isotime", rule)
    # (a) the scanner stores only parsed values
    stores = []
    for n in walk_local(scan.node):
        if isinstance(n, ast.Assign):
            for t in n.targets:
                if isinstance(t, ast.Subscript) and src(t.value) == "components":
                    stores.append(n)
    ctx.floor(rule, len(stores), 3, "stores into the time component list")
    for n in stores:
        v = src(n.value)
        ok = v.startswith("_to_int(") or v.startswith("self._parse_tzstr(") or v.startswith("int(us_str)")
        ctx.ob(rule, scan, "the shared time scanner stores only parsed field values (hour 24 must reach the callers, who decide about the day)", ok,
               construct="_parse_isotime: %s" % src(n), detail="" if ok else "constant/derived store into the component list", analysis="who-writes")
    # (b) 24 only with zero rest: guard covers minute, second, microsecond
    cfg = ctx.cfg(scan)
    facts = ctx.facts(scan)
    raises = [n for n in cfg.live_nodes() if n.kind == "stmt" and isinstance(n.ast, ast.Raise) and ("components[0] == 24", True) in facts.at(n)]
    okg = False
    detail = "guard not found"
    if len(raises) == 1:
        guard = [t for t, tv in facts.at(raises[0]) if tv and "components[" in t and t != "components[0] == 24"]
        detail = str(guard)
        for t in guard:
            e = ast.parse(t, mode="eval").body
            for x in ast.walk(e):
                if isinstance(x, ast.Subscript) and src(x.value) == "components" and isinstance(x.slice, ast.Slice):
                    lo = x.slice.lower.value if isinstance(x.slice.lower, ast.Constant) else None
                    hi = x.slice.upper.value if isinstance(x.slice.upper, ast.Constant) else (None if x.slice.upper is not None else 99)
                    if lo is not None and hi is not None and lo <= 1 and hi >= 4:
                        okg = True
                    detail = "guard examines components[%s:%s]" % (lo, hi)
    ctx.ob(rule, scan, "hour 24 is accepted only when minute, second and microsecond (components 1..3) are all zero", okg,
           construct="24:00 guard", detail="" if okg else detail, analysis="must-hold branch facts + slice bounds")
    ctx.ob(rule, scan, "the 24:00 violation raises ValueError", len(raises) == 1 and src(raises[0].ast.exc).startswith("ValueError"), construct="24:00 raise")
    # (c) parse_isotime maps 24 -> 0 under the test
    pcfg = ctx.cfg(pit)
    pf = ctx.facts(pit)
    # an assignment of the constant 0 - to the first component or to a local holding it - under the test `<that> == 24`
    st = []
    for n in pcfg.live_nodes():
        if n.kind == "stmt" and isinstance(n.ast, ast.Assign) and len(n.ast.targets) == 1 and isinstance(n.ast.value, ast.Constant) and n.ast.value.value == 0 \
                and not isinstance(n.ast.value.value, bool):
            tgt = src(n.ast.targets[0])
            if any(tv and t.replace(" ", "") in ("%s==24" % tgt.replace(" ", ""), "24==%s" % tgt.replace(" ", "")) for t, tv in pf.at(n)):
                st.append(n)
    ctx.ob(rule, pit, "parse_isotime maps hour 24 to 0 (time has no next day)", len(st) == 1, construct="parse_isotime: 24 -> 0",
           detail="" if len(st) == 1 else "%d assignments of 0 under an `== 24` test" % len(st), analysis="must-hold branch facts")
    # (d) isoparse: +1 day on that path
    icfg = ctx.cfg(iso)
    ifs = ctx.facts(iso)
    rets = [n for n in icfg.live_nodes() if n.kind == "stmt" and isinstance(n.ast, ast.Return)]
    tests = [n for n in icfg.live_nodes() if n.kind == "branch" and "components[3] == 24" in src(n.ast)]
    mid = []
    if len(tests) == 1:
        t_reach = icfg.reach([s for s, lab in tests[0].succ if lab == "true"], include_start=True)
        f_reach = icfg.reach([s for s, lab in tests[0].succ if lab == "false"], include_start=True)
        mid = [n for n in rets if n in t_reach and n not in f_reach]
    ok = False
    detail = "no return under components[3] == 24"
    if len(mid) == 1:
        v = mid[0].ast.value
        detail = src(v)
        if isinstance(v, ast.BinOp) and isinstance(v.op, ast.Add):
            parts = [v.left, v.right]
            dts = [p for p in parts if isinstance(p, ast.Call) and src(p.func) == "datetime" and src(p) == "datetime(*components)"]
            tds = [timedelta_poly(p) for p in parts if isinstance(p, ast.Call) and src(p.func).endswith("timedelta")]
            ok = len(dts) == 1 and len(tds) == 1 and tds[0] == {(): 86400}
    ctx.ob(rule, iso, "24:00 means midnight of the following day: datetime(hour 0) + exactly one day", ok, construct="isoparse 24:00 return", detail=detail, analysis="polynomial normal form (UNIT)")
    z = [n for n in icfg.live_nodes() if n.kind == "stmt" and src(n.ast).replace(" ", "") == "components[3]=0"]
    ctx.ob(rule, iso, "the hour is reset to 0 before construction on the 24:00 path only", len(z) == 1 and bool(mid) and icfg.dominates(z, mid[0]) and
           any(tv and "components[3] == 24" in t for t, tv in ifs.at(z[0])) and z[0] not in (f_reach if tests else []), construct="isoparse: components[3] = 0")


# ------------------------------------------------------------------------------- week / ordinal
def check_week(ctx, rule):
    prog = ctx.prog
    cw = prog.method(CLS, "_calculate_weekdate", rule)
    it = Interp(prog, cw, known_calls=KNOWN).run()
    sinks = [n for n in it.cfg.live_nodes() if n.kind == "stmt" and isinstance(n.ast, ast.Assign) and src(n.ast.targets[0]) == "week_offset"]
    if len(sinks) != 1:
        raise AnalysisError(rule, cw.qualname, "week_offset computation not found")
    env = it.IN.get(sinks[0].id)
    for k, lo, hi in (("week", 1, 53), ("day", 1, 7)):
        v = env.get(k) if env is not None else None
        ctx.ob(rule, cw, "%s used in the ISO week arithmetic lies in [%d, %d]" % (k, lo, hi), isinstance(v, Val) and v.within(lo, hi), construct="%s at week_offset" % k,
               detail="interval %r" % (v,), analysis="IVL")
    ctx.ob(rule, cw, "week_offset = (week-1)*7 + (day-1)", poly(sinks[0].ast.value) == {("week",): 7, ("day",): 1, (): -8}, construct="week_offset = %s" % src(sinks[0].ast.value),
           analysis="polynomial normal form")
    w1 = [n for n in it.cfg.live_nodes() if n.kind == "stmt" and isinstance(n.ast, ast.Assign) and src(n.ast.targets[0]) == "week_1"]
    ok = False
    detail = "week_1 not found"
    if len(w1) == 1 and isinstance(w1[0].ast.value, ast.BinOp) and isinstance(w1[0].ast.value.op, ast.Sub) and isinstance(w1[0].ast.value.right, ast.Call):
        kw = [k.value for k in w1[0].ast.value.right.keywords if k.arg == "days"]
        if kw:
            v = it.value_at(w1[0], kw[0])
            ok = isinstance(v, Val) and v.within(0, 6) and src(w1[0].ast.value.left) == "jan_4"
            detail = "days subtracted: %r" % (v,)
    ctx.ob(rule, cw, "the Monday of week 1 is 4 January minus 0..6 days (ISO weekday - 1)", ok, construct="week_1", detail=detail, analysis="IVL")
    j4 = [n for n in it.cfg.live_nodes() if n.kind == "stmt" and isinstance(n.ast, ast.Assign) and src(n.ast.targets[0]) == "jan_4"]
    ctx.ob(rule, cw, "week 1 is anchored on 4 January of the ISO year", len(j4) == 1 and src(j4[0].ast.value).replace(" ", "") == "date(year,1,4)", construct="jan_4")
    rs = [n for n in it.cfg.live_nodes() if n.kind == "stmt" and isinstance(n.ast, ast.Raise)]
    ctx.ob(rule, cw, "out-of-range week/day raise ValueError", len(rs) == 2 and all(src(r.ast.exc).startswith("ValueError") for r in rs), construct="week/day raises")
    ret = [n for n in it.cfg.live_nodes() if n.kind == "stmt" and isinstance(n.ast, ast.Return)]
    ctx.ob(rule, cw, "the result is week_1 + week_offset days", len(ret) == 1 and src(ret[0].ast.value).replace(" ", "") == "week_1+timedelta(days=week_offset)", construct="return week_1 + timedelta(days=week_offset)")
    # ordinal
    un = prog.method(CLS, "_parse_isodate_uncommon", rule)
    it2 = Interp(prog, un, known_calls=KNOWN).run()
    bd = [n for n in it2.cfg.live_nodes() if n.kind == "stmt" and isinstance(n.ast, ast.Assign) and src(n.ast.targets[0]) == "base_date" and "ordinal_day" in src(n.ast.value)]
    if len(bd) != 1:
        raise AnalysisError(rule, un.qualname, "ordinal date construction not found")
    v = it2.IN[bd[0].id].get("ordinal_day")
    ctx.ob(rule, un, "the ordinal day used lies in [1, 366]", isinstance(v, Val) and v.within(1, 366), construct="ordinal_day at base_date", detail="interval %r" % (v,), analysis="IVL")
    fs = ctx.facts(un)
    cfg = ctx.cfg(un)
    bd0 = [n for n in cfg.live_nodes() if n.kind == "stmt" and isinstance(n.ast, ast.Assign) and src(n.ast.targets[0]) == "base_date" and "ordinal_day" in src(n.ast.value)][0]
    dep = [t for t, tv in fs.at(bd0) if "ordinal_day" in t and "isleap(year)" in t]
    ctx.ob(rule, un, "the upper bound of the ordinal day depends on the parsed year (365 + isleap(year))", bool(dep), construct="ordinal upper bound", detail=str(dep), analysis="data dependence")
    ctx.ob(rule, un, "ordinal date = 1 January + (ordinal_day - 1) days", src(bd0.ast.value).replace(" ", "") == "date(year,1,1)+timedelta(days=ordinal_day-1)", construct="base_date = %s" % src(bd0.ast.value))
    wk = [x for x in walk_local(un.node) if isinstance(x, ast.Call) and src(x.func) == "self._calculate_weekdate"]
    ctx.ob(rule, un, "week dates go through _calculate_weekdate(year, weekno, dayno)", len(wk) == 1 and [src(a) for a in wk[0].args] == ["year", "weekno", "dayno"], construct="self._calculate_weekdate(...)")
    dn = [n for n in walk_local(un.node) if isinstance(n, ast.Assign) and src(n.targets[0]) == "dayno" and isinstance(n.value, ast.Constant)]
    ctx.ob(rule, un, "a week date without a day means Monday (day 1)", len(dn) == 1 and dn[0].value.value == 1, construct="dayno default")


# ------------------------------------------------------------------------------- separators / leftovers
def check_separators(ctx, rule):
    prog = ctx.prog
    un = prog.method(CLS, "_parse_isodate_uncommon", rule)
    cfg = ctx.cfg(un)
    facts = ctx.facts(un)
    # week date: dash before the weekday iff dash after the year
    A = "dt_str[pos:pos + 1] == self._DATE_SEP"
    B = "has_sep"
    start = [n for n in cfg.live_nodes() if n.kind == "branch" and src(n.ast).replace(" ", "") in ("len(dt_str)>pos", "pos<len(dt_str)")]
    if len(start) != 1:
        raise AnalysisError(rule, un.qualname, "week-date weekday branch not found")
    s0 = [s for s, lab in start[0].succ if lab == ("true" if ">" in src(start[0].ast) and src(start[0].ast).startswith("len") else "true")]
    raises = [n for n in cfg.live_nodes() if n.kind == "stmt" and isinstance(n.ast, ast.Raise)]
    dayp = [n for n in cfg.live_nodes() if n.kind == "stmt" and isinstance(n.ast, ast.Assign) and src(n.ast.targets[0]) == "dayno" and "_to_int" in src(n.ast.value)]
    tbl = decision_table(cfg, s0, [A, B], raises + dayp)
    rid = set(n.id for n in raises)
    bad = []
    for (a, b), reached in sorted(tbl.items()):
        raised = bool(reached & rid) and not (reached - rid)
        parsed = bool(reached - rid) and not (reached & rid)
        want_raise = a != b
        if want_raise != raised or (not want_raise) != parsed:
            bad.append("dash-before-day=%s dash-after-year=%s: %s" % (a, b, "raises" if raised else ("parses" if parsed else "either")))
    ctx.ob(rule, un, "in a week date the dash before the weekday is present iff there is a dash after the year (both directions rejected otherwise)",
           not bad, construct="week-date dash consistency", detail="; ".join(bad), analysis="boolean decision table over the CFG region")
    adv = [n for n in cfg.reach(s0, include_start=True) if n.kind == "stmt" and isinstance(n.ast, ast.AugAssign) and src(n.ast.target) == "pos"]
    ctx.ob(rule, un, "the cursor skips the dash exactly when one is expected", any(src(n.ast).replace(" ", "") in ("pos+=has_sep", "pos+=1") for n in adv), construct="cursor advance over the dash")
    # calendar date: second dash required iff first dash
    check_common_date(ctx, rule, "calendar dates: YYYY, YYYY-MM, YYYY-MM-DD and YYYYMMDD are accepted; YYYYMM, a second separator that is missing or "
                      "wrong, and month / day fields shorter than two characters are rejected")
    # time: colon consistency
    tm = prog.method(CLS, "_parse_isotime", rule)
    tcfg = ctx.cfg(tm)
    tf = ctx.facts(tm)
    rc = [n for n in tcfg.live_nodes() if n.kind == "stmt" and isinstance(n.ast, ast.Raise) and ("comp == 2 and has_sep", True) in tf.at(n)]
    okc = len(rc) == 1 and any(tv and "!= self._TIME_SEP" in t for t, tv in tf.at(rc[0]))
    ctx.ob(rule, tm, "hh:mm must be followed by a colon before the seconds (mixed hh:mmss rejected)", okc, construct="time: second colon")
    hs = [n for n in tcfg.live_nodes() if n.kind == "stmt" and src(n.ast) == "has_sep = True"]
    ctx.ob(rule, tm, "a colon is noted only directly after the hour", len(hs) == 1 and any(tv and "comp == 1" in t and "self._TIME_SEP" in t for t, tv in tf.at(hs[0])), construct="time: first colon")
    # leftovers
    lo = [n for n in tcfg.live_nodes() if n.kind == "stmt" and isinstance(n.ast, ast.Raise) and any(
        p_.kind == "branch" and lab == "true" and src(p_.ast).replace(" ", "") in ("pos<len_str", "len_str>pos") and p_.loop is None for p_, lab in n.pred)]
    ctx.ob(rule, tm, "unused trailing input in the time part is rejected", len(lo) == 1, construct="time: leftover input")
    iso = prog.method(CLS, "isoparse", rule)
    icfg = ctx.cfg(iso)
    ifs = ctx.facts(iso)
    r = [n for n in icfg.live_nodes() if n.kind == "stmt" and isinstance(n.ast, ast.Raise)]
    okl = len(r) == 1 and ("len(dt_str) > pos", True) in ifs.at(r[0]) and any((not tv) and "self._sep is None" in t and "== self._sep" in t for t, tv in ifs.at(r[0]))
    ctx.ob(rule, iso, "text after the date must start with the configured separator (any single character when none is configured)", okl, construct="isoparse: separator check")
    tcall = [n for n in icfg.live_nodes() if n.kind == "stmt" and "self._parse_isotime(dt_str[pos + 1:])" in src(n.ast)]
    ctx.ob(rule, iso, "the time part starts right after the one separator character", len(tcall) == 1, construct="self._parse_isotime(dt_str[pos + 1:])")
    pd = prog.method(CLS, "parse_isodate", rule)
    pf = ctx.facts(pd)
    r = [n for n in ctx.cfg(pd).live_nodes() if n.kind == "stmt" and isinstance(n.ast, ast.Raise)]
    ctx.ob(rule, pd, "parse_isodate rejects trailing input", len(r) == 1 and ("pos < len(datestr)", True) in pf.at(r[0]), construct="parse_isodate: leftover input")
    fb = prog.method(CLS, "_parse_isodate", rule)
    hd = [n for n in ctx.cfg(fb).live_nodes() if n.kind == "handler"]
    ctx.ob(rule, fb, "the week/ordinal scanner is tried only after the calendar scanner rejected the text with ValueError", len(hd) == 1 and src(hd[0].ast.type) == "ValueError",
           construct="_parse_isodate fallback")


# ------------------------------------------------------------------------------- entry / arity / fraction / ascii
def check_entry(ctx, rule):
    prog = ctx.prog
    c = prog.cls(CLS, rule)
    for m in ("isoparse", "parse_isodate", "parse_isotime", "parse_tzstr"):
        f = c.methods.get(m)
        if f is None:
            raise AnalysisError(rule, c.qualname + "." + m, "entry point missing")
        dec = "_takes_ascii" in f.decorators
        rebound = m in c.assigns and src(c.assigns[m]).replace(" ", "") == "_takes_ascii(%s)" % m
        ctx.ob(rule, f, "public entry point %s accepts str, bytes and streams through the _takes_ascii wrapper" % m, dec or rebound, construct="@_takes_ascii %s" % m, analysis="FIELD decorator coverage")
    mod = prog.module("parser.isoparser", rule)
    ctx.ob(rule, mod, "the module-level isoparse is the default instance's method", src(mod.assigns.get("isoparse")) == "DEFAULT_ISOPARSER.isoparse" and
           src(mod.assigns.get("DEFAULT_ISOPARSER")) == "isoparser()", construct="isoparse = DEFAULT_ISOPARSER.isoparse")
    pt = c.methods["parse_tzstr"]
    rets = [x for x in walk_local(pt.node) if isinstance(x, ast.Return)]
    ctx.ob(rule, pt, "parse_tzstr forwards zero_as_utc to the offset scanner", len(rets) == 1 and src(rets[0].value).replace(" ", "") == "self._parse_tzstr(tzstr,zero_as_utc=zero_as_utc)", construct="parse_tzstr body")


COMMON_DATE_REF = """
        len_str = len(dt_str)
        components = [1, 1, 1]
        if len_str < 4:
            raise ValueError('ISO string too short')
        components[0] = _to_int(dt_str[0:4], 4)
        pos = 4
        if pos >= len_str:
            return components, pos
        has_sep = dt_str[pos:pos + 1] == self._DATE_SEP
        if has_sep:
            pos += 1
        if len_str - pos < 2:
            raise ValueError('Invalid common month')
        components[1] = _to_int(dt_str[pos:pos + 2], 2)
        pos += 2
        if pos >= len_str:
            if has_sep:
                return components, pos
            else:
                raise ValueError('Invalid ISO format')
        if has_sep:
            if dt_str[pos:pos + 1] != self._DATE_SEP:
                raise ValueError('Invalid separator in ISO string')
            pos += 1
        if len_str - pos < 2:
            raise ValueError('Invalid common day')
        components[2] = _to_int(dt_str[pos:pos + 2], 2)
        return components, pos + 2
"""


def check_common_date(ctx, rule, what):
    """_parse_isodate_common against its decision table: which texts are rejected, which fields are cut where, the
    [year, month, day] result with defaults 1 and the cursor handed back."""
    from . import summ
    co = ctx.prog.method(CLS, "_parse_isodate_common", rule)
    return summ.check_ref(ctx, rule, co, what, COMMON_DATE_REF, construct="calendar date table")


def check_arity(ctx, rule):
    prog = ctx.prog
    co = prog.method(CLS, "_parse_isodate_common", rule)
    tm = prog.method(CLS, "_parse_isotime", rule)

    def initial(f):
        for n in walk_local(f.node):
            if isinstance(n, ast.Assign) and src(n.targets[0]) == "components" and isinstance(n.value, ast.List):
                return [src(e) for e in n.value.elts]
        return None
    d, t = ["1", "1", "1"], initial(tm)
    check_common_date(ctx, rule, "date components are [year, month, day] with defaults 1, each field from its own slice of the text")
    ctx.ob(rule, tm, "time components default to [0, 0, 0, 0, None] (hour, minute, second, microsecond, tzinfo)", t == ["0", "0", "0", "0", "None"], construct="time components", detail=str(t))
    un = prog.method(CLS, "_parse_isodate_uncommon", rule)
    u = [src(n.value) for n in walk_local(un.node) if isinstance(n, ast.Assign) and src(n.targets[0]) == "components"]
    ctx.ob(rule, un, "week/ordinal dates produce [year, month, day] of the computed date", u == ["[base_date.year, base_date.month, base_date.day]"], construct="uncommon components", detail=str(u))
    for m, ctor in (("isoparse", "datetime"), ("parse_isodate", "date"), ("parse_isotime", "time")):
        f = prog.method(CLS, m, rule)
        calls = [x for x in walk_local(f.node) if isinstance(x, ast.Call) and src(x.func) == ctor]

        def spread(c):
            """`ctor(*C)`, or `ctor(h, *C[1:])` with h a local (the first component, possibly replaced)"""
            if c.keywords:
                return False
            if len(c.args) == 1 and isinstance(c.args[0], ast.Starred) and isinstance(c.args[0].value, ast.Name):
                return True
            if len(c.args) == 2 and isinstance(c.args[0], ast.Name) and isinstance(c.args[1], ast.Starred) and isinstance(c.args[1].value, ast.Subscript) \
                    and isinstance(c.args[1].value.slice, ast.Slice) and src(c.args[1].value.slice).replace(" ", "") == "1:":
                return True
            return False
        ctx.ob(rule, f, "%s builds %s(*components)" % (m, ctor), bool(calls) and all(spread(c) for c in calls), construct="%s: %s(*components)" % (m, ctor),
               detail=str([src(c) for c in calls]))
    iso = prog.method(CLS, "isoparse", rule)
    cat = [n for n in walk_local(iso.node) if isinstance(n, ast.AugAssign) and src(n.target) == "components"]
    ctx.ob(rule, iso, "datetime arguments are date components followed by time components (3 + 5 = 8 positionals)", len(cat) == 1 and "self._parse_isotime(" in src(cat[0].value) and
           len(d or []) + len(t or []) == 8, construct="components += self._parse_isotime(...)")
    # component slots written in order hour, minute, second by comp index
    st = [n for n in walk_local(tm.node) if isinstance(n, ast.Assign) and src(n.targets[0]) == "components[comp]"]
    ctx.ob(rule, tm, "fields are stored at their own index (components[comp]); the zone goes last", len(st) == 2 and
           any(src(n.targets[0]) == "components[-1]" for n in walk_local(tm.node) if isinstance(n, ast.Assign)), construct="component slots")


def check_fraction(ctx, rule):
    prog = ctx.prog
    tm = prog.method(CLS, "_parse_isotime", rule)
    us = [n for n in walk_local(tm.node) if isinstance(n, ast.Assign) and src(n.targets[0]) == "us_str"]
    if len(us) != 1:
        raise AnalysisError(rule, tm.qualname, "fraction string not found")
    v = us[0].value
    k = v.slice.upper.value if isinstance(v, ast.Subscript) and isinstance(v.slice, ast.Slice) and isinstance(v.slice.upper, ast.Constant) and v.slice.lower is None else None
    ctx.ob(rule, tm, "fractions are truncated (not rounded) to 6 digits", k == 6, construct="us_str = %s" % src(v))
    sc = [n for n in walk_local(tm.node) if isinstance(n, ast.Assign) and "us_str" in src(n.value) and "**" in src(n.value)]
    ok = False
    detail = "scaling not found"
    if len(sc) == 1:
        e = sc[0].value
        detail = src(e)
        if isinstance(e, ast.BinOp) and isinstance(e.op, ast.Mult):
            for a, b in ((e.left, e.right), (e.right, e.left)):
                if src(a) == "int(us_str)" and isinstance(b, ast.BinOp) and isinstance(b.op, ast.Pow) and src(b.left) == "10":
                    ok = poly(b.right) == {(): k or -1, ("len(us_str)",): -1}
    ctx.ob(rule, tm, "a k-digit fraction is scaled by 10**(6 - k): same width as the truncation, exponent never negative", ok, construct="microsecond scaling", detail=detail, analysis="constant agreement + polynomial normal form")
    adv = [n for n in walk_local(tm.node) if isinstance(n, ast.AugAssign) and src(n.target) == "pos" and "frac" in src(n.value)]
    ctx.ob(rule, tm, "the cursor skips the whole fraction (all digits, also those beyond microseconds)", len(adv) == 1 and src(adv[0].value).replace(" ", "") == "len(frac.group())", construct="pos += len(frac.group())")
    c = prog.cls(CLS, rule)
    fr = c.assigns.get("_FRACTION_REGEX")
    pat = fr.args[0].value if fr is not None and isinstance(fr, ast.Call) and fr.args and isinstance(fr.args[0], ast.Constant) else None
    if isinstance(pat, bytes):
        pat = pat.decode("latin-1")
    import re._parser as sre
    okp = False
    if pat:
        tree = list(sre.parse(pat))
        if tree and str(tree[0][0]) == "IN":
            chars = sorted(chr(v) for k_, v in tree[0][1] if str(k_) == "LITERAL")
            okp = chars == [",", "."]
    ctx.ob(rule, c, "the decimal mark is a dot or a comma", okp, construct="_FRACTION_REGEX = %r" % pat, analysis="regex AST")
    # "any number of fraction digits": the captured group is one unbounded repetition of an ASCII digit
    okd, why = False, "no group"
    if pat:
        from re._constants import MAXREPEAT
        groups = [t for t in tree if str(t[0]) == "SUBPATTERN"]
        if len(groups) == 1 and len(groups[0][1][3]) == 1 and str(groups[0][1][3][0][0]) in ("MAX_REPEAT",):
            lo, hi, item = groups[0][1][3][0][1]
            item = list(item)
            digit = len(item) == 1 and str(item[0][0]) == "IN" and [(str(k_), v) for k_, v in item[0][1]] in ([("RANGE", (48, 57))],) or \
                len(item) == 1 and str(item[0][0]) == "IN" and [str(v) for k_, v in item[0][1]] == ["CATEGORY_DIGIT"] and isinstance(fr.args[0].value, bytes)
            okd = lo == 1 and hi == MAXREPEAT and bool(digit) and len(tree) == 2
            why = "repeat {%s,%s} of %s" % (lo, "unbounded" if hi == MAXREPEAT else hi, item)
    ctx.ob(rule, c, "a fraction has any number of digits (one or more ASCII digits, no upper bound; what follows the last digit is the next field)", okd,
           construct="_FRACTION_REGEX digits", detail="" if okd else why, analysis="regex AST")
    m = [x for x in walk_local(tm.node) if isinstance(x, ast.Call) and src(x.func) == "self._FRACTION_REGEX.match"]
    ctx.ob(rule, tm, "the fraction is matched at the cursor", len(m) == 1 and src(m[0].args[0]) == "timestr[pos:]", construct="self._FRACTION_REGEX.match(timestr[pos:])")


def check_ascii(ctx, rule):
    prog = ctx.prog
    w = prog.func("parser.isoparser._takes_ascii.func", rule)
    cfg = ctx.cfg(w)
    facts = ctx.facts(w)
    enc = [n for n in cfg.live_nodes() if n.kind == "stmt" and ".encode('ascii')" in src(n.ast)]
    hd = [n for n in cfg.live_nodes() if n.kind == "handler"]
    okh = len(hd) == 1 and "UnicodeEncodeError" in src(hd[0].ast.type) and any("ValueError(" in src(s) for s in hd[0].ast.body)
    ctx.ob(rule, w, "non-ASCII text is converted to ValueError", len(enc) == 1 and okh, construct="encode('ascii') / except UnicodeEncodeError -> ValueError")
    call = [n for n in cfg.live_nodes() if n.kind == "stmt" and isinstance(n.ast, ast.Return) and src(n.ast.value).startswith("f(self, str_in")]
    ctx.ob(rule, w, "the wrapped parser always receives the converted input, after the conversion", len(call) == 1 and
           cfg.path_avoiding(cfg.entry, [cfg.exit], avoid_nodes=call) is None and all(cfg.path_avoiding(e, call, avoid_nodes=[]) is not None for e in enc), construct="return f(self, str_in, ...)")
    ctx.ob(rule, w, "only text is encoded (bytes pass through)", bool(enc) and ("isinstance(str_in, six.text_type)", True) in facts.at(enc[0]), construct="text-only encoding")
    rd = [n for n in cfg.live_nodes() if n.kind == "stmt" and "getattr(str_in, 'read'" in src(n.ast)]
    ctx.ob(rule, w, "a stream is read completely first", len(rd) == 1 and all(cfg.dominates(rd, e) for e in enc), construct="stream read")
    init = prog.method(CLS, "__init__", rule)
    icfg = ctx.cfg(init)
    ifs = ctx.facts(init)
    r = [n for n in icfg.live_nodes() if n.kind == "stmt" and isinstance(n.ast, ast.Raise)]
    e2 = [n for n in icfg.live_nodes() if n.kind == "stmt" and "sep.encode('ascii')" in src(n.ast)]
    ok = len(r) == 1 and src(r[0].ast.exc).startswith("ValueError") and len(e2) == 1 and \
        any((not tv) and "len(sep) != 1" in t and "ord(sep) >= 128" in t and "'0123456789'" in t for t, tv in ifs.at(e2[0]))
    ctx.ob(rule, init, "the separator is validated (single, ASCII, not a digit) before it is encoded", ok, construct="separator validation")
