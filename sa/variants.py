"""Self-validation variants: textual edits applied to a SCRATCH COPY of /repo/src/dateutil (never executed, only
re-analysed).  kind 'break' must make one of `expect` rules fire; kind 'benign' must leave the property's check
silent.  An edit whose `old` text is not found exactly once is skipped (the tree changed) and reported.

Besides these hand-written variants the battery also replays every confirmed sub-agent change kept under
/verif/seeded/<id>/patch.diff as a 'break' variant for the properties its RESULTS.json entry says it fires.
"""

R = "src/dateutil/rrule.py"
RD = "src/dateutil/relativedelta.py"
P = "src/dateutil/parser/_parser.py"
ISO = "src/dateutil/parser/isoparser.py"
TZ = "src/dateutil/tz/tz.py"
TZC = "src/dateutil/tz/_common.py"
FAC = "src/dateutil/tz/_factories.py"
EA = "src/dateutil/easter.py"
ZI = "src/dateutil/zoneinfo/__init__.py"


def V(vid, props, kind, file, old, new, expect=()):
    return {"id": vid, "props": props, "kind": kind, "file": file, "edits": [(old, new)], "expect": list(expect)}


VARIANTS = [
    # ------------------------------------------------------------------ C01
    V("c01-len-drop", ["C01", "C11", "C12", "C10"], "break", R,
      "                if year > datetime.MAXYEAR:\n                    self._len = total\n                    return\n                ii.rebuild(year, month)\n            elif freq == MONTHLY:",
      "                if year > datetime.MAXYEAR:\n                    return\n                ii.rebuild(year, month)\n            elif freq == MONTHLY:", ["C01.LEN", "C11.LEN", "C12.LEN", "C10.LEN"]),
    V("c01-time-notz", ["C01"], "break", R, "        return (datetime.time(hour, minute, second,\n                tzinfo=self.rrule._tzinfo),)", "        return (datetime.time(hour, minute, second),)", ["C01.TIME"]),
    V("c01-time-tz-local", ["C01"], "benign", R, "        tset = []\n        rr = self.rrule\n        for second in rr._bysecond:", "        tset = []\n        rr = self.rrule\n        for second in rr._bysecond:  # per second", []),
    V("c01-guard-367", ["C01"], "break", R, "            if bysetpos == 0 or not (-366 <= bysetpos <= 366):", "            if bysetpos == 0 or not (-366 <= bysetpos <= 367):", ["C01.GUARD"]),
    V("c01-guard-abs", ["C01"], "benign", R, "            if bysetpos == 0 or not (-366 <= bysetpos <= 366):", "            if bysetpos == 0 or abs(bysetpos) > 366:", []),
    V("c01-index-guard-late", ["C01"], "break", R,
      "                        if not (first <= i <= last):\n                            # The nth week lies outside the period, and\n                            # so does the weekday looked up from it.\n                            continue\n",
      "", ["C01.INDEX"]),
    V("c01-index-guard-split", ["C01"], "benign", R,
      "                        if not (first <= i <= last):\n                            # The nth week lies outside the period, and\n                            # so does the weekday looked up from it.\n                            continue\n",
      "                        if i < first or i > last:\n                            continue\n", []),
    V("c01-carry-hour25", ["C01"], "break", R, "                    ndays, hour = divmod(hour+interval, 24)", "                    ndays, hour = divmod(hour+interval, 25)", ["C01.CARRY", "C01.UNIT"]),
    V("c01-table-feb", ["C01"], "break", R, "M366MASK = tuple([1]*31+[2]*29+[3]*31", "M366MASK = tuple([1]*31+[2]*28+[3]*32", ["C01.TABLES"]),
    V("c01-until-ge", ["C01"], "break", R, "                            if until and res > until:\n                                self._len = total\n                                return\n                            elif res >= self._dtstart:",
      "                            if until and res >= until:\n                                self._len = total\n                                return\n                            elif res >= self._dtstart:", ["C01.CUT"]),
    # ------------------------------------------------------------------ C02 / C15
    V("c02-pivot-gt", ["C02"], "break", P, "            if year >= self._year + 50:  # if too far in future", "            if year > self._year + 50:  # if too far in future", ["C02.PIVOT"]),
    V("c02-pivot-swap", ["C02"], "benign", P,
      "            if year >= self._year + 50:  # if too far in future\n                year -= 100\n            elif year < self._year - 50:  # if too far in past\n                year += 100",
      "            if year < self._year - 50:  # if too far in past\n                year += 100\n            elif year >= self._year + 50:  # if too far in future\n                year -= 100", []),
    V("c02-frac-width", ["C02"], "break", P, 'return int(i), int(f.ljust(6, "0")[:6])', 'return int(i), int(f.ljust(6, "0")[:5])', ["C02.FRAC"]),
    V("c02-ampm-13", ["C02"], "break", P, "        if hour < 12 and ampm == 1:\n            hour += 12", "        if hour <= 12 and ampm == 1:\n            hour += 12", ["C02.AMPM"]),
    V("c02-months-swap", ["C02"], "break", P, '              ("Mar", "March"),\n              ("Apr", "April"),', '              ("Apr", "April"),\n              ("Mar", "March"),', ["C02.NAMES"]),
    V("c15-cascade-order", ["C15"], "break", P,
      "        elif res.tzoffset == 0:\n            aware = naive.replace(tzinfo=tz.UTC)\n\n        elif res.tzoffset:\n            aware = naive.replace(tzinfo=tz.tzoffset(res.tzname, res.tzoffset))",
      "        elif res.tzoffset:\n            aware = naive.replace(tzinfo=tz.tzoffset(res.tzname, res.tzoffset))\n\n        elif res.tzoffset == 0:\n            aware = naive.replace(tzinfo=tz.UTC)", ["C15.CASCADE"]),
    V("c15-ignoretz-always", ["C15"], "break", P, "        if not ignoretz:\n            ret = self._build_tzaware(ret, res, tzinfos)", "        ret = self._build_tzaware(ret, res, tzinfos)", ["C15.IGNORETZ"]),
    V("c15-ignoretz-else", ["C15"], "benign", P, "        if not ignoretz:\n            ret = self._build_tzaware(ret, res, tzinfos)", "        if ignoretz:\n            pass\n        else:\n            ret = self._build_tzaware(ret, res, tzinfos)", []),
    # ------------------------------------------------------------------ C03 / C09 / C16
    V("c03-promote-us", ["C03"], "break", RD, "                self.second is not None or self.microsecond is not None):", "                self.second is not None):", ["C03.PROMOTE"]),
    V("c03-rsub", ["C03"], "break", RD, "        return self.__neg__().__radd__(other)", "        return self.__radd__(other)", ["C03.OPS"]),
    V("c09-fix-dropped", ["C09", "C16"], "break", RD, "                    raise ValueError(\"invalid year day (%d)\" % yday)\n\n        self._fix()", "                    raise ValueError(\"invalid year day (%d)\" % yday)\n", ["C09.NORM", "C16.FIX"]),
    V("c09-86400", ["C09"], "break", RD, "            self.seconds = delta.seconds + delta.days * 86400", "            self.seconds = delta.seconds + delta.days * 8640", ["C09.UNIT"]),
    V("c09-commute", ["C09"], "benign", RD, "            self.seconds = delta.seconds + delta.days * 86400", "            self.seconds = 86400 * delta.days + delta.seconds", []),
    V("c16-neg-leapdays", ["C16"], "break", RD, "                             microseconds=-self.microseconds,\n                             leapdays=self.leapdays,", "                             microseconds=-self.microseconds,", ["C16.FIELDS"]),
    V("c16-add-swapped-field", ["C16"], "break", RD, "                                 minute=(other.minute if other.minute is not None\n                                         else self.minute),",
      "                                 minute=(other.minute if other.minute is not None\n                                         else self.second),", ["C16.FIELDS"]),
    V("c16-abs-wrong", ["C16"], "break", RD, "                              hours=abs(self.hours),", "                              hours=abs(self.minutes),", ["C16.FIELDS"]),
    V("c16-fix-60", ["C16", "C09"], "break", RD, "        if abs(self.seconds) > 59:", "        if abs(self.seconds) > 60:", ["C16.FIX", "C09.NORM"]),
    # (withdrawn twin: `abs(self.seconds) >= 60` for `> 59` is NOT behaviour preserving - for 59 < |seconds| < 60 the original
    #  runs the carry with a float zero and turns an int `minutes` into a float; C16.TABLE is right to report it)
    V("c16-eq-drop-field", ["C16"], "break", RD, "                self.leapdays == other.leapdays and\n", "", ["C16.EQHASH"]),
    # ------------------------------------------------------------------ C04 / C05 / C06 / C08
    V("c04-fold-dropped", ["C04"], "break", TZ, "        return enfold(dt_out, fold=int(fold))", "        return dt_out", ["C04.FOLD"]),
    V("c04-validate-dropped", ["C04"], "break", TZ, "    @_validate_fromutc_inputs\n    def fromutc(self, dt):\n        return dt + self._offset", "    def fromutc(self, dt):\n        return dt + self._offset", ["C04.VALID"]),
    V("c05-resolve-unguarded", ["C05"], "break", TZ, "        old_offset = (dt - datetime.timedelta(hours=24)).utcoffset()\n\n        dt += curr_offset - old_offset", "        old_offset = (dt - datetime.timedelta(hours=24)).utcoffset()\n\n    dt = dt + datetime.timedelta(0)", ["C05.API"]),
    V("c06-bisect-left", ["C06"], "break", TZ, "        idx = bisect.bisect_right(trans_list, timestamp)", "        idx = bisect.bisect_left(trans_list, timestamp)", ["C06.LOOKUP"]),
    V("c06-bisect-alias", ["C06"], "benign", TZ, "        idx = bisect.bisect_right(trans_list, timestamp)", "        idx = bisect.bisect(trans_list, timestamp)", []),
    V("c06-eq-drop-slot", ["C06"], "break", TZ, "                self.isstd == other.isstd and\n", "", ["C06.EQ"]),
    V("c06-struct-size", ["C06"], "break", TZ, "fileobj.read(timecnt*4)))", "fileobj.read(timecnt*2)))", ["C06.STRUCT"]),
    V("c08-unit-360", ["C08"], "break", P, "                            setattr(res, offattr, (int(l[i][:2]) * 3600 +\n                                                   int(l[i][2:]) * 60) * signal)",
      "                            setattr(res, offattr, (int(l[i][:2]) * 360 +\n                                                   int(l[i][2:]) * 60) * signal)", ["C08.UNIT"]),
    V("c08-null-guard-removed", ["C08"], "break", TZ, "        if (res.stdabbr in (\"GMT\", \"UTC\") and not posix_offset and\n                res.stdoffset is not None):", "        if res.stdabbr in (\"GMT\", \"UTC\") and not posix_offset:", ["C08.NULL"]),
    V("c08-sign-flip", ["C08"], "break", P, "                            signal = (1, -1)[l[i] == '+']", "                            signal = (-1, 1)[l[i] == '+']", ["C08.SIGN"]),
    # ------------------------------------------------------------------ C07 / C20
    V("c07-entry-undecorated", ["C07"], "break", ISO, "    @_takes_ascii\n    def parse_tzstr(self, tzstr, zero_as_utc=True):", "    def parse_tzstr(self, tzstr, zero_as_utc=True):", ["C07.ENTRY"]),
    V("c07-midnight-noday", ["C07", "C20"], "break", ISO, "                return datetime(*components) + timedelta(days=1)", "                return datetime(*components)", ["C07.MIDNIGHT", "C20.MIDNIGHT"]),
    V("c07-midnight-24h", ["C07", "C20"], "benign", ISO, "                return datetime(*components) + timedelta(days=1)", "                return datetime(*components) + timedelta(hours=24)", []),
    V("c07-week-55", ["C07", "C20"], "break", ISO, "        if not 0 < week < 54:", "        if not 0 < week < 55:", ["C07.WEEK", "C20.RANGE"]),
    V("c07-week-le", ["C07", "C20"], "benign", ISO, "        if not 0 < week < 54:", "        if not 1 <= week <= 53:", []),
    V("c07-ordinal-noleap", ["C07", "C20"], "break", ISO, "            if ordinal_day < 1 or ordinal_day > (365 + calendar.isleap(year)):", "            if ordinal_day < 1 or ordinal_day > 366:", ["C07.WEEK", "C20.RANGE"]),
    V("c20-digits-bare-int", ["C20"], "break", ISO, "        hours = _to_int(tzstr[1:3], 2)", "        hours = int(tzstr[1:3])", ["C20.DIGITS"]),
    V("c20-len-7", ["C20"], "break", ISO, "        if len(tzstr) not in {3, 5, 6}:", "        if len(tzstr) not in {3, 5, 6, 7}:", ["C20.GUARDS", "C20.COVER"]),
    V("c20-minutes-60", ["C20"], "break", ISO, "            if minutes > 59:", "            if minutes > 60:", ["C20.GUARDS"]),
    V("c20-leftover-dropped", ["C20"], "break", ISO, "        if pos < len(datestr):\n            raise ValueError('String contains unknown ISO ' +\n                             'components: {!r}'.format(datestr.decode('ascii')))\n", "", ["C20.GUARDS"]),
    # ------------------------------------------------------------------ C10 / C11 / C12 / C13
    V("c10-inval-undecorated", ["C10"], "break", R, "    @_invalidates_cache\n    def exdate(self, exdate):", "    def exdate(self, exdate):", ["C10.INVAL"]),
    V("c10-reset-len", ["C10"], "break", R, "            self._cache_gen = self._iter()\n\n        self._len = None", "            self._cache_gen = self._iter()\n", ["C10.RESET"]),
    V("c10-ne-eq", ["C10"], "break", R, "        def __ne__(self, other):\n            return self.dt != other.dt", "        def __ne__(self, other):\n            return self.dt == other.dt", ["C10.CMP"]),
    V("c10-ne-not-eq", ["C10"], "benign", R, "        def __ne__(self, other):\n            return self.dt != other.dt", "        def __ne__(self, other):\n            return not (self.dt == other.dt)", []),
    V("c11-break-skips-release", ["C11"], "break", R, "                try:\n                    # The cache was replaced if the set changed meanwhile\n                    current = cache is self._cache\n                    if current and self._cache_complete:\n                        break\n                    try:", "                current = cache is self._cache\n                if current and self._cache_complete:\n                    break\n                try:\n                    try:", ["C11.PAIR", "C11.NOYIELD"]),
    V("c11-genfail-handler-removed", ["C11"], "break", R, "                    except Exception:\n                        # A generator that raised is finished for good and\n                        # would read as an exhausted rule: start it over\n                        if current:\n                            self._cache = []\n                            self._cache_gen = self._iter()\n                        raise\n", "", ["C11.GENFAIL"]),
    V("c11-genfail-handler-baseexception", ["C11"], "benign", R, "                    except Exception:\n                        # A generator that raised is finished for good and", "                    except BaseException:\n                        # A generator that raised is finished for good and", []),
    V("c11-lookahead-parked", ["C11"], "break", R, "                        for j in range(10):\n                            cache.append(advance_iterator(gen))\n", "                        for j in range(10):\n                            cache.append(advance_iterator(gen))\n                        ahead = [advance_iterator(gen)]\n", ["C11.CONSERVE"]),
    V("c13-year-strftime", ["C13"], "break", R, "            parts.append('UNTIL=%04d' % self._until.year +\n                         self._until.strftime('%m%dT%H%M%S'))", "            parts.append(self._until.strftime('UNTIL=%Y%m%dT%H%M%S'))", ["C13.YEARPAD"]),
    V("c13-year-format", ["C13"], "benign", R, "            parts.append('UNTIL=%04d' % self._until.year +\n                         self._until.strftime('%m%dT%H%M%S'))", "            parts.append('UNTIL={:04d}'.format(self._until.year) +\n                         self._until.strftime('%m%dT%H%M%S'))", []),
    V("c13-tzid-runs-across-semicolon", ["C13"], "break", R, "'TZID=(?P<name>[^:;]+)[:;]'", "'TZID=(?P<name>[^:]+):'", ["C13.TZID"]),
    V("c18-key-truncated", ["C18"], "break", FAC, "            key = (name, offset.total_seconds())", "            key = (name, int(offset.total_seconds()))", ["C18.KEYINJ"]),
    V("c18-key-drops-argument", ["C18"], "break", FAC, "        key = (s, posix_offset)", "        key = (s,)", ["C18.KEYINJ"]),
    V("c12-before-gt", ["C12"], "break", R, "            for i in gen:\n                if i >= dt:\n                    break\n                last = i\n        return last", "            for i in gen:\n                if i > dt:\n                    break\n                last = i\n        return last", ["C12.CMP"]),
    V("c12-before-not-lt", ["C12"], "benign", R, "            for i in gen:\n                if i >= dt:\n                    break\n                last = i\n        return last", "            for i in gen:\n                if not (i < dt):\n                    break\n                last = i\n        return last", []),
    V("c12-replace-byeaster", ["C12"], "break", R, "            self._original_rule['byeaster'] = self._byeaster\n", "", ["C12.REPLACE"]),
    V("c13-handler-renamed", ["C13"], "break", R, "    _handle_BYEASTER = _handle_int_list", "    _handle_BYEASTR = _handle_int_list", ["C13.NAMES"]),
    V("c13-keyerror-uncaught", ["C13"], "break", R, "            except (KeyError, ValueError):\n                raise ValueError(\"invalid '%s': %s\" % (name, value))", "            except ValueError:\n                raise ValueError(\"invalid '%s': %s\" % (name, value))", ["C13.EXC", "C13.FREQ"]),
    V("c13-freq-check-removed", ["C13"], "break", R, "        if \"freq\" not in rrkwargs:\n            raise ValueError(\"missing mandatory FREQ part\")\n", "", ["C13.FREQ"]),
    # ------------------------------------------------------------------ C14
    V("c14-handler-noindex", ["C14"], "break", P, "        except (IndexError, ValueError, InvalidOperation):", "        except (ValueError, InvalidOperation):", ["C14.EXC"]),
    V("c14-handler-wide", ["C14"], "benign", P, "        except (IndexError, ValueError, InvalidOperation):", "        except (LookupError, ValueError, ArithmeticError):", []),
    V("c14-weekday-notry", ["C14"], "break", P, "    def weekday(self, name):\n        try:\n            return self._weekdays[name.lower()]\n        except KeyError:\n            pass\n        return None", "    def weekday(self, name):\n        return self._weekdays[name.lower()]", ["C14.EXC"]),
    V("c14-state-on-self", ["C14"], "break", P, "        res = self._result()\n        l = _timelex.split(timestr)         # Splits the timestr into tokens", "        res = self._result()\n        l = _timelex.split(timestr)         # Splits the timestr into tokens\n        self._last_tokens = l", ["C14.PURE"]),
    V("c14-scan-no-advance", ["C14"], "break", P, "                else:\n                    skipped_idxs.append(i)\n                i += 1\n", "                else:\n                    skipped_idxs.append(i)\n                    i += 1\n", ["C14.TERM"]),
    # ------------------------------------------------------------------ C17 / C18 / C19
    V("c17-mand-to-dropped", ["C17"], "break", TZ, "                        if tzoffsetto is None:\n                            raise ValueError(\n                                \"mandatory TZOFFSETFROM not found\")\n", "", ["C17.MAND"]),
    V("c17-key-nofold", ["C17", "C05"], "break", TZ, "                return self._cachecomp[self._cachedate.index(\n                    (dt, self._fold(dt)))]", "                return self._cachecomp[self._cachedate.index(dt)]", ["C17.KEY", "C05.KEY"]),
    V("c18-clear-unlocked", ["C18"], "break", TZ, "        def cache_clear(self):\n            with self._cache_lock:\n                self.__instances = weakref.WeakValueDictionary()\n                self.__strong_cache.clear()",
      "        def cache_clear(self):\n            self.__instances = weakref.WeakValueDictionary()\n            self.__strong_cache.clear()", ["C18.LOCKED"]),
    V("c18-eq-false", ["C18"], "break", TZ, "    def __eq__(self, other):\n        if not isinstance(other, tzoffset):\n            return NotImplemented\n", "    def __eq__(self, other):\n        if not isinstance(other, tzoffset):\n            return False\n", ["C18.EQ"]),
    V("c18-try-finally", ["C18"], "benign", FAC,
      "        with cls._cache_lock:\n            instance = cls.__instances.get(key, None)\n            if instance is None:\n                instance = cls.__instances.setdefault(key,\n                                                      cls.instance(name, offset))\n\n            cls.__strong_cache[key] = cls.__strong_cache.pop(key, instance)\n\n            # Remove an item if the strong cache is overpopulated\n            if len(cls.__strong_cache) > cls.__strong_cache_size:\n                cls.__strong_cache.popitem(last=False)\n",
      "        cls._cache_lock.acquire()\n        try:\n            instance = cls.__instances.get(key, None)\n            if instance is None:\n                instance = cls.__instances.setdefault(key,\n                                                      cls.instance(name, offset))\n\n            cls.__strong_cache[key] = cls.__strong_cache.pop(key, instance)\n\n            # Remove an item if the strong cache is overpopulated\n            if len(cls.__strong_cache) > cls.__strong_cache_size:\n                cls.__strong_cache.popitem(last=False)\n        finally:\n            cls._cache_lock.release()\n", []),
    V("c19-method-lower", ["C19"], "break", EA, "    if not (1 <= method <= 3):", "    if not (method <= 3):", ["C19.METHOD"]),
    # (withdrawn twin: `method not in (1, 2, 3)` for `not (1 <= method <= 3)` rejects 2.5 / True-like values the original
    #  lets through; C19.FORMULA is right to report it)
    V("c19-day-32", ["C19"], "break", EA, "    d = 1 + (p + 27 + (p + 6)//40) % 31", "    d = 1 + (p + 27 + (p + 6)//40) % 32", ["C19.RANGE"]),
]
