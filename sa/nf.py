"""E12a - effect-sequence normal form of a statement region (the representation the equivalence prover compares).

A region (statement list) is read as a state transformer.  For every structured path the engine records

  conds    the branch atoms that select the path (canonical, see summ.atom), over symbolic values;
  effects  the ordered sequence of things the path does to the world:
             call $k := f(args)      every call that is not on the purity list, in evaluation order; its result is the
                                     symbol $k (numbered per path), so `t = f(x); g(t)` and `g(f(x))` read the same
                                     and `f(); h()` / `h(); f()` do not
             store target = value    attribute / item assignment;  del target
             let name := expr        a local that had to be named: a container display (identity), or a temporary
                                     reading the heap that is read again after the heap may have changed
             with / endwith, try / endtry / except / finally, for / while / endloop, break, carry name := value
                                     (value a loop hands to its next iteration), yield, decl (nested def, global), import
  result   return <expr> | raise <expr> | fall (with `final name := value` for the locals that are read afterwards)
           | break | continue

Values are expressions over the region's inputs (names not assigned yet), call symbols and loop symbols.  A temporary is
replaced by its defining expression as long as that is the same value: immediately for pure expressions, and for
heap-reading expressions (attribute, item, pure method call) until the next effect that can change the heap.
Conditional expressions, short-circuit operands that make calls, int(<boolean>) and (a, b)[<boolean>] fork the path, so
`x = a if c else b` and the if statement have one normal form.  Loops contribute their header and one symbolic iteration
of the body including the carried values; two loops with equal headers and equal iteration transformers are equal.

Nothing is executed; atoms and symbols are opaque.  The only assumption about values is that compared values are
totally ordered (summ.consistent) and that the listed builtins / str / datetime methods are pure.
"""
import ast
import copy

from .model import src
from .summ import Atom, atom, consistent, Path, Unsupported, _is_boolish, _assigned, _walk_in_order, _load

PURE_FUNCS = {"int", "len", "abs", "min", "max", "str", "float", "bool", "tuple", "divmod", "isinstance", "callable", "getattr", "sorted", "range", "list",
              "enumerate", "zip", "reversed", "set", "frozenset", "dict", "any", "all", "sum", "hasattr", "type", "repr", "ord", "chr", "text_type", "iter",
              "issubclass", "round", "bytes", "unicode", "id", "hash", "slice", "map", "filter", "super", "vars", "format", "hex", "bin", "oct", "pow",
              # stdlib / package functions that only compute from their arguments
              "monthrange", "isleap", "gcd", "_sign", "copysign", "enfold", "timedelta", "weekday"}
PURE_METHODS = {"split", "rsplit", "splitlines", "strip", "rstrip", "lstrip", "lower", "upper", "find", "rfind", "startswith", "endswith", "join", "get",
                "count", "index", "format", "encode", "decode", "isdigit", "isalpha", "isspace", "keys", "values", "items", "copy", "replace", "ljust",
                "rjust", "total_seconds", "toordinal", "weekday", "isoweekday", "isocalendar", "timetuple", "utcoffset", "dst", "tzname", "date", "time",
                "strftime", "locked", "issubset", "difference", "union", "group", "match", "isoformat", "timetz", "utctimetuple", "title", "zfill",
                "partition", "rpartition", "is_integer", "bit_length", "search", "fullmatch", "groups", "span", "start", "end", "intersection"}
CONTAINER_MUTATORS = {"append", "extend", "insert", "pop", "remove", "sort", "reverse", "add", "discard", "update", "setdefault", "clear", "popitem"}
IDENTITY = (ast.List, ast.Dict, ast.Set, ast.ListComp, ast.SetComp, ast.DictComp, ast.GeneratorExp, ast.Lambda)


# set by the equivalence prover for the module / class being compared (sa/equiv.infer_pure)
EXTRA_PURE_FUNCS = set()
EXTRA_PURE_SELF_METHODS = set()


def is_pure_call(c):
    f = c.func
    if isinstance(f, ast.Name):
        if f.id in PURE_FUNCS or f.id in EXTRA_PURE_FUNCS:
            return True
        if f.id.endswith(("Error", "Exception", "Warning")):
            return True
        return False
    if isinstance(f, ast.Attribute):
        if f.attr in PURE_METHODS:
            return True
        if isinstance(f.value, ast.Name) and f.value.id == "self" and f.attr in EXTRA_PURE_SELF_METHODS:
            return True
        if f.attr.endswith(("Error", "Exception", "Warning")):
            return True
        if src(f) in ("datetime.timedelta", "datetime.datetime", "datetime.date", "datetime.time", "relativedelta.relativedelta",
                      "datetime.datetime.fromordinal", "datetime.date.fromordinal", "calendar.isleap", "calendar.monthrange",
                      "operator.gt", "operator.lt"):
            return True
    return False


def has_impure(e):
    for x in ast.walk(e):
        if isinstance(x, ast.Call) and not is_pure_call(x):
            return True
        if isinstance(x, (ast.Yield, ast.YieldFrom, ast.Await, ast.NamedExpr)):
            return True
    return False


def has_conditional(e, bool_calls=()):
    for x in ast.walk(e):
        if isinstance(x, ast.IfExp):
            return True
    return False


# functions / methods whose result depends only on the (immutable) values of their arguments / receiver
SCALAR_FUNCS = {"int", "abs", "float", "bool", "divmod", "isinstance", "callable", "issubclass", "round", "ord", "chr", "pow", "hex", "bin", "oct",
                "monthrange", "isleap", "gcd", "_sign", "copysign", "timedelta", "weekday", "text_type", "str", "type"}
SCALAR_METHODS = {"split", "rsplit", "splitlines", "strip", "rstrip", "lstrip", "lower", "upper", "find", "rfind", "startswith", "endswith", "isdigit",
                  "isalpha", "isspace", "ljust", "rjust", "total_seconds", "toordinal", "isoweekday", "isocalendar", "title", "zfill", "partition",
                  "rpartition", "is_integer", "bit_length", "encode", "decode"}


def reads_heap(e):
    """Does the value of this (already evaluated) expression depend on mutable state?"""
    if isinstance(e, (ast.Constant, ast.Name)):
        return False
    if isinstance(e, (ast.BinOp, ast.UnaryOp, ast.Compare, ast.BoolOp, ast.Tuple, ast.IfExp, ast.Slice, ast.keyword)):
        return any(reads_heap(c) for c in ast.iter_child_nodes(e) if isinstance(c, (ast.expr, ast.keyword)))
    if isinstance(e, ast.Call):
        f = e.func
        if isinstance(f, ast.Name) and f.id in SCALAR_FUNCS:
            return any(reads_heap(a) for a in e.args) or any(reads_heap(k.value) for k in e.keywords)
        if isinstance(f, ast.Attribute) and (f.attr in SCALAR_METHODS or src(f) in ("datetime.timedelta", "calendar.isleap", "calendar.monthrange")):
            return reads_heap(f.value) or any(reads_heap(a) for a in e.args) or any(reads_heap(k.value) for k in e.keywords)
        return True
    return True


def _ordered_names(node):
    """Name nodes in evaluation-ish order: for an assignment the value before the targets."""
    if isinstance(node, ast.Assign):
        for x in _ordered_names(node.value):
            yield x
        for t in node.targets:
            for x in _ordered_names(t):
                yield x
        return
    if isinstance(node, ast.AugAssign):
        for x in _ordered_names(node.target):
            yield ast.Name(id=x.id, ctx=ast.Load()) if isinstance(x, ast.Name) else x
        for x in _ordered_names(node.value):
            yield x
        return
    if isinstance(node, (ast.For, ast.AsyncFor)):
        for part in [node.iter, node.target] + node.body + node.orelse:
            for x in _ordered_names(part):
                yield x
        return
    if isinstance(node, ast.Name):
        yield node
        return
    if isinstance(node, (ast.FunctionDef, ast.Lambda, ast.ClassDef)):
        return
    for c in ast.iter_child_nodes(node):
        for x in _ordered_names(c):
            yield x


def canon_bound(e):
    """The variables a comprehension / lambda binds itself are renamed _b1, _b2, ... (their names are not observable)."""
    e = copy.deepcopy(e)
    bound = []
    for x in ast.walk(e):
        if isinstance(x, ast.comprehension):
            for t in ast.walk(x.target):
                if isinstance(t, ast.Name) and t.id not in bound:
                    bound.append(t.id)
        elif isinstance(x, ast.Lambda):
            a = x.args
            for y in a.posonlyargs + a.args + a.kwonlyargs:
                if y.arg not in bound:
                    bound.append(y.arg)
    if not bound:
        return e
    m = dict((nm, "_b%d" % (i + 1)) for i, nm in enumerate(bound))
    for x in ast.walk(e):
        if isinstance(x, ast.Name) and x.id in m:
            x.id = m[x.id]
        elif isinstance(x, ast.arg) and x.arg in m:
            x.arg = m[x.arg]
    return e


class P(Path):
    __slots__ = ("k",)

    def __init__(self, *a, **kw):
        Path.__init__(self, *a, **kw)
        self.k = 0

    def fork(self):
        q = P(list(self.conds), dict(self.env), list(self.effects), self.result, list(self.notes), dict(self.frozen))
        q.k = self.k
        return q


class NF(object):
    def __init__(self, stmts, final_names=(), max_paths=400, live_after=()):
        self.stmts = stmts
        self.final_names = list(final_names)
        self.live_after = set(live_after)       # names read by whatever runs after the region
        # boolean flags: names every assignment of which (in the region) is True / False
        vals = {}
        for n in _walk_in_order(stmts):
            for x in ast.walk(n) if not isinstance(n, (ast.If, ast.For, ast.While, ast.Try, ast.With)) else []:
                if isinstance(x, ast.Assign):
                    for t in x.targets:
                        for y in ast.walk(t):
                            if isinstance(y, ast.Name):
                                vals.setdefault(y.id, []).append(isinstance(t, ast.Name) and isinstance(x.value, ast.Constant) and isinstance(x.value.value, bool))
                elif isinstance(x, (ast.AugAssign, ast.NamedExpr)):
                    for y in ast.walk(x.target):
                        if isinstance(y, ast.Name):
                            vals.setdefault(y.id, []).append(False)
            if isinstance(n, (ast.For, ast.AsyncFor)):
                for y in ast.walk(n.target):
                    if isinstance(y, ast.Name):
                        vals.setdefault(y.id, []).append(False)
        self.flag_names = set(k for k, v in vals.items() if v and all(v))
        self.max_paths = max_paths
        self.done = []
        self.n_live = 0
        self.ordinal = {}
        k = {"try": 0, "loop": 0}
        for n in _walk_in_order(stmts):
            if isinstance(n, ast.Try) or type(n).__name__ == "TryStar":
                k["try"] += 1
                self.ordinal[id(n)] = k["try"]
            elif isinstance(n, (ast.For, ast.AsyncFor, ast.While)):
                k["loop"] += 1
                self.ordinal[id(n)] = k["loop"]

    def run(self):
        live = self.block(self.stmts, [P()])
        for p in live:
            p.result = ("fall", None)
            self.done.append(p)
        for p in self.done:
            if p.result and p.result[0] in ("fall", "break", "continue"):
                for nm in self.final_names:
                    if nm in p.frozen and not isinstance(p.frozen[nm], IDENTITY):
                        p.effects.append(("final", nm, p.frozen.pop(nm)))
                        continue
                    p.effects.append(("final", nm, self.value_of(p, nm)))
        return [p for p in self.done if consistent(p.conds)]

    def budget(self, n):
        if n + len(self.done) > self.max_paths:
            raise Unsupported("too many paths")

    # ------------------------------------------------------------------ values
    def value_of(self, p, nm):
        if nm in p.frozen:
            v = p.frozen.pop(nm)
            p.effects.append(("new" if isinstance(v, IDENTITY) else "let", nm, v))
            return ast.Name(id=nm, ctx=ast.Load())
        v = p.env.get(nm)
        return copy.deepcopy(v) if v is not None else ast.Name(id=nm, ctx=ast.Load())

    def bump(self, p, passed=(), container=None, attr=None):
        """The heap may have changed: temporaries reading it (and values handed to the callee) stop standing for their
        defining expression.  container=<text>: only the contents of that container changed (append, sort, ... on it) -
        reads that do not go through it are unaffected.  attr=<name>: only attributes of that name were assigned."""
        for nm in sorted(p.env):
            v = p.env[nm]
            if nm in passed and not isinstance(v, (ast.Constant, ast.Name)):
                hit = True
            elif not reads_heap(v):
                hit = False
            elif container is not None:
                hit = container in src(v)
            elif attr is not None:
                hit = any(isinstance(x, ast.Attribute) and x.attr == attr for x in ast.walk(v)) or \
                    any(isinstance(x, ast.Call) and reads_heap(x) for x in ast.walk(v))
            else:
                hit = True
            if hit:
                p.frozen[nm] = v
                del p.env[nm]

    def sym(self, p, call):
        p.k += 1
        nm = "$%d" % p.k
        p.effects.append(("call", nm, call))
        return ast.Name(id=nm, ctx=ast.Load())

    def ev(self, p, e):
        """[(path, value expr)] - evaluates `e` on path p (forking on conditionals), recording calls in order."""
        if e is None:
            return [(p, None)]
        if isinstance(e, ast.Constant):
            return [(p, e)]
        if isinstance(e, ast.Name):
            if isinstance(e.ctx, ast.Load):
                return [(p, self.value_of(p, e.id))]
            return [(p, e)]
        if isinstance(e, ast.IfExp):
            out = []
            for truth, br in ((True, e.body), (False, e.orelse)):
                for q in self.branch(p.fork(), e.test, truth):
                    out.extend(self.ev(q, br))
            self.budget(len(out))
            return out
        if isinstance(e, ast.Subscript) and isinstance(e.value, ast.Tuple) and len(e.value.elts) == 2 and _is_boolish(e.slice) \
                and not isinstance(e.slice, ast.Constant) and not has_impure(e.value):
            out = []
            for truth in (True, False):
                for q in self.branch(p.fork(), e.slice, truth):
                    out.extend(self.ev(q, e.value.elts[1 if truth else 0]))
            return out
        if isinstance(e, ast.Call) and isinstance(e.func, ast.Name) and e.func.id in ("int", "bool") and len(e.args) == 1 and not e.keywords:
            a = e.args[0]
            if _is_boolish(a) and not isinstance(a, ast.Constant):
                out = []
                for truth in (True, False):
                    for q in self.branch(p.fork(), a, truth):
                        out.append((q, ast.Constant(value=(1 if truth else 0) if e.func.id == "int" else truth)))
                return out
            if isinstance(a, ast.BoolOp) and len(a.values) >= 2 and _is_boolish(a.values[0]):
                # int(A and Y), A boolean: 0 when A is false, int(Y) otherwise
                is_and = isinstance(a.op, ast.And)
                rest = a.values[1] if len(a.values) == 2 else ast.BoolOp(op=a.op, values=a.values[1:])
                short = ast.Constant(value=(0 if is_and else 1) if e.func.id == "int" else (not is_and))
                out = []
                for q in self.branch(p.fork(), a.values[0], is_and):
                    out.extend(self.ev(q, ast.Call(func=e.func, args=[rest], keywords=[])))
                for q in self.branch(p.fork(), a.values[0], not is_and):
                    out.append((q, short))
                return out
        if isinstance(e, ast.BoolOp):
            if not any(has_impure(v) or has_conditional(v) for v in e.values[1:]):
                return self.seq(p, e.values, lambda vs: ast.BoolOp(op=e.op, values=vs))
            # a later operand makes a call: it is evaluated only when the earlier ones did not decide
            is_and = isinstance(e.op, ast.And)
            out = []
            rest = e.values[1] if len(e.values) == 2 else ast.BoolOp(op=e.op, values=e.values[1:])
            for q, r in self.ev(p, e.values[0]):
                q1 = q.fork()
                q1.conds.append(atom(r, not is_and))       # decided here: the value is the first operand
                if consistent(q1.conds):
                    out.append((q1, r))
                q2 = q
                q2.conds.append(atom(r, is_and))
                if consistent(q2.conds):
                    out.extend(self.ev(q2, rest))
            return out
        if isinstance(e, ast.Call):
            parts = []
            if isinstance(e.func, ast.Attribute):
                parts.append(e.func.value)
            elif not isinstance(e.func, ast.Name):
                parts.append(e.func)
            n_f = len(parts)
            parts += list(e.args) + [k.value for k in e.keywords]

            def build(vs):
                c = copy.copy(e)
                if isinstance(e.func, ast.Attribute):
                    c.func = ast.Attribute(value=vs[0], attr=e.func.attr, ctx=ast.Load())
                elif n_f:
                    c.func = vs[0]
                c.args = vs[n_f:n_f + len(e.args)]
                c.keywords = [ast.keyword(arg=k.arg, value=v) for k, v in zip(e.keywords, vs[n_f + len(e.args):])]
                return c
            out = []
            if src(e.func).endswith("raise_from") and e.args:
                # six.raise_from(exc, cause) never returns
                for q, c in self.seq(p, parts, build):
                    self.finish(q, "raise", ast.Tuple(elts=list(c.args), ctx=ast.Load()))
                return []
            for q, c in self.seq(p, parts, build):
                if is_pure_call(e):
                    out.append((q, c))
                else:
                    passed = set(x.id for a in parts for x in ast.walk(a) if isinstance(x, ast.Name))
                    s_ = self.sym(q, c)
                    if isinstance(c.func, ast.Attribute) and c.func.attr in CONTAINER_MUTATORS and not any(has_impure(a) for a in parts):
                        # list / set / dict method: changes the contents of its receiver and nothing else
                        recv = set(x.id for x in ast.walk(parts[0]) if isinstance(x, ast.Name)) if parts else set()
                        self.bump(q, recv, container=src(c.func.value))
                    else:
                        self.bump(q, passed)
                    out.append((q, s_))
            return out
        if isinstance(e, (ast.Yield, ast.YieldFrom)):
            out = []
            for q, v in self.ev(p, e.value):
                q.k += 1
                nm = "$%d" % q.k
                q.effects.append(("yield", nm, v if v is not None else ast.Constant(value=None)))
                self.bump(q)
                out.append((q, ast.Name(id=nm, ctx=ast.Load())))
            return out
        if isinstance(e, (ast.Lambda, ast.GeneratorExp, ast.ListComp, ast.SetComp, ast.DictComp)):
            e = canon_bound(e)
            # a unit: the locals it captures must be stable names
            bound = set()
            for x in ast.walk(e):
                if isinstance(x, ast.comprehension):
                    for t in ast.walk(x.target):
                        if isinstance(t, ast.Name):
                            bound.add(t.id)
                elif isinstance(x, ast.Lambda):
                    a = x.args
                    bound.update(y.arg for y in a.posonlyargs + a.args + a.kwonlyargs)
            env = {}
            for x in ast.walk(e):
                if isinstance(x, ast.Name) and isinstance(x.ctx, ast.Load) and x.id not in bound:
                    if x.id in p.frozen:
                        p.effects.append(("let", x.id, p.frozen.pop(x.id)))
                    elif x.id in p.env:
                        v = p.env[x.id]
                        if isinstance(e, (ast.Lambda, ast.GeneratorExp)) and not isinstance(v, (ast.Constant, ast.Name)):
                            p.effects.append(("let", x.id, p.env.pop(x.id)))     # evaluated later: must be a name
                        else:
                            env[x.id] = v
            from .summ import subst
            r = subst(e, env)
            if isinstance(e, (ast.ListComp, ast.SetComp, ast.DictComp)) and has_impure(e):
                s_ = self.sym(p, r)
                self.bump(p)
                return [(p, s_)]
            return [(p, r)]
        if isinstance(e, ast.Compare):
            return self.seq(p, [e.left] + list(e.comparators), lambda vs: ast.Compare(left=vs[0], ops=e.ops, comparators=vs[1:]))
        if isinstance(e, ast.BinOp):
            return self.seq(p, [e.left, e.right], lambda vs: ast.BinOp(left=vs[0], op=e.op, right=vs[1]))
        if isinstance(e, ast.UnaryOp):
            return self.seq(p, [e.operand], lambda vs: ast.UnaryOp(op=e.op, operand=vs[0]))
        if isinstance(e, ast.Attribute):
            return self.seq(p, [e.value], lambda vs: ast.Attribute(value=vs[0], attr=e.attr, ctx=ast.Load()))
        if isinstance(e, ast.Subscript):
            return self.seq(p, [e.value, e.slice], lambda vs: ast.Subscript(value=vs[0], slice=vs[1], ctx=ast.Load()))
        if isinstance(e, ast.Slice):
            return self.seq(p, [e.lower, e.upper, e.step], lambda vs: ast.Slice(lower=vs[0], upper=vs[1], step=vs[2]))
        if isinstance(e, (ast.Tuple, ast.List, ast.Set)):
            return self.seq(p, list(e.elts), lambda vs: type(e)(elts=vs, ctx=ast.Load()) if not isinstance(e, ast.Set) else ast.Set(elts=vs))
        if isinstance(e, ast.Dict):
            n = len(e.keys)
            return self.seq(p, list(e.keys) + list(e.values), lambda vs: ast.Dict(keys=vs[:n], values=vs[n:]))
        if isinstance(e, ast.Starred):
            return self.seq(p, [e.value], lambda vs: ast.Starred(value=vs[0], ctx=ast.Load()))
        if isinstance(e, ast.JoinedStr):
            return self.seq(p, list(e.values), lambda vs: ast.JoinedStr(values=vs))
        if isinstance(e, ast.FormattedValue):
            return self.seq(p, [e.value], lambda vs: ast.FormattedValue(value=vs[0], conversion=e.conversion, format_spec=e.format_spec))
        if isinstance(e, ast.NamedExpr):
            out = []
            for q, v in self.ev(p, e.value):
                self.bind(q, e.target.id, v)
                out.append((q, self.value_of(q, e.target.id)))
            return out
        raise Unsupported("expression %s" % type(e).__name__)

    def seq(self, p, parts, build):
        """Evaluate `parts` left to right (forking as needed) and rebuild."""
        acc = [(p, [])]
        for part in parts:
            nxt = []
            for q, vs in acc:
                if part is None:
                    nxt.append((q, vs + [None]))
                    continue
                for q2, v in self.ev(q, part):
                    nxt.append((q2, vs + [v]))
            acc = nxt
            self.budget(len(acc))
        return [(q, build(vs)) for q, vs in acc]

    def branch(self, p, test, truth):
        """Paths (continuations of p) on which `test` evaluates to `truth`; operands are evaluated in short-circuit order."""
        if isinstance(test, ast.UnaryOp) and isinstance(test.op, ast.Not):
            return self.branch(p, test.operand, not truth)
        if isinstance(test, ast.BoolOp):
            is_and = isinstance(test.op, ast.And)
            if is_and == truth:
                cur = [p]
                for v in test.values:
                    cur = [r for q in cur for r in self.branch(q, v, truth)]
                    self.budget(len(cur))
                return cur
            out = []
            cur = [p]
            for v in test.values:
                nxt = []
                for q in cur:
                    out.extend(self.branch(q.fork(), v, truth))
                    nxt.extend(self.branch(q, v, not truth))
                cur = nxt
                self.budget(len(cur) + len(out))
            return out
        if isinstance(test, ast.Compare) and len(test.ops) > 1:
            parts = []
            left = test.left
            for op, right in zip(test.ops, test.comparators):
                parts.append(ast.Compare(left=left, ops=[op], comparators=[right]))
                left = right
            return self.branch(p, ast.BoolOp(op=ast.And(), values=parts), truth)
        if isinstance(test, ast.IfExp):
            out = []
            for t2, br in ((True, test.body), (False, test.orelse)):
                for q in self.branch(p.fork(), test.test, t2):
                    out.extend(self.branch(q, br, truth))
            return out
        if isinstance(test, ast.Constant):
            return [p] if bool(test.value) == truth else []
        if isinstance(test, ast.Compare) and len(test.ops) == 1 and isinstance(test.ops[0], (ast.Is, ast.IsNot, ast.Eq, ast.NotEq)):
            out_ = []
            for q, r in self.ev(p, test):
                if isinstance(r, ast.Compare) and isinstance(r.left, ast.Constant) and isinstance(r.comparators[0], ast.Constant):
                    from .summ import dnf
                    if dnf(r, truth):
                        out_.append(q)
                else:
                    q.conds.append(atom(r, truth))
                    if consistent(q.conds):
                        out_.append(q)
            return out_
        if isinstance(test, ast.Call) and isinstance(test.func, ast.Name) and test.func.id == "isinstance" and len(test.args) == 2 \
                and isinstance(test.args[1], ast.Tuple) and len(test.args[1].elts) > 1 and not has_impure(test):
            # isinstance(x, (A, B))  ==  isinstance(x, A) or isinstance(x, B)
            alts = [ast.Call(func=test.func, args=[test.args[0], t], keywords=[]) for t in test.args[1].elts]
            return self.branch(p, ast.BoolOp(op=ast.Or(), values=alts), truth)
        out = []
        for q, r in self.ev(p, test):
            if isinstance(r, ast.Constant):
                if bool(r.value) == truth:
                    out.append(q)
                continue
            if isinstance(r, (ast.BoolOp, ast.IfExp)) or (isinstance(r, ast.UnaryOp) and isinstance(r.op, ast.Not)) or (isinstance(r, ast.Compare) and len(r.ops) > 1):
                # a temporary standing for a boolean expression: decide it operand by operand (all pure by now)
                from .summ import dnf
                for case in dnf(r, truth):
                    q2 = q.fork()
                    q2.conds.extend(case)
                    if consistent(q2.conds):
                        out.append(q2)
                continue
            q.conds.append(atom(r, truth))
            if consistent(q.conds):
                out.append(q)
        return out

    # --------------------------------------------------------------- bindings
    def bind(self, p, name, value):
        p.frozen.pop(name, None)
        if isinstance(value, IDENTITY):
            # an object with identity is a name, declared where it is first used
            p.frozen[name] = value
            p.env.pop(name, None)
            return
        p.env[name] = value

    def assign(self, p, target, value):
        if isinstance(target, ast.Name):
            self.bind(p, target.id, value)
        elif isinstance(target, (ast.Tuple, ast.List)):
            if isinstance(value, (ast.Tuple, ast.List)) and len(value.elts) == len(target.elts) and not any(isinstance(t, ast.Starred) for t in target.elts):
                vals = list(value.elts)
                if any(not isinstance(t, ast.Name) for t in target.elts):
                    # the right-hand side is evaluated completely before the first store: values that read the heap are
                    # named now, so that a store made by an earlier element cannot change what a later element means
                    for i, v in enumerate(vals):
                        if reads_heap(v):
                            p.k += 1
                            nm = "$%d" % p.k
                            p.effects.append(("let", nm, v))
                            vals[i] = ast.Name(id=nm, ctx=ast.Load())
                for t, v in zip(target.elts, vals):
                    self.assign(p, t, v)
            else:
                for i, t in enumerate(target.elts):
                    if isinstance(t, ast.Starred):
                        self.assign(p, t.value, ast.Subscript(value=value, slice=ast.Slice(lower=ast.Constant(value=i), upper=None, step=None), ctx=ast.Load()))
                    else:
                        self.assign(p, t, ast.Subscript(value=value, slice=ast.Constant(value=i), ctx=ast.Load()))
        elif isinstance(target, ast.Attribute):
            if has_impure(target.value) or has_conditional(target.value):
                raise Unsupported("effectful store target")
            (q, rv), = self.ev(p, target.value)
            p.effects.append(("store", "%s.%s" % (src(rv), target.attr), value))
            self.bump(p, attr=target.attr)
        elif isinstance(target, ast.Subscript):
            if has_impure(target) or has_conditional(target):
                raise Unsupported("effectful store target")
            (q, rv), = self.ev(p, target.value)
            (q, rs), = self.ev(p, target.slice)
            p.effects.append(("store", "%s[%s]" % (src(rv) if isinstance(rv, (ast.Name, ast.Attribute, ast.Subscript, ast.Call)) else "(%s)" % src(rv), src(rs)), value))
            self.bump(p)
        else:
            raise Unsupported("target %s" % type(target).__name__)

    # -------------------------------------------------------------- statements
    def block(self, stmts, paths):
        for st in stmts:
            if not paths:
                break
            nxt = []
            for p in paths:
                nxt.extend(self.stmt(st, p))
            paths = nxt
            self.budget(len(paths))
        return paths

    def finish(self, p, kind, value=None):
        p.result = (kind, value)
        self.done.append(p)

    def stmt(self, st, p):
        from .summ import check_deadline
        check_deadline()
        if isinstance(st, ast.Pass):
            return [p]
        if isinstance(st, ast.Expr):
            if isinstance(st.value, ast.Constant):
                return [p]
            out = []
            for q, r in self.ev(p, st.value):
                if not isinstance(r, (ast.Name, ast.Constant)):
                    q.effects.append(("expr", "", r))
                out.append(q)
            return out
        if isinstance(st, ast.Assign):
            out = []
            for q, r in self.ev(p, st.value):
                if len(st.targets) > 1 and not isinstance(r, (ast.Name, ast.Constant)):
                    # a = b = value: one value, named once
                    q.k += 1
                    nm = "$%d" % q.k
                    q.effects.append(("let", nm, r))
                    r = ast.Name(id=nm, ctx=ast.Load())
                for t in st.targets:
                    self.assign(q, t, r)
                out.append(q)
            return out
        if isinstance(st, ast.AnnAssign):
            if st.value is None:
                return [p]
            out = []
            for q, r in self.ev(p, st.value):
                self.assign(q, st.target, r)
                out.append(q)
            return out
        if isinstance(st, ast.AugAssign):
            out = []
            for q, cur in self.ev(p, _load(st.target)):
                for q2, r in self.ev(q, st.value):
                    self.assign(q2, st.target, ast.BinOp(left=cur, op=st.op, right=r))
                    out.append(q2)
            return out
        if isinstance(st, ast.Return):
            for q, r in self.ev(p, st.value):
                self.finish(q, "return", r if r is not None else ast.Constant(value=None))
            return []
        if isinstance(st, ast.Raise):
            for q, r in self.ev(p, st.exc):
                if st.cause is not None:
                    for q2, c in self.ev(q, st.cause):
                        self.finish(q2, "raise", ast.Tuple(elts=[r, c], ctx=ast.Load()))
                else:
                    self.finish(q, "raise", r)
            return []
        if isinstance(st, ast.If):
            out = []
            for truth, body in ((True, st.body), (False, st.orelse)):
                for q in self.branch(p.fork(), st.test, truth):
                    out.extend(self.block(body, [q]))
            self.budget(len(out))
            return out
        if isinstance(st, ast.Assert):
            for q in self.branch(p.fork(), st.test, False):
                self.finish(q, "raise", ast.Name(id="AssertionError", ctx=ast.Load()))
            return self.branch(p, st.test, True)
        if isinstance(st, (ast.Break, ast.Continue)):
            self.finish(p, type(st).__name__.lower())
            return []
        if isinstance(st, (ast.Global, ast.Nonlocal)):
            p.effects.append(("decl", src(st), st))
            return [p]
        if isinstance(st, (ast.FunctionDef, ast.AsyncFunctionDef, ast.ClassDef)):
            p.effects.append(("decl", ast.dump(st), st))
            p.env.pop(st.name, None)
            p.frozen.pop(st.name, None)
            return [p]
        if isinstance(st, (ast.Import, ast.ImportFrom)):
            p.effects.append(("import", src(st), st))
            for a in st.names:
                nm = (a.asname or a.name).split(".")[0]
                p.env.pop(nm, None)
                p.frozen.pop(nm, None)
            self.bump(p)
            return [p]
        if isinstance(st, ast.Delete):
            for t in st.targets:
                if isinstance(t, ast.Name):
                    p.effects.append(("del", t.id, t))
                    p.env.pop(t.id, None)
                    p.frozen.pop(t.id, None)
                else:
                    if has_impure(t):
                        raise Unsupported("effectful del target")
                    (q, r), = self.ev(p, _load(t))
                    p.effects.append(("del", src(r), t))
                    self.bump(p)
            return [p]
        if isinstance(st, (ast.With, ast.AsyncWith)):
            paths = [p]
            for it in st.items:
                nxt = []
                for q in paths:
                    for q2, r in self.ev(q, it.context_expr):
                        q2.effects.append(("with", src(r), r))
                        self.bump(q2)
                        if it.optional_vars is not None:
                            q2.k += 1
                            nm = "$%d" % q2.k
                            q2.effects.append(("enter", nm, r))
                            self.assign(q2, it.optional_vars, ast.Name(id=nm, ctx=ast.Load()))
                        nxt.append(q2)
                paths = nxt
            saved = self.done
            self.done = []
            out = self.block(st.body, paths)
            inner = self.done
            self.done = saved
            for q in out + inner:
                q.effects.append(("endwith", "", st))
                self.bump(q)
            self.done.extend(inner)
            return out
        if isinstance(st, ast.Try) or type(st).__name__ == "TryStar":
            k = self.ordinal.get(id(st), 0)
            entry = p.fork()
            if st.handlers:
                p.conds.append((Atom(("t", "try#%d raises" % k)), False))
            p.effects.append(("try", "#%d %s" % (k, "; ".join(src(h.type) if h.type is not None else "*" for h in st.handlers)), st))
            saved = self.done
            self.done = []
            body_paths = self.block(st.body, [p])
            inner = self.done
            self.done = saved
            for q in body_paths + inner:
                q.effects.append(("endtry", "#%d" % k, st))
            if st.finalbody:
                for q in inner:
                    res = q.result
                    q.result = None
                    q.effects.append(("finally", "#%d" % k, st))
                    for q2 in self.block(st.finalbody, [q]):
                        q2.result = res
                        self.done.append(q2)
            else:
                self.done.extend(inner)
            if st.orelse:
                body_paths = self.block(st.orelse, body_paths)
            out = list(body_paths)
            earlier = []
            for h in st.handlers:
                q = entry.fork()
                tname = src(h.type) if h.type is not None else "BaseException"
                q.conds.append((Atom(("t", "try#%d raises" % k)), True))
                for e_ in earlier:
                    q.conds.append((Atom(("t", "try#%d raises %s" % (k, e_))), False))
                q.conds.append((Atom(("t", "try#%d raises %s" % (k, tname))), True))
                earlier.append(tname)
                # the protected block stopped somewhere: what it assigned is unknown, the heap may have changed
                for nm in _assigned(st.body):
                    q.env.pop(nm, None)
                    q.frozen.pop(nm, None)
                self.bump(q)
                q.effects.append(("except", "#%d %s%s" % (k, tname, " as " + h.name if h.name else ""), h))
                if h.name:
                    q.env.pop(h.name, None)
                    q.frozen.pop(h.name, None)
                out.extend(self.block(h.body, [q]))
            if st.finalbody:
                for q in out:
                    q.effects.append(("finally", "#%d" % k, st))
                out = self.block(st.finalbody, out)
            return out
        if isinstance(st, (ast.For, ast.AsyncFor, ast.While)):
            return self.loop(st, p)
        raise Unsupported("statement %s" % type(st).__name__)

    @staticmethod
    def _first_use_is_load(st, nm):
        """In one iteration (header, then body in text order) is `nm` read before it is assigned?"""
        order = []
        if isinstance(st, ast.While):
            order.append(st.test)
        else:
            order.append(st.target)
        order.extend(st.body)
        for part in order:
            for x in _ordered_names(part):
                if x.id == nm:
                    return isinstance(x.ctx, ast.Load)
        return False

    def loop(self, st, p0):
        # numbered in the order the path meets them, not by their place in the text
        k = 1 + sum(1 for e_ in p0.effects if e_[0] in ("for", "while"))
        is_while = isinstance(st, ast.While)
        names = sorted(_assigned([st]))
        carried = set(nm for nm in names if self._first_use_is_load(st, nm) or nm in self.final_names or nm in self.live_after)
        flags = self.flag_names
        starts = [(p0, None)] if is_while else self.ev(p0, st.iter)
        out_all = []
        for p, it in starts:
            # entering the loop: everything it assigns is a symbol of the iteration
            pre = {}
            for nm in names:
                pre[nm] = self.value_of(p, nm)
            if is_while:
                p.effects.append(("while", "#%d" % k, st))
            else:
                p.effects.append(("for", "#%d %s" % (k, src(it)), st))
            for nm in names:
                v = pre[nm]
                if nm in carried and not (isinstance(v, ast.Name) and v.id == nm):
                    p.effects.append(("enter-loop", nm, v))       # value the first iteration starts from
                p.env[nm] = ast.Name(id="%s@loop%d" % (nm, k), ctx=ast.Load())
                p.frozen.pop(nm, None)
            self.bump(p)
            # not entered / left normally
            exits = []
            if is_while:
                if not (isinstance(st.test, ast.Constant) and st.test.value):
                    exits.extend(self.branch(p.fork(), st.test, False))
                iters = self.branch(p, st.test, True)
            else:
                z = p.fork()
                z.conds.append((Atom(("t", "loop#%d iterates" % k)), False))
                exits.append(z)
                p.conds.append((Atom(("t", "loop#%d iterates" % k)), True))
                if isinstance(st.iter, ast.Call) and isinstance(st.iter.func, ast.Name) and st.iter.func.id == "enumerate" and len(st.iter.args) == 1 \
                        and not st.iter.keywords and isinstance(st.target, ast.Tuple) and isinstance(st.target.elts[0], ast.Name):
                    p.conds.append(atom(ast.Compare(left=ast.Name(id="%s@loop%d" % (st.target.elts[0].id, k), ctx=ast.Load()), ops=[ast.Lt()], comparators=[ast.Constant(value=0)]), False))
                iters = [p]
            saved = self.done
            self.done = []
            body_out = self.block(st.body, iters)
            inner = self.done
            self.done = saved
            cont, broke = list(body_out), []
            for q in inner:
                if q.result and q.result[0] == "continue":
                    q.result = None
                    cont.append(q)
                elif q.result and q.result[0] == "break":
                    q.result = None
                    q.effects.append(("break", "#%d" % k, st))
                    broke.append(q)
                else:
                    self.done.append(q)
            for q in cont + broke:
                for nm in names:
                    if nm not in carried:
                        q.frozen.pop(nm, None)
                        continue        # redefined before it is read again: what it ends an iteration with is dead
                    v0 = q.env.get(nm)
                    if nm in flags and isinstance(v0, ast.Constant) and isinstance(v0.value, bool) and \
                            (atom(ast.Name(id="%s@loop%d" % (nm, k), ctx=ast.Load()), v0.value) in q.conds):
                        continue        # a boolean flag set to the value it already has
                    if nm in q.frozen and not isinstance(q.frozen[nm], IDENTITY):
                        q.effects.append(("carry", nm, q.frozen.pop(nm)))      # computed before the heap changed, handed on as it is
                        continue
                    v = self.value_of(q, nm)
                    if not (isinstance(v, ast.Name) and v.id == "%s@loop%d" % (nm, k)):
                        q.effects.append(("carry", nm, v))
            for q in cont + broke + exits:
                q.effects.append(("endloop", "#%d" % k, st))
                for nm in names:
                    q.env[nm] = ast.Name(id="%s@end%d" % (nm, k), ctx=ast.Load())
                    q.frozen.pop(nm, None)
                self.bump(q)
            normal = cont + exits
            if st.orelse:
                normal = self.block(st.orelse, normal)
            out_all.extend(normal + broke)
            self.budget(len(out_all))
        return out_all
