"""E4 - interval analysis (forward abstract interpretation over the CFG).

Values are `Val(base, lo, hi)`: base + [lo, hi] where base is None (plain number) or
an opaque symbolic key such as 'self._year' (symbolic-base variant).  Tuples of
values model divmod()/tuple unpacking.  TOP = Val(None, -inf, +inf).

Used only for range obligations at named sinks; "cannot prove" counts as a
violation, so every armed obligation is one the domain proves on the clean tree.
"""
import ast

from .model import src, AnalysisError, FuncInfo
from .cfg import solve, CFG

INF = float("inf")


class Val(object):
    __slots__ = ("base", "lo", "hi")

    def __init__(self, lo, hi, base=None):
        self.base = base
        self.lo = lo
        self.hi = hi

    def __eq__(self, o):
        return isinstance(o, Val) and self.base == o.base and self.lo == o.lo and self.hi == o.hi

    def __ne__(self, o):
        return not self.__eq__(o)

    def __hash__(self):
        return hash((self.base, self.lo, self.hi))

    def __repr__(self):
        def f(x):
            if x == INF:
                return "+inf"
            if x == -INF:
                return "-inf"
            return repr(int(x)) if float(x).is_integer() else repr(x)
        r = "[%s, %s]" % (f(self.lo), f(self.hi))
        return ("%s+%s" % (self.base, r)) if self.base else r

    @property
    def is_top(self):
        return self.lo == -INF and self.hi == INF

    def within(self, lo, hi, base=None):
        return self.base == base and self.lo >= lo and self.hi <= hi


TOP = Val(-INF, INF)


def const(c):
    return Val(c, c)


def join(a, b):
    if isinstance(a, tuple) or isinstance(b, tuple):
        if isinstance(a, tuple) and isinstance(b, tuple) and len(a) == len(b):
            return tuple(join(x, y) for x, y in zip(a, b))
        return TOP
    if a is None:
        return b
    if b is None:
        return a
    if a.base != b.base:
        return TOP
    return Val(min(a.lo, b.lo), max(a.hi, b.hi), a.base)


def _mul_bounds(a, b):
    cands = []
    for x in (a.lo, a.hi):
        for y in (b.lo, b.hi):
            if (x in (INF, -INF) and y == 0) or (y in (INF, -INF) and x == 0):
                cands.append(0)
            else:
                cands.append(x * y)
    return Val(min(cands), max(cands))


class Env(object):
    """Immutable-ish mapping key -> Val / tuple.  Missing key = TOP."""
    __slots__ = ("d",)

    def __init__(self, d=None):
        self.d = d or {}

    def get(self, k):
        return self.d.get(k, TOP)

    def set(self, k, v):
        d = dict(self.d)
        if isinstance(v, Val) and v.is_top and v.base is None:
            d.pop(k, None)
        else:
            d[k] = v
        return Env(d)

    def havoc_prefix(self, prefix):
        d = {k: v for k, v in self.d.items() if not (k == prefix or k.startswith(prefix + "."))}
        return Env(d)

    def __eq__(self, o):
        return isinstance(o, Env) and self.d == o.d

    def __ne__(self, o):
        return not self.__eq__(o)

    def __repr__(self):
        return "{%s}" % ", ".join("%s: %r" % kv for kv in sorted(self.d.items()))


def env_join(a, b):
    d = {}
    for k in set(a.d) & set(b.d):
        v = join(a.d[k], b.d[k])
        if not (isinstance(v, Val) and v.is_top and v.base is None):
            d[k] = v
    return Env(d)


def env_widen(old, new, node=None):
    d = {}
    for k, v in new.d.items():
        o = old.d.get(k)
        if o is None or isinstance(v, tuple) or isinstance(o, tuple):
            if o == v:
                d[k] = v
            continue
        if o.base != v.base:
            continue
        lo = v.lo if v.lo >= o.lo else -INF
        hi = v.hi if v.hi <= o.hi else INF
        if not (lo == -INF and hi == INF and v.base is None):
            d[k] = Val(lo, hi, v.base)
    return Env(d)


def key_of(e):
    """Environment key of an lvalue-like expression (Name or attribute chain), else None."""
    if isinstance(e, ast.Name):
        return e.id
    if isinstance(e, ast.Attribute):
        k = key_of(e.value)
        return k + "." + e.attr if k else None
    return None


class Interp(object):
    """Interval interpreter for one function."""

    def __init__(self, prog, func, seeds=None, summaries=None, depth=0, digits_fn=None, known_calls=None):
        self.prog = prog
        self.func = func
        self.seeds = seeds or {}
        self.summaries = summaries if summaries is not None else {}
        self.depth = depth
        self.known_calls = known_calls or {}
        self.cfg = CFG(func.node, func.qualname, peel=True)
        self.IN = self.OUT = None

    # ------------------------------------------------------------ evaluation
    def ev(self, e, env):
        m = getattr(self, "ev_" + type(e).__name__, None)
        if m is None:
            return TOP
        return m(e, env)

    def ev_Constant(self, e, env):
        v = e.value
        if isinstance(v, bool):
            return const(int(v))
        if isinstance(v, (int, float)):
            return const(v)
        return TOP

    def ev_Name(self, e, env):
        if e.id == "True":
            return const(1)
        if e.id == "False":
            return const(0)
        v = env.get(e.id)
        if v is TOP or (isinstance(v, Val) and v.is_top and e.id not in env.d):
            g = self._global_const(e.id)
            if g is not None:
                return g
        return v

    def _global_const(self, name):
        m = self.func.module
        node = m.assigns.get(name)
        if isinstance(node, ast.Constant) and isinstance(node.value, (int, float)) and not isinstance(node.value, bool):
            return const(node.value)
        return None

    def ev_Attribute(self, e, env):
        k = key_of(e)
        if k is not None:
            if k in ("datetime.MAXYEAR",):
                return const(9999)
            if k in ("datetime.MINYEAR",):
                return const(1)
            return env.get(k)
        return TOP

    def ev_UnaryOp(self, e, env):
        v = self.ev(e.operand, env)
        if isinstance(v, tuple):
            return TOP
        if isinstance(e.op, ast.USub):
            if v.base:
                return TOP
            return Val(-v.hi, -v.lo)
        if isinstance(e.op, ast.UAdd):
            return v
        if isinstance(e.op, ast.Not):
            return Val(0, 1)
        return TOP

    def ev_BinOp(self, e, env):
        a = self.ev(e.left, env)
        b = self.ev(e.right, env)
        if isinstance(a, tuple) or isinstance(b, tuple):
            return TOP
        op = e.op
        if not a.base and not b.base and a.lo == a.hi and b.lo == b.hi and a.lo not in (INF, -INF) and b.lo not in (INF, -INF):
            x, y = a.lo, b.lo
            try:
                if isinstance(op, ast.Add):
                    return const(x + y)
                if isinstance(op, ast.Sub):
                    return const(x - y)
                if isinstance(op, ast.Mult):
                    return const(x * y)
                if isinstance(op, ast.FloorDiv) and y != 0:
                    return const(x // y)
                if isinstance(op, ast.Mod) and y != 0:
                    return const(x % y)
            except Exception:
                pass
        if isinstance(op, ast.Add):
            if a.base and b.base:
                return TOP
            return Val(a.lo + b.lo, a.hi + b.hi, a.base or b.base)
        if isinstance(op, ast.Sub):
            if b.base and a.base != b.base:
                return TOP
            base = None if b.base else a.base
            return Val(a.lo - b.hi, a.hi - b.lo, base)
        if a.base or b.base:
            # e // k * k  ==  e + [-(k-1), 0]
            return TOP
        if isinstance(op, ast.Mult):
            # pattern (x // k) * k  -> x + [-(k-1), 0]
            for l, r in ((e.left, e.right), (e.right, e.left)):
                if isinstance(l, ast.BinOp) and isinstance(l.op, ast.FloorDiv) and isinstance(r, ast.Constant) \
                        and isinstance(l.right, ast.Constant) and l.right.value == r.value and isinstance(r.value, int) and r.value > 0:
                    x = self.ev(l.left, env)
                    if isinstance(x, Val):
                        return Val(x.lo - (r.value - 1), x.hi, x.base)
            for l, r in ((e.left, e.right), (e.right, e.left)):
                if isinstance(l, ast.BinOp) and isinstance(l.op, ast.FloorDiv) and src(l.right) == src(r):
                    x = self.ev(l.left, env)
                    d = self.ev(r, env)
                    if isinstance(x, Val) and isinstance(d, Val) and not x.base and not d.base and x.lo >= 0 and d.lo >= 1:
                        return Val(0, x.hi)     # (x // d) * d is in [0, x] for x >= 0, d >= 1
            return _mul_bounds(a, b)
        if isinstance(op, ast.FloorDiv):
            if b.lo == b.hi and b.lo > 0:
                k = b.lo
                lo = a.lo // k if a.lo not in (INF, -INF) else a.lo
                hi = a.hi // k if a.hi not in (INF, -INF) else a.hi
                return Val(lo, hi)
            if b.lo > 0 and a.lo >= 0:
                hi = a.hi // b.lo if a.hi != INF else INF
                lo = a.lo // b.hi if (b.hi != INF and a.lo != INF) else 0
                return Val(lo, hi)
            return TOP
        if isinstance(op, ast.Mod):
            if b.lo > 0 and b.hi != INF:
                if a.lo >= 0 and a.hi < b.lo:
                    return a
                return Val(0, b.hi - 1)
            return TOP
        if isinstance(op, ast.Div):
            if b.lo == b.hi and b.lo > 0:
                return Val(a.lo / b.lo, a.hi / b.lo)
            return TOP
        if isinstance(op, ast.Pow):
            if a.lo == a.hi and b.lo == b.hi and 0 <= b.lo <= 64 and abs(a.lo) <= 1000:
                return const(a.lo ** b.lo)
            if a.lo == a.hi and a.lo > 0 and b.lo >= 0 and b.hi <= 64:
                return Val(a.lo ** b.lo, a.lo ** b.hi)
            return TOP
        return TOP

    def ev_Compare(self, e, env):
        return Val(0, 1)

    def ev_BoolOp(self, e, env):
        out = None
        is_or = isinstance(e.op, ast.Or)
        for i, v in enumerate(e.values):
            x = self.ev(v, env)
            last = i == len(e.values) - 1
            if isinstance(x, Val) and not x.base and not last and (key_of(v) is None or key_of(v) in env.d or isinstance(v, ast.Constant)):
                truthy = x.lo > 0 or x.hi < 0
                falsy = x.lo == 0 and x.hi == 0
                if is_or and falsy:
                    continue            # `0 or b` -> b
                if is_or and truthy:
                    out = x if out is None else join(out, x)
                    return out          # `a or b` with a != 0 -> a
                if (not is_or) and truthy:
                    continue            # `a and b` with a != 0 -> b
                if (not is_or) and falsy:
                    out = x if out is None else join(out, x)
                    return out
            if isinstance(x, Val) and not x.base and not last and is_or and not x.is_top:
                # `a or b`: a contributes only its non-zero values
                lo, hi = x.lo, x.hi
                if lo == 0:
                    lo = 1
                if hi == 0:
                    hi = -1
                if lo > hi:
                    continue
                x = Val(lo, hi)
            out = x if out is None else join(out, x)
        return out if out is not None else TOP

    def ev_IfExp(self, e, env):
        t_env = self.assume(e.test, True, env)
        f_env = self.assume(e.test, False, env)
        out = None
        if t_env is not None:
            out = self.ev(e.body, t_env)
        if f_env is not None:
            v = self.ev(e.orelse, f_env)
            out = v if out is None else join(out, v)
        return out if out is not None else TOP

    def ev_Tuple(self, e, env):
        return tuple(self.ev(x, env) for x in e.elts)

    ev_List = ev_Tuple

    def ev_Subscript(self, e, env):
        v = self.ev(e.value, env)
        if isinstance(v, tuple) and isinstance(e.slice, ast.Constant) and isinstance(e.slice.value, int):
            i = e.slice.value
            if -len(v) <= i < len(v):
                return v[i]
        if isinstance(e.value, ast.Call) and src(e.value.func).endswith(".isocalendar") and isinstance(e.slice, ast.Constant):
            return {1: Val(1, 53), 2: Val(1, 7)}.get(e.slice.value, TOP)
        # calendar.monthrange(y, m)[1]
        if isinstance(e.value, ast.Call) and src(e.value.func).endswith("monthrange") \
                and isinstance(e.slice, ast.Constant) and e.slice.value == 1:
            return Val(28, 31)
        return TOP

    def ev_Call(self, e, env):
        fn = src(e.func)
        args = [self.ev(a, env) for a in e.args]
        a0 = args[0] if args else None
        if fn in self.known_calls:
            return self.known_calls[fn](self, e, args, env)
        if fn == "abs" and isinstance(a0, Val) and not a0.base:
            if a0.lo >= 0:
                return a0
            if a0.hi <= 0:
                return Val(-a0.hi, -a0.lo)
            return Val(0, max(-a0.lo, a0.hi))
        if fn in ("int", "round", "float") and isinstance(a0, Val):
            if fn == "int" and not a0.base and a0.lo not in (INF, -INF) and a0.hi not in (INF, -INF):
                import math
                return Val(math.trunc(a0.lo) if a0.lo >= 0 else -math.floor(-a0.lo) if False else int(a0.lo), int(a0.hi))
            return a0
        if fn == "len":
            return Val(0, INF)
        if fn == "divmod" and len(args) == 2 and isinstance(args[0], Val) and isinstance(args[1], Val):
            a, b = args
            if not a.base and not b.base and a.lo == a.hi and b.lo == b.hi and b.lo != 0 and a.lo not in (INF, -INF):
                q, r = divmod(a.lo, b.lo)
                return (const(q), const(r))
            if not a.base and not b.base and b.lo > 0 and b.hi != INF:
                if b.lo == b.hi:
                    k = b.lo
                    lo = a.lo // k if a.lo not in (INF, -INF) else a.lo
                    hi = a.hi // k if a.hi not in (INF, -INF) else a.hi
                    q = Val(lo, hi)
                else:
                    q = TOP
                return (q, Val(0, b.hi - 1))
            return (TOP, TOP)
        if fn in ("min", "max") and args and all(isinstance(a, Val) and not a.base for a in args) and len(args) >= 2:
            if fn == "min":
                return Val(min(a.lo for a in args), min(a.hi for a in args))
            return Val(max(a.lo for a in args), max(a.hi for a in args))
        if fn in ("copysign", "math.copysign") and len(args) == 2 and isinstance(a0, Val) and not a0.base:
            m = max(abs(a0.lo), abs(a0.hi))
            return Val(-m, m)
        if fn in ("gcd", "math.gcd") and len(args) == 2 and all(isinstance(a, Val) and not a.base for a in args):
            pos = [a for a in args if a.lo >= 1]
            if pos:
                return Val(1, min(a.hi for a in pos))
            return Val(0, INF)
        if fn in ("calendar.isleap", "isleap", "bool"):
            return Val(0, 1)
        if fn in ("calendar.firstweekday",):
            return Val(0, 6)
        if fn.endswith(".weekday") and not e.args:
            return Val(0, 6)
        if fn.endswith(".isoweekday") and not e.args:
            return Val(1, 7)
        if fn.endswith(".toordinal") and not e.args:
            return Val(1, 3652059)
        # in-package callee summary
        callee = self._resolve(e)
        if callee is not None and self.depth < 3:
            return self._summary(callee, e, args, env)
        return TOP

    def _resolve(self, call):
        f = call.func
        if isinstance(f, ast.Name):
            r = self.prog.resolve_dotted(f.id, self.func.module, self.func.cls, self.func)
            return r if isinstance(r, FuncInfo) else None
        if isinstance(f, ast.Attribute) and isinstance(f.value, ast.Name) and f.value.id in ("self", "cls") \
                and self.func.cls is not None:
            from .model import mangle
            r = self.prog.class_lookup(self.func.cls, mangle(self.func.cls.name, f.attr))
            if r is None:
                r = self.prog.class_lookup(self.func.cls, f.attr)
            if r and isinstance(r[0], FuncInfo):
                return r[0]
        if isinstance(f, ast.Attribute):
            r = self.prog.resolve_dotted(src(f), self.func.module, self.func.cls, self.func)
            return r if isinstance(r, FuncInfo) else None
        return None

    def _summary(self, callee, call, args, env):
        params = callee.positional_params
        if callee.cls is not None and params and params[0] in ("self", "cls"):
            params = params[1:]
        seeds = {}
        for p, a in zip(params, args):
            if isinstance(a, Val):
                seeds[p] = a
        for kw in call.keywords:
            if kw.arg:
                v = self.ev(kw.value, env)
                if isinstance(v, Val):
                    seeds[kw.arg] = v
        key = (callee.qualname, tuple(sorted((k, v.base, v.lo, v.hi) for k, v in seeds.items())))
        if key in self.summaries:
            return self.summaries[key]
        self.summaries[key] = TOP       # recursion guard
        sub = Interp(self.prog, callee, seeds=seeds, summaries=self.summaries, depth=self.depth + 1,
                     known_calls=self.known_calls)
        sub.run()
        out = sub.return_value()
        self.summaries[key] = out
        return out

    # ------------------------------------------------------------ refinement
    def assume(self, cond, truth, env):
        """Environment refined by `cond` being `truth`, or None if infeasible."""
        if isinstance(cond, ast.UnaryOp) and isinstance(cond.op, ast.Not):
            return self.assume(cond.operand, not truth, env)
        if isinstance(cond, ast.BoolOp):
            is_and = isinstance(cond.op, ast.And)
            if is_and == truth:
                # all must be `truth`
                for v in cond.values:
                    env = self.assume(v, truth, env)
                    if env is None:
                        return None
                return env
            # at least one is `truth`: join over the first-k-fail decomposition
            out = None
            cur = env
            for v in cond.values:
                if cur is None:
                    break
                e1 = self.assume(v, truth, cur)
                if e1 is not None:
                    out = e1 if out is None else env_join(out, e1)
                cur = self.assume(v, not truth, cur)
            return out
        if isinstance(cond, ast.Compare):
            left = cond.left
            if truth:
                for op, right in zip(cond.ops, cond.comparators):
                    env = self._assume_cmp(left, op, right, True, env)
                    if env is None:
                        return None
                    left = right
                return env
            if len(cond.ops) == 1:
                return self._assume_cmp(cond.left, cond.ops[0], cond.comparators[0], False, env)
            # not (a < b < c): a >= b or b >= c
            out = None
            cur = env
            left = cond.left
            for op, right in zip(cond.ops, cond.comparators):
                if cur is None:
                    break
                e1 = self._assume_cmp(left, op, right, False, cur)
                if e1 is not None:
                    out = e1 if out is None else env_join(out, e1)
                cur = self._assume_cmp(left, op, right, True, cur)
                left = right
            return out
        if isinstance(cond, ast.Constant):
            return env if bool(cond.value) == truth else None
        # truthiness of a numeric key
        k = key_of(cond)
        if k is not None:
            v = env.get(k)
            if isinstance(v, Val) and not v.base and k in env.d:
                if truth:
                    if v.lo == 0 and v.hi == 0:
                        return None
                    if v.lo == 0:
                        return env.set(k, Val(1, v.hi))
                    if v.hi == 0:
                        return env.set(k, Val(v.lo, -1))
                else:
                    if v.lo > 0 or v.hi < 0:
                        return None
                    return env.set(k, Val(0, 0))
        return env

    NEG = {ast.Lt: ast.GtE, ast.LtE: ast.Gt, ast.Gt: ast.LtE, ast.GtE: ast.Lt, ast.Eq: ast.NotEq, ast.NotEq: ast.Eq,
           ast.In: ast.NotIn, ast.NotIn: ast.In, ast.Is: ast.IsNot, ast.IsNot: ast.Is}
    FLIP = {ast.Lt: ast.Gt, ast.LtE: ast.GtE, ast.Gt: ast.Lt, ast.GtE: ast.LtE, ast.Eq: ast.Eq, ast.NotEq: ast.NotEq}

    def _assume_cmp(self, left, op, right, truth, env):
        opt = type(op)
        if not truth:
            opt = self.NEG.get(opt)
            if opt is None:
                return env
        if opt in (ast.In, ast.NotIn):
            if opt is ast.In and isinstance(right, (ast.Tuple, ast.List, ast.Set)):
                vals = [self.ev(x, env) for x in right.elts]
                if vals and all(isinstance(v, Val) and not v.base and not v.is_top for v in vals):
                    hull = Val(min(v.lo for v in vals), max(v.hi for v in vals))
                    return self._refine(left, ast.GtE, Val(hull.lo, hull.lo), self._refine_env(left, ast.LtE, Val(hull.hi, hull.hi), env))
            return env
        if opt in (ast.Is, ast.IsNot):
            return env
        lv = self.ev(left, env)
        rv = self.ev(right, env)
        if isinstance(lv, tuple) or isinstance(rv, tuple):
            return env
        # infeasibility
        if lv.base == rv.base:
            if opt is ast.Lt and lv.lo >= rv.hi:
                return None
            if opt is ast.LtE and lv.lo > rv.hi:
                return None
            if opt is ast.Gt and lv.hi <= rv.lo:
                return None
            if opt is ast.GtE and lv.hi < rv.lo:
                return None
            if opt is ast.Eq and (lv.lo > rv.hi or lv.hi < rv.lo):
                return None
            if opt is ast.NotEq and lv.lo == lv.hi == rv.lo == rv.hi:
                return None
        env = self._refine_env(left, opt, rv, env)
        if env is None:
            return None
        env = self._refine_env(right, self.FLIP[opt], lv, env)
        return env

    def _refine(self, e, opt, other, env):
        if env is None:
            return None
        return self._refine_env(e, opt, other, env)

    def _refine_env(self, e, opt, other, env):
        """Refine the variable(s) inside `e` knowing  e <opt> other."""
        if env is None:
            return None
        k = key_of(e)
        if k is not None:
            cur = env.get(k)
            if isinstance(cur, tuple):
                return env
            if cur.base != other.base:
                if cur.is_top and other.base is not None and k not in env.d:
                    cur = Val(-INF, INF, other.base)
                else:
                    return env
            lo, hi = cur.lo, cur.hi
            if opt is ast.Lt:
                hi = min(hi, other.hi - 1) if other.hi != INF else hi
            elif opt is ast.LtE:
                hi = min(hi, other.hi)
            elif opt is ast.Gt:
                lo = max(lo, other.lo + 1) if other.lo != -INF else lo
            elif opt is ast.GtE:
                lo = max(lo, other.lo)
            elif opt is ast.Eq:
                lo, hi = max(lo, other.lo), min(hi, other.hi)
            elif opt is ast.NotEq:
                if other.lo == other.hi:
                    if lo == other.lo:
                        lo += 1
                    if hi == other.lo:
                        hi -= 1
            if lo > hi:
                return None
            return env.set(k, Val(lo, hi, cur.base))
        # abs(x) <= c  /  abs(x) < c
        if isinstance(e, ast.Call) and src(e.func) == "abs" and len(e.args) == 1 and not other.base:
            k = key_of(e.args[0])
            if k is not None:
                cur = env.get(k)
                if isinstance(cur, Val) and not cur.base:
                    if opt in (ast.LtE, ast.Lt):
                        b = other.hi if opt is ast.LtE else other.hi - 1
                        lo, hi = max(cur.lo, -b), min(cur.hi, b)
                        if lo > hi:
                            return None
                        return env.set(k, Val(lo, hi))
            return env
        # x + c <op> other, x - c <op> other
        if isinstance(e, ast.BinOp) and isinstance(e.op, (ast.Add, ast.Sub)):
            cv = self.ev(e.right, env)
            if isinstance(cv, Val) and cv.lo == cv.hi and not cv.base and key_of(e.left) is not None:
                c = cv.lo if isinstance(e.op, ast.Add) else -cv.lo
                if other.lo not in (INF, -INF) or other.hi not in (INF, -INF):
                    return self._refine_env(e.left, opt, Val(other.lo - c, other.hi - c, other.base), env)
        return env

    # --------------------------------------------------------------- transfer
    def assign(self, target, value, env):
        if isinstance(target, (ast.Tuple, ast.List)):
            if isinstance(value, tuple) and len(value) == len(target.elts):
                for t, v in zip(target.elts, value):
                    env = self.assign(t, v, env)
            else:
                for t in target.elts:
                    env = self.assign(t, TOP, env)
            return env
        if isinstance(target, ast.Starred):
            return self.assign(target.value, TOP, env)
        k = key_of(target)
        if k is None:
            return env
        env = env.havoc_prefix(k)
        return env.set(k, value)

    def transfer(self, n, env):
        a = n.ast
        if n.kind == "for":
            it = a.iter
            v = TOP
            if isinstance(it, ast.Call) and src(it.func) == "range":
                args = [self.ev(x, env) for x in it.args]
                if all(isinstance(x, Val) and not x.base for x in args):
                    if len(args) == 1:
                        v = Val(0, args[0].hi - 1)
                    elif len(args) >= 2:
                        v = Val(args[0].lo, args[1].hi - 1)
            elif isinstance(it, (ast.Tuple, ast.List)) and it.elts:
                vals = [self.ev(x, env) for x in it.elts]
                out = None
                for x in vals:
                    out = x if out is None else join(out, x)
                v = out
            return self.assign(a.target, v, env)
        if n.kind == "with_enter":
            for it in a.items:
                if it.optional_vars is not None:
                    env = self.assign(it.optional_vars, TOP, env)
            return env
        if n.kind == "handler":
            if a.name:
                env = env.set(a.name, TOP)
            return env
        if n.kind != "stmt" or a is None:
            return env
        if isinstance(a, ast.Assign):
            v = self.ev(a.value, env)
            env = self._call_effects(a.value, env)
            for t in a.targets:
                env = self.assign(t, v, env)
            return env
        if isinstance(a, ast.AugAssign):
            v = self.ev(ast.BinOp(left=a.target, op=a.op, right=a.value), env)
            env = self._call_effects(a.value, env)
            return self.assign(a.target, v, env)
        if isinstance(a, ast.AnnAssign) and a.value is not None:
            return self.assign(a.target, self.ev(a.value, env), env)
        if isinstance(a, (ast.Expr, ast.Return)) and a.value is not None:
            return self._call_effects(a.value, env)
        if isinstance(a, ast.Delete):
            for t in a.targets:
                k = key_of(t)
                if k:
                    env = env.havoc_prefix(k)
            return env
        return env

    def _call_effects(self, e, env):
        """A method call on `self` (or passing an object) may rebind that object's attributes."""
        for x in ast.walk(e):
            if isinstance(x, ast.Call):
                f = x.func
                if isinstance(f, ast.Attribute):
                    root = key_of(f.value)
                    if root is not None and (root in ("self", "cls") or root in env.d or any(k.startswith(root + ".") for k in env.d)):
                        fn = src(f)
                        if not fn.endswith((".weekday", ".toordinal", ".get", ".isocalendar", ".timetuple")):
                            env = env.havoc_prefix(root) if root not in env.d else env
                            # keep the root binding itself (an int cannot be mutated), drop its attributes
                            d = {k: v for k, v in env.d.items() if not k.startswith(root + ".")}
                            env = Env(d)
        return env

    def edge(self, n, lab, env, env_in):
        if n.kind == "branch" and lab in ("true", "false"):
            return self.assume(n.ast, lab == "true", env)
        if n.kind == "for" and lab == "exhaust" and n.exc:
            # peeled first-iteration head: the zero-iteration exit is infeasible when the iterable is provably non-empty
            it = n.ast.iter
            if isinstance(it, ast.Call) and src(it.func) == "range":
                args = [self.ev(x, env_in) for x in it.args]
                if all(isinstance(x, Val) and not x.base for x in args):
                    if len(args) == 1 and args[0].lo >= 1:
                        return None
                    if len(args) >= 2 and args[1].lo - args[0].hi >= 1:
                        return None
            if isinstance(it, (ast.Tuple, ast.List)) and it.elts:
                return None
        return env

    def run(self):
        init = Env(dict(self.seeds))
        self.IN, self.OUT = solve(self.cfg, init, self.transfer, edge=self.edge, join=env_join,
                                  exc_state=lambda n, a, b: env_join(a, b), widen=env_widen)
        return self

    # ------------------------------------------------------------- queries
    def return_value(self):
        out = None
        for n in self.cfg.live_nodes():
            if n.kind == "stmt" and isinstance(n.ast, ast.Return) and n.id in self.IN:
                v = self.ev(n.ast.value, self.IN[n.id]) if n.ast.value is not None else TOP
                out = v if out is None else join(out, v)
        return out if out is not None else TOP

    def value_at(self, node, expr):
        """Interval of `expr` just before CFG node `node` executes (None if node unreachable)."""
        if node.id not in self.IN:
            return None
        return self.ev(expr, self.IN[node.id])

    def env_at_exit(self):
        return self.IN.get(self.cfg.exit.id)

    def find_nodes(self, pred):
        return [n for n in self.cfg.live_nodes() if n.id in self.IN and pred(n)]
