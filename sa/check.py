#!/venv/bin/python
"""CLI:  sa/check.py Cxx [--tier quick|thorough]   |   sa/check.py --replay <file>

Exit 0: every obligation holds on /repo's current working tree (KNOWN-FINDING lines
        may be printed for listed findings).
Exit 1: at least one unlisted violation (VIOLATION line printed).
Exit 2: ANALYSIS-ERROR - anchor vanished, idiom not modelled, instance floor not
        met, checker crashed.  Never a silent pass.
"""
import importlib
import json
import os
import sys
import time
import traceback

sys.path.insert(0, os.path.dirname(os.path.dirname(os.path.abspath(__file__))))

from sa.model import AnalysisError, Program  # noqa: E402
from sa import core  # noqa: E402


def run_property(prop, tier, prog=None, write=True):
    t0 = time.time()
    mod = importlib.import_module("sa.props.%s" % prop.lower())
    ctx = core.Ctx(prop, tier, prog or Program())
    try:
        mod.run(ctx)
    except AnalysisError as e:
        # A rule could not find the construct it reasons about.  On code that is the confirmed baseline (or proven
        # equivalent to it) that means the checker is broken: exit 2.  On code that was changed and is NOT proven to
        # behave as before, the obligation simply cannot be discharged any more - that is an alarm, not a tool failure.
        changed = changed_unproven(ctx.prog)
        hit = [q for q in changed if e.site and (str(e.site).startswith(q) or q.startswith(str(e.site)) or str(e.site).split(".")[-1] == q.split(".")[-1])]
        if not hit and e.site and str(e.site) in removed_since_baseline(ctx.prog):
            # the confirmed tree had this function and the rule is about it: its removal is a change to what was confirmed
            ctx.ob(e.rule or prop, str(e.site), "the function this rule reasons about still exists (it was part of the confirmed tree)", False,
                   construct="anchor: %s was removed" % str(e.site).split("dateutil.")[-1], detail="%s: %s" % (e.site, e.reason),
                   analysis="anchor lookup against the confirmed symbol table")
            hit = [str(e.site)]
            e = None
        if not hit and "instance floor" in str(e.reason) and changed:
            hit = sorted(changed)
        if not hit:
            raise
        f = ctx.prog.functions.get(hit[0])
        if e is not None:
            ctx.ob(e.rule or prop, f if f is not None else hit[0],
                   "the construct this rule reasons about is still there (the function was changed and is not proven equivalent to its confirmed version)",
                   False, construct="anchor: %s" % e.reason, detail="%s: %s; changed, unproven: %s" % (e.site, e.reason, ", ".join(q.split("dateutil.")[-1] for q in hit[:3])),
                   analysis="anchor lookup on a changed function + equivalence prover verdict")
    extra = None
    fails = []
    if tier == "thorough" and write:
        from sa import selftest
        extra, fails = selftest.thorough(ctx)
        if hasattr(mod, "thorough"):
            extra.update(mod.thorough(ctx) or {})
    if not write:
        return ctx
    seed = int(os.environ.get("VERIF_SEED", "0") or 0)
    rc = core.finish(ctx, mod.CLAIM, mod.EXPLANATION, mod.ASSUMPTIONS, t0, extra=extra, seed=seed)
    if extra and "self_validation" in extra:
        sv = extra["self_validation"]
        print("self-validation: %d variants, %d applied, breaking detected %d, missed %d, benign silent %d, false alarms %d, skipped %d" % (
            sv["variants_total"], sv["variants_applied"], sv["breaking_detected"], len(sv["breaking_missed"]), sv["benign_silent"],
            len(sv["benign_false_alarm"]), len(sv["skipped"])))
    if rc == 0 and fails:
        for f_ in fails:
            print("ANALYSIS-ERROR property=%s self-validation: %s" % (prop, f_))
        return 2
    return rc


def removed_since_baseline(prog):
    """Qualified names of top-level functions / methods of the confirmed tree that the current tree no longer defines."""
    import json
    here = os.path.dirname(os.path.abspath(__file__))
    try:
        with open(os.path.join(here, "baseline_src.json")) as fh:
            base = json.load(fh)
    except (IOError, OSError, ValueError):
        return set()
    have = set(prog.functions)
    return set(q for funcs in base.values() if isinstance(funcs, dict) for q in funcs if q not in have)


def changed_unproven(prog):
    """Qualified names of functions whose source differs from the confirmed baseline and which the prover did not
    show equivalent to it (sa/equiv.py)."""
    return set(q for k, q, _ in getattr(prog, "canon_log", []) if k in ("E-no", "E~"))


def main(argv):
    if len(argv) >= 2 and argv[0] == "--replay":
        with open(argv[1]) as fh:
            r = json.load(fh)
        print(json.dumps(r, indent=1))
        prop = r["property"]
        ctx = run_property(prop, "quick", write=False)
        hit = [o for o in ctx.obs if o.rule == r["rule"] and o.qualname == r["qualname"]
               and o.construct == r["construct"]]
        for o in hit:
            print("re-evaluated: %s -> %s %s" % (o.site, "holds" if o.ok else "VIOLATED", o.detail))
        if not hit:
            print("construct no longer present in /repo")
        return 1 if any(not o.ok for o in hit) else 0
    if not argv:
        print(__doc__)
        return 2
    prop = argv[0].upper()
    tier = os.environ.get("VERIF_TIER", "quick")
    if "--tier" in argv:
        tier = argv[argv.index("--tier") + 1]
    if tier not in ("quick", "thorough"):
        tier = "quick"
    try:
        return run_property(prop, tier)
    except AnalysisError as e:
        print("ANALYSIS-ERROR property=%s %s" % (prop, e))
        return 2
    except Exception:
        traceback.print_exc()
        print("ANALYSIS-ERROR property=%s checker crashed (see traceback above)" % prop)
        return 2


if __name__ == "__main__":
    rc = main(sys.argv[1:])
    sys.stdout.flush()
    sys.exit(rc)
