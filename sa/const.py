"""E5 - constant folding of module/class level initialisers.

Only literal operations are interpreted: constants, list/tuple displays, + and * on
sequences and ints, list()/tuple()/range(), slicing/indexing, names bound earlier,
tuple unpacking and `del name[i]`.  No repository function is ever called.
"""
import ast

from .model import src


class NotConstant(Exception):
    pass


def fold(e, env):
    if isinstance(e, ast.Constant):
        return e.value
    if isinstance(e, ast.Name):
        if e.id in env:
            return env[e.id]
        raise NotConstant(e.id)
    if isinstance(e, ast.List):
        return [fold(x, env) for x in e.elts]
    if isinstance(e, ast.Tuple):
        return tuple(fold(x, env) for x in e.elts)
    if isinstance(e, ast.Dict):
        return {fold(k, env): fold(v, env) for k, v in zip(e.keys, e.values)}
    if isinstance(e, ast.UnaryOp) and isinstance(e.op, ast.USub):
        return -fold(e.operand, env)
    if isinstance(e, ast.BinOp):
        a, b = fold(e.left, env), fold(e.right, env)
        if isinstance(e.op, ast.Add):
            return a + b
        if isinstance(e.op, ast.Mult):
            return a * b
        if isinstance(e.op, ast.Sub):
            return a - b
        raise NotConstant(src(e))
    if isinstance(e, ast.Subscript):
        v = fold(e.value, env)
        s = e.slice
        if isinstance(s, ast.Slice):
            lo = fold(s.lower, env) if s.lower is not None else None
            hi = fold(s.upper, env) if s.upper is not None else None
            st = fold(s.step, env) if s.step is not None else None
            return v[lo:hi:st]
        return v[fold(s, env)]
    if isinstance(e, ast.Call):
        fn = src(e.func)
        args = [fold(a, env) for a in e.args]
        if fn == "list":
            return list(*args)
        if fn == "tuple":
            return tuple(*args)
        if fn == "range":
            return range(*args)
        if fn == "len":
            return len(*args)
        raise NotConstant(fn)
    raise NotConstant(type(e).__name__)


def fold_module(module):
    """Interpret the module-level assignment sequence; returns {name: value} for what folded."""
    env = {}
    skipped = {}
    for st in module.assign_nodes:
        try:
            if isinstance(st, ast.Assign):
                v = fold(st.value, env)
                for t in st.targets:
                    _bind(t, v, env)
            elif isinstance(st, ast.Delete):
                for t in st.targets:
                    if isinstance(t, ast.Name):
                        env.pop(t.id, None)
                    elif isinstance(t, ast.Subscript) and isinstance(t.value, ast.Name):
                        del env[t.value.id][fold(t.slice, env)]
                    else:
                        raise NotConstant(src(t))
        except NotConstant as ex:
            for t in getattr(st, "targets", []):
                for n in ast.walk(t):
                    if isinstance(n, ast.Name):
                        skipped[n.id] = str(ex)
                        env.pop(n.id, None)
        except Exception as ex:      # IndexError etc. while folding = not constant-foldable
            for t in getattr(st, "targets", []):
                for n in ast.walk(t):
                    if isinstance(n, ast.Name):
                        skipped[n.id] = repr(ex)
                        env.pop(n.id, None)
    return env, skipped


def _bind(t, v, env):
    if isinstance(t, ast.Name):
        env[t.id] = v
    elif isinstance(t, (ast.Tuple, ast.List)):
        vals = list(v)
        if len(vals) != len(t.elts):
            raise NotConstant("unpack arity")
        for tt, vv in zip(t.elts, vals):
            _bind(tt, vv, env)
    else:
        raise NotConstant(src(t))
