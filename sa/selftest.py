"""Thorough tier: self-validation battery + whole-package sweeps.

Every variant is an edit of a scratch copy of /repo's CURRENT sources (mkdtemp outside /repo and /verif, removed in
`finally`).  Nothing in a copy is ever imported or executed - it is only re-analysed by the same rules.
"""
import importlib
import json
import os
import shutil
import subprocess
import sys
import tempfile
import traceback
from concurrent.futures import ProcessPoolExecutor

from .model import Program, AnalysisError, PKG_DIR, REPO
from . import core
from .variants import VARIANTS

VERIF = core.VERIF


def _scratch():
    tmp = tempfile.mkdtemp(prefix="sa_selftest_")
    shutil.copytree(os.path.join(REPO, "src"), os.path.join(tmp, "src"))
    return tmp


def _violations(prop, tmp):
    mod = importlib.import_module("sa.props.%s" % prop.lower())
    prog = Program(pkg_dir=os.path.join(tmp, "src", "dateutil"))
    ctx = core.Ctx(prop, "quick", prog)
    mod.run(ctx)
    known = core.load_known()
    return sorted(set(o.rule for o in ctx.obs if not o.ok and not core.match_known(prop, o, known)))


def eval_variant(args):
    prop, v = args
    tmp = _scratch()
    out = {"id": v["id"], "kind": v["kind"], "expect": v.get("expect", []), "status": None, "rules": []}
    try:
        if "patch" in v:
            r = subprocess.run(["patch", "-p1", "-s", "-d", tmp, "-i", v["patch"]], capture_output=True, text=True)
            if r.returncode != 0:
                out["status"] = "skipped"
                out["why"] = "patch does not apply to the current tree"
                return out
        else:
            path = os.path.join(tmp, v["file"])
            with open(path) as fh:
                text = fh.read()
            for old, new in v["edits"]:
                if text.count(old) != 1:
                    out["status"] = "skipped"
                    out["why"] = "anchor text found %d times" % text.count(old)
                    return out
                text = text.replace(old, new)
            try:
                compile(text, path, "exec")
            except SyntaxError as e:
                out["status"] = "skipped"
                out["why"] = "variant does not compile: %s" % e
                return out
            with open(path, "w") as fh:
                fh.write(text)
        try:
            rules = _violations(prop, tmp)
            out["rules"] = rules
            if v["kind"] == "break":
                exp = set(v.get("expect") or [])
                own = [r for r in rules if r.startswith(prop + ".")]
                if (exp and exp & set(rules)) or (not exp and own):
                    out["status"] = "detected"
                elif rules:
                    out["status"] = "detected-other-rule"
                else:
                    out["status"] = "MISSED"
            else:
                out["status"] = "silent" if not rules else "FALSE-ALARM"
        except AnalysisError as e:
            out["status"] = "analysis-error" if v["kind"] == "break" else "FALSE-ERROR"
            out["why"] = str(e)
    except Exception:
        out["status"] = "crash"
        out["why"] = traceback.format_exc()[-400:]
    finally:
        shutil.rmtree(tmp, ignore_errors=True)
    return out


def battery(prop, jobs=None):
    jobs = jobs or min(16, (os.cpu_count() or 4))
    todo = [(prop, v) for v in VARIANTS if prop in v["props"]]
    res_file = os.path.join(VERIF, "seeded", "RESULTS.json")
    if os.path.exists(res_file):
        with open(res_file) as fh:
            seeded = json.load(fh).get("results", [])
        for s in seeded:
            if prop in s.get("fired", []):
                pth = os.path.join(VERIF, "seeded", s["id"], "patch.diff")
                if os.path.exists(pth):
                    todo.append((prop, {"id": "seeded:" + s["id"], "props": [prop], "kind": "break", "patch": pth,
                                        "expect": [r for r in s.get("rules", []) if r.startswith(prop + ".")]}))
    ben_file = os.path.join(VERIF, "seeded", "BENIGN.json")
    if os.path.exists(ben_file):
        with open(ben_file) as fh:
            for b in json.load(fh).get("refactorings", []):
                pth = os.path.join(VERIF, "seeded", "benign", b["id"], "patch.diff")
                if os.path.exists(pth):
                    todo.append((prop, {"id": "benign:" + b["id"], "props": [prop], "kind": "benign", "patch": pth, "expect": []}))
    results = []
    if todo:
        with ProcessPoolExecutor(max_workers=jobs) as ex:
            results = list(ex.map(eval_variant, todo))
    summary = {
        "variants_total": len(results),
        "variants_applied": sum(1 for r in results if r["status"] != "skipped"),
        "breaking_detected": sum(1 for r in results if r["status"] in ("detected", "detected-other-rule", "analysis-error")),
        "breaking_missed": [r["id"] for r in results if r["status"] == "MISSED"],
        "benign_silent": sum(1 for r in results if r["status"] == "silent"),
        "benign_false_alarm": [r["id"] + ":" + ",".join(r["rules"]) for r in results if r["status"] in ("FALSE-ALARM", "FALSE-ERROR")],
        "skipped": [r["id"] + " (" + r.get("why", "") + ")" for r in results if r["status"] == "skipped"],
        "crashed": [r["id"] for r in results if r["status"] == "crash"],
        "details": [{k: r[k] for k in ("id", "kind", "status", "rules")} for r in results],
    }
    return summary


def thorough(ctx):
    """Extra coverage for the thorough tier; returns (extra evidence dict, list of self-validation failures)."""
    from . import sweep
    extra = {}
    sweep.run(ctx)
    s = battery(ctx.prop)
    extra["self_validation"] = s
    fails = ["breaking variant not detected: " + x for x in s["breaking_missed"]] + \
            ["benign variant raised an alarm: " + x for x in s["benign_false_alarm"]] + ["variant crashed: " + x for x in s["crashed"]]
    return extra, fails
