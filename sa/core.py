"""Rule registry, obligations, findings, known-findings matching and evidence."""
import json
import os
import time

from .model import AnalysisError, program, src

VERIF = os.path.dirname(os.path.dirname(os.path.abspath(__file__)))
EVIDENCE_DIR = os.environ.get("VERIF_EVIDENCE_DIR") or os.path.join(VERIF, "evidence")
KNOWN_FILE = os.path.join(VERIF, "known_findings.json")


class Obligation(object):
    __slots__ = ("rule", "site", "qualname", "construct", "what", "ok", "detail", "analysis")

    def __init__(self, rule, site, qualname, construct, what, ok, detail, analysis):
        self.rule = rule
        self.site = site
        self.qualname = qualname
        self.construct = construct
        self.what = what
        self.ok = ok
        self.detail = detail
        self.analysis = analysis

    def key(self):
        return (self.rule, self.qualname, self.construct)

    def as_dict(self):
        d = {"rule": self.rule, "site": self.site, "construct": self.construct,
             "obligation": self.what, "verdict": "holds" if self.ok else "VIOLATED"}
        if self.detail:
            d["detail"] = self.detail
        if self.analysis:
            d["analysis"] = self.analysis
        return d


class Ctx(object):
    """One run of one property's rules."""

    def __init__(self, prop, tier="quick", prog=None):
        self.prop = prop
        self.tier = tier
        self.prog = prog or program()
        self.obs = []
        self.notes = []
        self.suppressions = []
        self.floors = []
        self.stats = {}
        self.rules_run = []
        self._cfg_cache = {}

    # -- obligations ---------------------------------------------------------
    def ob(self, rule, where, what, ok, construct="", detail="", analysis=""):
        """Record one obligation.  `where` is a FuncInfo/ClassInfo/Module or (module, node, qualname)."""
        site, qual = self._site(where, construct)
        if not isinstance(construct, str):
            construct = src(construct)
        o = Obligation(rule, site, qual, construct, what, bool(ok), detail, analysis)
        self.obs.append(o)
        return bool(ok)

    def _site(self, where, construct=None):
        line = None
        if construct is not None and not isinstance(construct, str) and hasattr(construct, "lineno"):
            line = construct.lineno
        if isinstance(where, tuple):
            module, node, qual = where
            return "%s:%d %s" % (module.relpath, line or getattr(node, "lineno", 0), qual), qual
        if hasattr(where, "qualname"):
            return "%s:%d %s" % (where.module.relpath, line or where.node.lineno, where.qualname), where.qualname
        if hasattr(where, "relpath"):
            return "%s:%d %s" % (where.relpath, line or 0, where.name), where.name
        return str(where), str(where)

    def floor(self, rule, count, minimum, what):
        """Instance floor: a rule that matches fewer sites than were confirmed by reading is broken."""
        self.floors.append({"rule": rule, "matched": count, "floor": minimum, "what": what})
        if count < minimum:
            raise AnalysisError(rule, what, "instance floor not met: matched %d < %d" % (count, minimum))

    def suppress(self, rule, site, reason):
        self.suppressions.append({"rule": rule, "site": site, "reason": reason})

    def note(self, text):
        self.notes.append(text)

    def stat(self, key, n=1):
        self.stats[key] = self.stats.get(key, 0) + n

    def cfg(self, f):
        from .cfg import build_cfg
        if f.qualname not in self._cfg_cache:
            self._cfg_cache[f.qualname] = build_cfg(f)
            self.stat("cfgs_built")
            self.stat("cfg_nodes", len(self._cfg_cache[f.qualname].nodes))
        return self._cfg_cache[f.qualname]

    def facts(self, f):
        from .cfg import Facts
        k = ("facts", f.qualname)
        if k not in self._cfg_cache:
            self._cfg_cache[k] = Facts(self.cfg(f), params=f.params)
        return self._cfg_cache[k]

    def inliner(self, f):
        from .cfg import Inliner
        k = ("inl", f.qualname)
        if k not in self._cfg_cache:
            self._cfg_cache[k] = Inliner(self.cfg(f), params=f.params)
        return self._cfg_cache[k]


def load_known():
    if not os.path.exists(KNOWN_FILE):
        return []
    with open(KNOWN_FILE) as fh:
        data = json.load(fh)
    return data.get("findings", [])


def match_known(prop, o, known):
    for k in known:
        if k.get("status") != "known":
            continue        # 'fixed' entries suppress nothing
        if k["property"] == prop and k["rule"] == o.rule and k["qualname"] == o.qualname \
                and k["construct"] == o.construct:
            return k
    return None


def finish(ctx, level_text, explanation, assumptions, t0, extra=None, seed=0):
    """Print verdict lines, write evidence, return exit code."""
    known = load_known()
    viol = [o for o in ctx.obs if not o.ok]
    new, listed = [], []
    for o in viol:
        k = match_known(ctx.prop, o, known)
        (listed if k else new).append((o, k))
    for o, k in listed:
        print("KNOWN-FINDING: property=%s rule=%s site=%s construct=%r %s" % (
            ctx.prop, o.rule, o.site, o.construct, k.get("what", "")))
    rdir = os.path.join(EVIDENCE_DIR, "replay")
    os.makedirs(rdir, exist_ok=True)
    # clear stale replay files of this property
    for fn in os.listdir(rdir):
        if fn.startswith(ctx.prop + "-"):
            try:
                os.unlink(os.path.join(rdir, fn))
            except OSError:
                pass
    for i, (o, _) in enumerate(new):
        path = os.path.join(rdir, "%s-%d.json" % (ctx.prop, i + 1))
        with open(path, "w") as fh:
            json.dump({"property": ctx.prop, "rule": o.rule, "site": o.site, "qualname": o.qualname,
                       "construct": o.construct, "obligation": o.what, "detail": o.detail,
                       "analysis": o.analysis}, fh, indent=1)
        print("  rule=%s site=%s\n    construct: %s\n    obligation: %s\n    %s" % (
            o.rule, o.site, o.construct, o.what, o.detail))
        print("VIOLATION property=%s replay=%s" % (ctx.prop, path))
    distinct = set((o.rule, o.qualname, o.construct) for o in ctx.obs)
    samples = [o.as_dict() for o in ctx.obs if not o.ok][:10]
    seen_rules = set()
    for o in ctx.obs:
        if o.rule not in seen_rules and o.ok:
            seen_rules.add(o.rule)
            samples.append(o.as_dict())
    coverage = {
        "explanation": explanation,
        "obligations": len(ctx.obs),
        "discharged": len(ctx.obs) - len(viol),
        "evaluations": len(ctx.obs),
        "distinct_nontrivial": len(distinct),
        "rule": "one evaluation = one obligation (rule instance at one construct of /repo's current source); "
                "distinct = distinct (rule, qualified name, normalised construct) triples; an obligation exists only "
                "where the rule's precondition matched a construct, so none is trivial",
        "samples": samples[:40],
        "rules": sorted(set(o.rule for o in ctx.obs)),
        "per_rule": _per_rule(ctx),
        "instance_floors": ctx.floors,
        "suppressions": ctx.suppressions,
        "known_findings_reported": [{"rule": o.rule, "site": o.site, "construct": o.construct} for o, _ in listed],
        "source_digest": ctx.prog.digest(),
        "modules_parsed": len(ctx.prog.modules),
        "functions_indexed": len(ctx.prog.functions),
        "classes_indexed": len(ctx.prog.classes),
        "stats": ctx.stats,
        "notes": ctx.notes,
        "checker_cmd": "/venv/bin/python sa/check.py %s --tier %s" % (ctx.prop, ctx.tier),
        "trusted_base": ["CPython ast parser", "the rule tables in /verif/sa (frozen from reading, instance floors enforced)"],
    }
    if extra:
        coverage.update(extra)
    ev = {
        "property_id": ctx.prop,
        "tier": ctx.tier,
        "seed": seed,
        "level": "other",
        "coverage": coverage,
        "assumptions": assumptions,
        "wall_s": round(time.time() - t0, 3),
        "violations": len(new),
        "claim": level_text,
    }
    os.makedirs(EVIDENCE_DIR, exist_ok=True)
    with open(os.path.join(EVIDENCE_DIR, ctx.prop + ".json"), "w") as fh:
        json.dump(ev, fh, indent=1, sort_keys=False)
    print("%s tier=%s obligations=%d discharged=%d new_violations=%d known=%d wall=%.2fs" % (
        ctx.prop, ctx.tier, len(ctx.obs), len(ctx.obs) - len(viol), len(new), len(listed), time.time() - t0))
    return 1 if new else 0


def _per_rule(ctx):
    out = {}
    for o in ctx.obs:
        d = out.setdefault(o.rule, {"obligations": 0, "violated": 0})
        d["obligations"] += 1
        if not o.ok:
            d["violated"] += 1
    return out
